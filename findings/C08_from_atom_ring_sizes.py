"""fixed: before the fix the comparison raised TypeError: 'set' object is not subscriptable."""
from chython import smiles
from chython.periodictable import QueryElement

m = smiles('CC1CC1O')
q = QueryElement.from_atom(m.atom(2), ring_sizes=True)
print(q.ring_sizes, q == m.atom(2), q == m.atom(1))
