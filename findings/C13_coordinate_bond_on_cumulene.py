"""fixed by e2d9670: a coordinate bond on an inner atom of a cumulene.
Before the fix str(m) raised KeyError and delete_bond() on one component dropped the label of the other."""
from chython import smiles

m = smiles('C/C=C=C=C\\C.C/C=C=C=C\\C')
m.add_bond(1, 4, 8)
m.add_bond(7, 10, 8)
print(str(m))
before = sorted((n, k) for n, k, b in m.bonds() if b.stereo is not None)
m.delete_bond(7, 8)
after = sorted((n, k) for n, k, b in m.bonds() if b.stereo is not None)
print(before, after)
assert (3, 4) in after or (4, 3) in after, 'the untouched component lost its label'
