"""C14 known finding: two instances of a rule that share a context atom spelled as an element are fixed one per call."""
from chython import smiles
m = smiles('C(N(C)#N)N(C)#N')
m.standardize(); first = str(m)
m.standardize(); second = str(m)
print(first, '->', second)
raise SystemExit(1 if first != second else 0)
