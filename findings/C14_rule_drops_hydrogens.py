"""C14 known finding: group rules that match hydrogen-bearing instances drop the hydrogens of a valence-valid molecule."""
from chython import smiles
bad = 0
for s in ('C[NH+][C-]=O', '[NH2+][C-]=O', 'CC(C)(C)[N+][O-]', 'CN=[N+]', 'C=O |^1:0|'):
    m = smiles(s)
    h0 = sum(a.implicit_hydrogens for _, a in m.atoms())
    assert not m.check_valence()
    before = str(m)
    m.standardize()
    h1 = sum(a.implicit_hydrogens for _, a in m.atoms())
    print(before, h0, '->', str(m), h1)
    bad += h0 != h1
raise SystemExit(1 if bad else 0)
