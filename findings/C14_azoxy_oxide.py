"""C14 known finding: the documented canonical spelling of azoxy oxides is not a fixed point of standardize()."""
from chython import smiles
bad = 0
for s in ('C[N+]([O-])=[N+]([O-])C', 'C[N+]([O-])=[N+]([NH-])C', 'C[N+]([O-])=[N+]([N-]C)C'):
    m = smiles(s)
    before = str(m)
    changed = m.standardize()
    print(s, '->', str(m), 'changed' if changed else 'unchanged')
    bad += str(m) != before
raise SystemExit(1 if bad else 0)
