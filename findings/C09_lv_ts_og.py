"""Reproduction of known finding C09-lv-ts-og against the real code (the .pyx source is run through harness/pyxlite.py).
run: PYTHONPATH=/verif/harness/shim:/repo:/verif/harness /venv/bin/python findings/C09_lv_ts_og.py"""
import pyxlite
from chython import smiles, smarts

pyxlite.install('/repo')
q, t = smarts('[M]'), smiles('[Og]')
a = [dict(m) for m in q.get_mapping(t)]
b = [dict(m) for m in q.get_mapping(t, _cython=False)]
print('compiled path :', a)
print('reference path:', b)
print('EQUAL' if a == b else 'DIFFERENT  <- the result depends on how the library was installed')
