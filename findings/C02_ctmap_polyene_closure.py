"""Reproduction of known finding C02-ctmap-polyene-closure against the real code.
run: PYTHONPATH=/verif/harness/shim:/repo /venv/bin/python findings/C02_ctmap_polyene_closure.py
(E,E)-azacyclododecadiene is written, for the atom order below, with marks that denote a (Z) bond."""
from chython import smiles

m = smiles('N1CCC/C=C/C=C/CCCC1')
# written order: start at C5, walk C4 C3 C2 N1 C12 C11 C10 C9 C8 C7 C6 -> the C5=C6 bond becomes the ring closure
rank = {5: 0, 4: 1, 3: 2, 2: 3, 1: 4, 12: 5, 11: 6, 10: 7, 9: 8, 8: 9, 7: 10, 6: 11}
text, order = m._smiles(rank.__getitem__, random=True, _return_order=True)
text = ''.join(text)
back = smiles(text)
print('original :', m)
print('written  :', text, 'order', order)
print('read back:', back)
print('EQUAL' if back == m else 'DIFFERENT  <- write/read changed the configuration')
