"""Reproduction of known finding C05-tautomer-fix. run: PYTHONPATH=/verif/harness/shim:/repo /venv/bin/python findings/C05_tautomer_fix.py"""
from chython import smiles
m = smiles('N1C=CC2=NC=CC2=C1')
before = {n: a.implicit_hydrogens for n, a in m.atoms()}
m.thiele()
after = {n: a.implicit_hydrogens for n, a in m.atoms()}
print('hydrogens before:', before)
print('hydrogens after :', after, str(m))
print('PRESERVED' if before == after else 'CHANGED  <- aromatisation moved a hydrogen to another atom')
