"""fixed: before the fix the query matched the opposite isomer only."""
from chython import smiles, smarts

q = smarts('ClC(/F)=C/F')
same = len(list(q.get_mapping(smiles('ClC(/F)=C/F'), automorphism_filter=False)))
other = len(list(q.get_mapping(smiles('ClC(/F)=C\\F'), automorphism_filter=False)))
print(same, other)
assert same == 1 and other == 0
