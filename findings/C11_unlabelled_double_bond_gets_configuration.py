"""C11 known finding: a stereogenic double bond without a label is written like any other bond (no 'either' mark); a reader that
takes configuration from the 2D drawing (calc_cis_trans=True, the only way to keep labelled double bonds) then gives it a label."""
import io
from chython import smiles
from chython.files import SDFWrite, SDFRead
from rdkit import Chem
from rdkit.Chem import AllChem
s = 'COCCCCC(=NOCCN)c1ccc(cc1)C(F)(F)F'
rd = Chem.MolFromSmiles(s)
AllChem.Compute2DCoords(rd)
m = smiles(s)
for a, p in zip(m._atoms.values(), rd.GetConformer().GetPositions()):
    a.x, a.y = float(p[0]), float(p[1])
out = io.StringIO()
with SDFWrite(out) as w:
    w.write(m)
b = next(iter(SDFRead(io.StringIO(out.getvalue()), calc_cis_trans=True)))
print(str(m), '->', str(b))
raise SystemExit(1 if str(m) != str(b) else 0)
