"""fixed by 8c3d8fd: before the fix str(m) raised KeyError (the label stayed on an atom that is no tetrahedron any more)."""
from chython import smiles

m = smiles('NC[C@@H](O)COc1ccccc1')
m.add_bond(3, 8, 8)
print(str(m))
