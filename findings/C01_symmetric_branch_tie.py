"""fixed: before the fix each of these molecules had two canonical strings under renumbering."""
import random
from chython import smiles

for s in ['OC1CCC2(CC1)CCC(O)CC2', 'CC1(C)CCC2(CC1)CCC(C)(C)CC2', 'Oc1cc2c(cc1O)c1cc(O)c(O)cc1c1cc(O)c(O)cc21', 'N1CCC2(CC1)CCNCC2']:
    m = smiles(s)
    rnd = random.Random(1)
    seen = set()
    for k in range(60):
        nums = list(m._atoms)
        new = nums[:]
        rnd.shuffle(new)
        c = m.copy()
        c.remap({a: b + 1000 for a, b in zip(nums, new)})
        c.remap({k: k - 1000 for k in c._atoms})
        seen.add(str(c))
    print(s, sorted(seen))
    assert len(seen) == 1
