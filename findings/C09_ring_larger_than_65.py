"""Reproduction of known finding C09-ring-larger-than-65 against the real code (the .pyx source is run through harness/pyxlite.py).
run: PYTHONPATH=/verif/harness/shim:/repo:/verif/harness /venv/bin/python findings/C09_ring_larger_than_65.py"""
import pyxlite
from chython import smiles, smarts

pyxlite.install('/repo')
for n in (65, 66):
    q, t = smarts('[C;!R]'), smiles('OC1' + 'C' * (n - 1) + '1')
    a = sorted(tuple(m.items()) for m in q.get_mapping(t))
    b = sorted(tuple(m.items()) for m in q.get_mapping(t, _cython=False))
    print(f'{n}-membered ring: compiled path {len(a)} mappings, reference path {len(b)} mappings:', 'EQUAL' if a == b else 'DIFFERENT  <- the result depends on how the library was installed')
