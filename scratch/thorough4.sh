#!/bin/sh
# thorough tier of every check after the sixth seeding round (development aid; run through `vp run`)
for id in C01 C13 C19 C17 C12 C11 C08 C16 C20 C04 C06 C07 C09 C10 C18 C05 C14 C15 C03 C02; do
  /usr/bin/time -f "%es" bin/check $id --tier thorough > /tmp/thor5_$id.log 2>&1; rc=$?
  echo "$id thorough exit $rc $(grep -c '^VIOLATION' /tmp/thor5_$id.log) $(grep -E 'held|FAILED|MACHINERY' /tmp/thor5_$id.log | tail -1 | cut -c1-200) $(tail -1 /tmp/thor5_$id.log)"
  grep -E "^  part" /tmp/thor5_$id.log | cut -c1-600 | head -6
  mkdir -p /tmp/thor5_rep; cp -r replays/$id /tmp/thor5_rep/ 2>/dev/null
done
