#!/bin/sh
# run every claimed quick check under several seeds (development aid)
for s in 1 2 3 7; do for id in C01 C02 C03 C04 C06 C13; do
  VERIF_SEED=$s VERIF_ONLY=x_no_evidence_dummy_ bin/check $id --tier quick >/dev/null 2>&1
  VERIF_SEED=$s bin/check $id --tier quick > /tmp/seedrun_${id}_$s.log 2>&1; echo "seed $s $id exit $? $(grep -c '^VIOLATION' /tmp/seedrun_${id}_$s.log)"
done; done
