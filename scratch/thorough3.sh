#!/bin/sh
# thorough tier after the fourth seeding round (development aid; run through `vp run`)
for id in C14 C20 C11 C08 C01 C05 C09 C12 C16 C19 C03 C18 C13; do
  /usr/bin/time -f "%es" bin/check $id --tier thorough > /tmp/thor3_$id.log 2>&1; rc=$?
  echo "$id thorough exit $rc $(grep -c '^VIOLATION' /tmp/thor3_$id.log) $(grep -E 'held|FAILED|MACHINERY' /tmp/thor3_$id.log | tail -1 | cut -c1-200) $(tail -1 /tmp/thor3_$id.log)"
  grep -E "^  part" /tmp/thor3_$id.log | cut -c1-400 | head -6
done
