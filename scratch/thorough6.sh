#!/bin/sh
# thorough tier of the checks that read SMARTS, after the last repair in /repo (development aid; run through `vp run`)
for id in C08 C16 C09 C07 C14 C15 C17; do
  /usr/bin/time -f "%es" bin/check $id --tier thorough > /tmp/thor7_$id.log 2>&1; rc=$?
  echo "$id thorough exit $rc $(grep -c '^VIOLATION' /tmp/thor7_$id.log) $(grep -E 'held|FAILED|MACHINERY' /tmp/thor7_$id.log | tail -1 | cut -c1-200)"
  grep -E "^  part" /tmp/thor7_$id.log | cut -c1-500 | head -4
done
