#!/bin/sh
# thorough tier of the checks changed after the last complete sweep (development aid; run through `vp run`)
for id in C11 C05 C07 C09 C10 C06 C03 C16 C13; do
  /usr/bin/time -f "%es" bin/check $id --tier thorough > /tmp/thor6_$id.log 2>&1; rc=$?
  echo "$id thorough exit $rc $(grep -c '^VIOLATION' /tmp/thor6_$id.log) $(grep -E 'held|FAILED|MACHINERY' /tmp/thor6_$id.log | tail -1 | cut -c1-200) $(tail -1 /tmp/thor6_$id.log)"
  grep -E "^  part" /tmp/thor6_$id.log | cut -c1-600 | head -6
done
