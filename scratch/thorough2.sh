#!/bin/sh
# thorough tier of the newer checks (development aid; run through `vp run`)
for id in C14 C15 C16 C20 C17 C19 C11 C12 C13 C18 C03; do
  /usr/bin/time -f "%es" bin/check $id --tier thorough > /tmp/thor2_$id.log 2>&1; rc=$?
  echo "$id thorough exit $rc $(grep -c '^VIOLATION' /tmp/thor2_$id.log) $(grep -E 'held|FAILED|MACHINERY' /tmp/thor2_$id.log | tail -1 | cut -c1-200)"
  grep -E "^  part" /tmp/thor2_$id.log | cut -c1-400 | head -8
done
