#!/bin/sh
for id in C10 C09 C07 C08 C12 C04 C06 C01 C02; do
  bin/check $id --tier thorough > /tmp/thor_$id.log 2>&1; echo "$id thorough exit $? $(grep -c '^VIOLATION' /tmp/thor_$id.log) $(tail -1 /tmp/thor_$id.log)"
done
