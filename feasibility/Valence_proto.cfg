INIT Init
NEXT Next
INVARIANT Inv
CHECK_DEADLOCK FALSE
