---------------------------- MODULE Emb_proto ----------------------------
EXTENDS Naturals, Sequences, FiniteSets, TLC, Json
R == JsonDeserialize("emb.json")
VARIABLE c, i
CH == 64
N == Len(R)
Nodes(g) == 1..Len(g.atoms)
Ord(g, a, b) == LET ks == {k \in 1..Len(g.bonds) : {g.bonds[k][1], g.bonds[k][2]} = {a, b}}
                IN IF ks = {} THEN 0 ELSE g.bonds[CHOOSE k \in ks : TRUE][3]
Adj(g) == TLCEval([a \in Nodes(g) |-> [b \in Nodes(g) |-> Ord(g, a, b)]])
Range(f) == {f[k] : k \in 1..Len(f)}
\* pattern atoms are taken in their own order (a connected cut grown atom by atom: each atom touches an earlier one)
Cand(P, T, pa, ta, f, k) ==
   { t \in Nodes(T) : /\ t \notin Range(f)
                      /\ P.atoms[k] = T.atoms[t]
                      /\ \A j \in 1..(k-1) : pa[j][k] = ta[f[j]][t] }     \* induced: same order, 0 = no bond
RECURSIVE Ext(_, _, _, _, _, _)
Ext(P, T, pa, ta, k, S) == IF k > Len(P.atoms) THEN S
                           ELSE Ext(P, T, pa, ta, k + 1, TLCEval(UNION { {Append(f, t) : t \in Cand(P, T, pa, ta, f, k)} : f \in S }))
Embeddings(P, T) == Ext(P, T, Adj(P), Adj(T), 1, {<<>>})
Obs(r) == { r.maps[k] : k \in 1..Len(r.maps) }
Ok(r) == /\ Obs(r) = Embeddings(r.p, r.t)
         /\ Cardinality(Obs(r)) = Len(r.maps)          \* no duplicates
Init == c \in 0..(CH-1) /\ i = c + 1
Next == i + CH <= N /\ i' = i + CH /\ c' = c
Inv == i <= N => Ok(R[i])
=============================================================================
