import sys, csv, json, zipfile, zlib, struct
sys.path.insert(0,'/verif/feasibility')
import pyxlite_proto as P
import chython
from chython import MoleculeContainer
P.load('/repo/chython/containers/_unpack_v0v2.pyx','chython.containers._unpack_v0v2')
P.load('/repo/chython/containers/_pack_v2.pyx','chython.containers._pack_v2')
z=zipfile.ZipFile('/repo/pach/SI.zip')
out=[]
N=int(sys.argv[1])
def half(x):
    return struct.unpack('>H', struct.pack('>e', x))[0]   # exact here: unpacked values are half-representable
for i in range(N):
    raw=zlib.decompress(z.read(f'data/{i}.pach'))
    m=MoleculeContainer.unpack(raw, compressed=False)
    pos={n:k+1 for k,n in enumerate(m)}
    atoms=[]
    for n,a in m.atoms():
        st=0 if a._stereo is None else (1 if a._stereo else 2)
        atoms.append({"num":n,"z":a.atomic_number,"iso":a._isotope or 0,"chg":a._charge,"rad":1 if a._is_radical else 0,
                      "h":-1 if a._implicit_hydrogens is None else a._implicit_hydrogens,"st":st,
                      "x":half(a.x),"y":half(a.y),"nbr":[k for k in m._bonds[n]],"ord":[b._order for b in m._bonds[n].values()],
                      "bst":[0 if b._stereo is None else (1 if b._stereo else 2) for b in m._bonds[n].values()]})
    out.append({"atoms":atoms,"bytes":list(m.pack(compressed=False)),"shipped":list(raw)})
json.dump(out,open('pk.json','w')); print(len(out))
