---------------------------- MODULE Sym_proto ----------------------------
EXTENDS Naturals, Sequences, FiniteSets, TLC, Json, FiniteSetsExt
Mols == JsonDeserialize("mols2.json")
VARIABLE c, i
CH == 64
N == Len(Mols)
Nodes(m) == 1..Len(m.atoms)
NbrO(m, n) == { <<IF m.bonds[k][1] = n THEN m.bonds[k][2] ELSE m.bonds[k][1], m.bonds[k][3]>> :
                 k \in {j \in 1..Len(m.bonds) : m.bonds[j][1] = n \/ m.bonds[j][2] = n} }
Compress(m, sig) == TLCEval([n \in Nodes(m) |-> Min({k \in Nodes(m) : sig[k] = sig[n]})])
Sig(m, col, n) == LET nb == NbrO(m, n)
                      keys == { <<col[p[1]], p[2]>> : p \in nb }
                  IN <<col[n], [q \in keys |-> Cardinality({p \in nb : <<col[p[1]], p[2]>> = q})]>>
NCls(m, col) == Cardinality({col[n] : n \in Nodes(m)})
RECURSIVE Refine(_, _)
Refine(m, col) == LET new == Compress(m, TLCEval([n \in Nodes(m) |-> Sig(m, col, n)]))
                  IN IF NCls(m, new) = NCls(m, col) THEN new ELSE Refine(m, new)
Classes(m) == Refine(m, Compress(m, TLCEval([n \in Nodes(m) |-> <<m.atoms[n].z, m.atoms[n].c, m.atoms[n].h>>])))
Init == c \in 0..(CH-1) /\ i = c + 1
Next == i + CH <= N /\ i' = i + CH /\ c' = c
Inv == i <= N => NCls(Mols[i], Classes(Mols[i])) = Mols[i].ncls
=============================================================================
