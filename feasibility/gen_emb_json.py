import csv, json, random
import chython
from chython import smiles
random.seed(3)
rows=[r[2] for r in list(csv.reader(open('/repo/pach/lipophilicity.csv')))[1:]]
out=[]
def proj(m):
    idx={n:i+1 for i,n in enumerate(m)}
    return idx, {"atoms":[[a.atomic_number,a.charge,a.isotope or 0,1 if a.is_radical else 0] for _,a in m.atoms()],
                 "bonds":[[idx[n],idx[k],b.order] for n,k,b in m.bonds()]}
cnt=0
for s in rows:
    t=smiles(s); t.kekule()
    if len(t)>int(__import__('sys').argv[1]): continue
    # connected cut of k atoms
    for k in (2,3,4,5,6):
        start=random.choice(list(t)); sel=[start]
        while len(sel)<k:
            fr=[x for n in sel for x in t._bonds[n] if x not in sel]
            if not fr: break
            sel.append(random.choice(fr))
        p=t.substructure(sel, recalculate_hydrogens=True)
        pi,pp=proj(p); ti,tp=proj(t)
        maps=[[ti[mp[n]] for n in p] for mp in p.get_mapping(t, automorphism_filter=False)]
        out.append({"p":pp,"t":tp,"maps":maps})
    cnt+=1
    if cnt>=int(__import__('sys').argv[2]): break
json.dump(out,open('emb.json','w')); print(len(out), max(len(x['t']['atoms']) for x in out), max(len(x['maps']) for x in out))
