\* fully repaired design: TLC must PASS
CONSTANTS MaxAtom = 3
 FlushOnDelete = TRUE
 FlushOnCommit = TRUE
 ResetChangedOnAbort = TRUE
 DiscardOnDelete = TRUE
 RecalcAllOnCommit = TRUE
SPECIFICATION Spec
INVARIANT CacheCoherent
INVARIANT HydrogensFresh
INVARIANT StaysUsable
