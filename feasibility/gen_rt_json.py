import csv, json, random, sys
import chython
from chython import smiles
random.seed(int(sys.argv[1]) if len(sys.argv)>1 else 0)
rows=[r[2] for r in list(csv.reader(open('/repo/pach/lipophilicity.csv')))[1:]]
def par(m,n,idx):
    a=m.atom(n)
    if a._stereo is None: return 2
    env=[idx[x] for x in m._bonds[n] if m.atom(x).atomic_number!=1]
    if len(env) not in (3,4) or any(b.order!=1 for b in m._bonds[n].values()): return 2   # allene centre etc: skip in prototype
    if len(env)==3: env.append(10**6)
    inv=sum(1 for i in range(4) for j in range(i+1,4) if env[i]>env[j])
    return ((0 if a._stereo else 1)+inv)%2
def ct(m,idx):
    res=[]
    for n,k,b in m.bonds():
        if b._stereo is None or b.order!=2: continue
        def ref(a,partner):
            for x,bx in m._bonds[a].items():
                if x!=partner and m.atom(x).atomic_number!=1 and bx.order!=8: return x
        if any(bx.order==2 and x!=k for x,bx in m._bonds[n].items()) or any(bx.order==2 and x!=n for x,bx in m._bonds[k].items()): continue
        x=ref(n,k); y=ref(k,n)
        res.append([idx[n],idx[k],idx[x],idx[y],1 if b._stereo else 0])
    return res
out=[]; fmts=['r','ar','Ar']
for s in rows:
    m=smiles(s)
    for f in fmts:
        text,order=m.__format__(f,_return_order=True)
        idx={n:i+1 for i,n in enumerate(order)}
        out.append({"s":list(text),"ok":True,"src":s,
                    "atoms":[{"z":m.atom(n).atomic_number,"c":m.atom(n).charge,"i":m.atom(n).isotope or 0,"p":par(m,n,idx)} for n in order],
                    "ct":ct(m,idx),
                    "bonds":sorted([min(idx[n],idx[k]),max(idx[n],idx[k]),b.order] for n,k,b in m.bonds())})
json.dump(out,open('smi.json','w')); print(len(out))
