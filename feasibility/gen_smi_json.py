import csv, json
import chython
from chython import smiles
rows=[r[2] for r in list(csv.reader(open('/repo/pach/lipophilicity.csv')))[1:]]
extra=['(', 'C(', 'C)', 'C1', 'C==C', 'C%12CC%12', '[13CH4]', 'C11', 'C1C1', 'Cl', 'BrC', 'C.C', 'C(.C)', '[nH]1cccc1', '[Fe+2]','[C@H](F)(Cl)Br','C0','[N--]','[N+-]','c1ccccc1c1ccccc1']
def par(m,n,idx):
    a=m.atom(n)
    if a.stereo is None or n not in m.stereogenic_tetrahedrons: return 2
    env=[idx[x] for x in m._bonds[n] if m.atom(x).atomic_number!=1]
    if len(env)==3: env.append(10**6)
    inv=sum(1 for i in range(4) for j in range(i+1,4) if env[i]>env[j])
    return ((0 if a.stereo else 1)+inv)%2
def ct(m,idx):
    res=[]
    for n,k,b in m.bonds():
        if b.stereo is None: continue
        if b.order!=2: continue
        def ref(a,partner):
            for x,bx in m._bonds[a].items():
                if x!=partner and m.atom(x).atomic_number!=1 and bx.order!=8: return x
        # only simple alkenes (no cumulene): both ends must have no other double bond
        if any(bx.order==2 and x!=k for x,bx in m._bonds[n].items()) or any(bx.order==2 and x!=n for x,bx in m._bonds[k].items()): continue
        x=ref(n,k); y=ref(k,n)
        res.append([idx[n],idx[k],idx[x],idx[y],1 if b.stereo else 0])
    return res
out=[]
for s in rows+extra:
    try:
        m=smiles(s)
    except ValueError:
        out.append({"s":list(s),"ok":False}); continue
    except Exception:
        continue
    idx={n:i+1 for i,n in enumerate(m)}
    out.append({"s":list(s),"ok":True,"atoms":[{"z":a.atomic_number,"c":a.charge,"i":a.isotope or 0,"p":par(m,n,idx)} for n,a in m.atoms()],
                "ct":ct(m,idx),"bonds":[[min(idx[n],idx[k]),max(idx[n],idx[k]),b.order] for n,k,b in m.bonds()]})
json.dump(out,open('smi.json','w'))
print(len(out))
