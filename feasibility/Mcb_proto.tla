---------------------------- MODULE Mcb_proto ----------------------------
EXTENDS Naturals, Sequences, FiniteSets, TLC, Json, FiniteSetsExt, Folds

Mols == JsonDeserialize("mols.json")
VARIABLE c, i
CH == 64
N == Len(Mols)

EdgesNS(m) == { {m.bonds[k][1], m.bonds[k][2]} : k \in {j \in 1..Len(m.bonds) : m.bonds[j][3] # 8} }
Verts(E) == UNION E
Nbrs(E, n) == { x \in Verts(E) : {n, x} \in E }

RECURSIVE Skin(_)
Skin(E) == LET leaves == { v \in Verts(E) : Cardinality(Nbrs(E, v)) = 1 }
           IN IF leaves = {} THEN E ELSE Skin({ e \in E : e \cap leaves = {} })

\* BFS from v: returns function x |-> edge set of one shortest path v..x (tree paths)
RECURSIVE Bfs(_, _, _)
Bfs(E, front, path) ==   \* path : [reached -> edge set]
   LET reached == DOMAIN path
       cand == { <<p, x>> \in front \X Verts(E) : x \notin reached /\ {p, x} \in E }
       newv == { q[2] : q \in cand }
   IN IF newv = {} THEN path
      ELSE LET par == [x \in newv |-> CHOOSE p \in front : <<p, x>> \in cand]
               path2 == [x \in reached \cup newv |-> IF x \in reached THEN path[x] ELSE path[par[x]] \cup {{par[x], x}}]
           IN Bfs(E, newv, path2)

SymDiff2(a, b) == (a \ b) \cup (b \ a)
Candidates(E) ==
   UNION { LET P == Bfs(E, {v}, [x \in {v} |-> {}])
           IN { SymDiff2(SymDiff2(P[CHOOSE a \in e : TRUE], P[CHOOSE b \in e : b # (CHOOSE a \in e : TRUE)]), {e}) :
                  e \in { f \in E : f \subseteq DOMAIN P } }
         : v \in Verts(E) }
\* keep only simple cycles: every vertex of the edge set has degree exactly 2 and it is non-empty
IsCycleSet(C) == C # {} /\ \A v \in UNION C : Cardinality({e \in C : v \in e}) = 2
\* connectedness of a 2-regular edge set: number of vertices = number of edges and one component; approximated by
\* minimality of Horton candidates (symmetric difference of two tree paths plus an edge is a single cycle when 2-regular)

ReduceFull(v, basis) == FoldSet(LAMBDA b, acc : IF b[1] \in acc THEN SymDiff2(acc, b[2]) ELSE acc, v, basis)
RECURSIVE Insert(_, _, _, _, _)
\* cands: set of candidate cycles of the current size; returns <<basis, weight, count>>
Insert(cands, basis, weight, count, need) ==
   IF cands = {} \/ count = need THEN <<basis, weight, count>>
   ELSE LET cy == CHOOSE x \in cands : TRUE
            v == ReduceFull(cy, basis)
        IN IF v = {} THEN Insert(cands \ {cy}, basis, weight, count, need)
           ELSE LET p == CHOOSE e \in v : TRUE
                    nb == { <<b[1], IF p \in b[2] THEN SymDiff2(b[2], v) ELSE b[2]>> : b \in basis }
                IN Insert(cands \ {cy}, nb \cup {<<p, v>>}, weight + Cardinality(cy), count + 1, need)
RECURSIVE Greedy(_, _, _, _, _, _)
Greedy(all, size, maxsize, basis, weight, need) ==
   IF size > maxsize \/ basis[3] = need THEN basis
   ELSE Greedy(all, size + 1, maxsize, Insert({x \in all : Cardinality(x) = size}, basis[1], basis[2], basis[3], need), weight, need)

MinWeight(m) ==
   LET E == Skin(EdgesNS(m))
       all == { x \in Candidates(E) : IsCycleSet(x) }
       mx == IF all = {} THEN 0 ELSE Max({Cardinality(x) : x \in all})
       r == Greedy(all, 3, mx, <<{}, 0, 0>>, 0, m.rc)
   IN r
RECURSIVE SumLen(_, _)
SumLen(q, k) == IF k > Len(q) THEN 0 ELSE Len(q[k]) + SumLen(q, k + 1)
Ok(m) == LET r == MinWeight(m) IN r[3] = m.rc /\ r[2] = SumLen(m.rings, 1)

Init == c \in 0..(CH-1) /\ i = c + 1
Next == i + CH <= N /\ i' = i + CH /\ c' = c
Inv == i <= N => (Mols[i].rc = 0 \/ Ok(Mols[i]))
=============================================================================
