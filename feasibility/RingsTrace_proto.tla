---------------------------- MODULE RingsTrace_proto ----------------------------
EXTENDS Naturals, Sequences, FiniteSets, TLC, Json, IOUtils, FiniteSetsExt, SequencesExt, Functions, Folds

Mols == JsonDeserialize("mols.json")
VARIABLE tid

NAtoms(m) == Len(m.atoms)
Nodes(m) == 1..NAtoms(m)
Edges(m) == { {m.bonds[i][1], m.bonds[i][2]} : i \in 1..Len(m.bonds) }
EdgesNS(m) == { {m.bonds[i][1], m.bonds[i][2]} : i \in {j \in 1..Len(m.bonds) : m.bonds[j][3] # 8} }
Nbrs(E, n) == { x \in UNION E : {n, x} \in E /\ x # n }

\* connected component of n by fixpoint
RECURSIVE Reach(_, _, _)
Reach(E, front, seen) ==
   IF front = {} THEN seen
   ELSE LET nxt == (UNION { Nbrs(E, n) : n \in front }) \ seen
        IN Reach(E, nxt, seen \cup nxt)

RECURSIVE CompCount(_, _)
CompCount(E, rest) ==
   IF rest = {} THEN 0
   ELSE LET n == CHOOSE x \in rest : TRUE
            c == Reach(E, {n}, {n})
        IN 1 + CompCount(E, rest \ c)

Cyclomatic(m) == Cardinality(EdgesNS(m)) - NAtoms(m) + CompCount(EdgesNS(m), Nodes(m))

RingEdges(r) == { {r[i], r[(i % Len(r)) + 1]} : i \in 1..Len(r) }
IsSimpleCycle(m, r) == /\ Len(r) >= 3
                       /\ Cardinality(ToSet(r)) = Len(r)
                       /\ RingEdges(r) \subseteq EdgesNS(m)

\* GF(2) independence: gaussian elimination over edge sets (symmetric difference)
\* basis: set of (pivot edge, vector) ; vs: sequence of vectors to insert
\* ordered elimination requires pivots be reduced consistently; use simple approach: keep basis in row-echelon by full reduction
ReduceFull(v, basis) ==
   LET hits == { b \in basis : b[1] \in v }
   IN FoldSet(LAMBDA b, acc : SymDiff(acc, b[2]), v, hits)

RECURSIVE IndepSeq(_, _, _)
IndepSeq(vs, i, basis) ==
   IF i > Len(vs) THEN TRUE
   ELSE LET v == ReduceFull(vs[i], basis)
        IN IF v = {} THEN FALSE
           ELSE LET p == CHOOSE e \in v : TRUE
                    \* eliminate p from existing basis vectors
                    nb == { <<b[1], IF p \in b[2] THEN SymDiff(b[2], v) ELSE b[2]>> : b \in basis }
                IN IndepSeq(vs, i + 1, nb \cup {<<p, v>>})
Indep(m, dummy) == IndepSeq([i \in 1..Len(m.rings) |-> RingEdges(m.rings[i])], 1, {})

Ok(m) == /\ Cyclomatic(m) = m.rc
         /\ Len(m.rings) = m.rc
         /\ \A i \in 1..Len(m.rings) : IsSimpleCycle(m, m.rings[i])
         /\ Indep(m, 0)
         /\ CompCount(Edges(m), Nodes(m)) = m.ncomp

Init == tid \in 1..Len(Mols)
Next == UNCHANGED tid
Inv == Ok(Mols[tid])
=============================================================================
