INIT Init
NEXT Next
CONSTRAINT Report
CHECK_DEADLOCK FALSE
