\* repaired except commit recomputes only the pending set: TLC finds stale hydrogens after SetCharge + AddAtom in one transaction (real defect C13-f)
CONSTANTS MaxAtom = 3
 FlushOnDelete = TRUE
 FlushOnCommit = TRUE
 ResetChangedOnAbort = TRUE
 DiscardOnDelete = TRUE
 RecalcAllOnCommit = FALSE
SPECIFICATION Spec
INVARIANT CacheCoherent
INVARIANT HydrogensFresh
INVARIANT StaysUsable
