---------------------------- MODULE Pack_proto ----------------------------
EXTENDS Naturals, Integers, Sequences, FiniteSets, TLC, Json
R == JsonDeserialize("pk.json")
VARIABLE c, i
CH == 64
N == Len(R)
\* reference isotope - 16 per element (literal here; exported from the tree in the real check)
CommonIso == <<-15, -12, -9, -7, -5, -4, -2, 0, 3, 4, 7, 8, 11, 12, 15, 16, 19, 24, 23, 24, 29, 32, 35, 36, 39, 40, 43, 43, 48, 49, 54, 57, 59, 63, 64, 68, 69, 72, 73, 75, 77, 80, 82, 85, 87, 90, 92, 96, 99, 103, 106, 112, 111, 115, 117, 121, 123, 124, 125, 128, 129, 134, 136, 141, 143, 147, 149, 151, 153, 157, 159, 162, 165, 168, 170, 174, 176, 179, 181, 185, 188, 191, 193, 193, 194, 206, 207, 210, 211, 216, 215, 222, 221, 228, 227, 231, 231, 235, 236, 241, 242, 243, 244, 245, 254, 253, 254, 254, 262, 265, 265, 269, 262, 273, 273, 277, 281, 278>>

RECURSIVE Flat(_, _)
Flat(ss, k) == IF k > Len(ss) THEN <<>> ELSE ss[k] \o Flat(ss, k + 1)
Hi(n) == n \div 16            \* upper 8 of a 12-bit number
Lo4(n) == n % 16
Header(m, nct) == <<2, Hi(Len(m.atoms)), Lo4(Len(m.atoms)) * 16 + nct \div 256, nct % 256>>
StereoNib(a) == IF a.st = 0 THEN 0
                ELSE IF Len(a.nbr) = 2 THEN (IF a.st = 1 THEN 3 ELSE 2)       \* allene 0011 / 0010
                ELSE (IF a.st = 1 THEN 12 ELSE 8)                                  \* tetrahedron 1100 / 1000
IsoField(a) == IF a.iso = 0 THEN 0 ELSE a.iso - CommonIso[a.z]
Hcr(a) == (IF a.h = -1 THEN 7 ELSE a.h) * 32 + (a.chg + 4) * 2 + a.rad
AtomRec(a) == <<Hi(a.num), Lo4(a.num) * 16 + Len(a.nbr),
                StereoNib(a) * 16 + IsoField(a) \div 2, (IsoField(a) % 2) * 128 + a.z,
                a.x \div 256, a.x % 256, a.y \div 256, a.y % 256, Hcr(a)>>
\* connection table: all neighbour numbers in order, packed two 12-bit numbers per 3 bytes
Conn(m) == Flat([k \in 1..Len(m.atoms) |-> m.atoms[k].nbr], 1)
RECURSIVE Pairs12(_, _)
Pairs12(q, k) == IF k > Len(q) THEN <<>>
                 ELSE <<Hi(q[k]), Lo4(q[k]) * 16 + q[k + 1] \div 256, q[k + 1] % 256>> \o Pairs12(q, k + 2)
\* bond orders: each bond once, at its first end in atom order
PosMap(m) == TLCEval([num \in {m.atoms[k].num : k \in 1..Len(m.atoms)} |-> CHOOSE k \in 1..Len(m.atoms) : m.atoms[k].num = num])
FirstEnds(m, what) == LET pm == PosMap(m) IN TLCEval(Flat([k \in 1..Len(m.atoms) |->
                         LET a == m.atoms[k] IN
                         Flat([j \in 1..Len(a.nbr) |-> IF pm[a.nbr[j]] > k THEN <<IF what = "ord" THEN a.ord[j] - 1 ELSE <<a.num, a.nbr[j], a.bst[j]>> >> ELSE <<>>], 1)], 1))
RECURSIVE Bits3(_, _)
Bits3(q, k) == IF k > Len(q) THEN <<>> ELSE <<(q[k] \div 4) % 2, (q[k] \div 2) % 2, q[k] % 2>> \o Bits3(q, k + 1)
RECURSIVE ToBytes(_, _)
ToBytes(b, k) == IF k > Len(b) THEN <<>>
                 ELSE LET g(j) == IF k + j <= Len(b) THEN b[k + j] ELSE 0
                      IN <<g(0)*128 + g(1)*64 + g(2)*32 + g(3)*16 + g(4)*8 + g(5)*4 + g(6)*2 + g(7)>> \o ToBytes(b, k + 8)
Orders(m) == ToBytes(Bits3(FirstEnds(m, "ord"), 1), 1)
NCt(m) == LET fe == FirstEnds(m, "bst") IN Cardinality({k \in 1..Len(fe) : fe[k][3] # 0})
EncodeNoCT(m) == TLCEval(Header(m, NCt(m)) \o Flat([k \in 1..Len(m.atoms) |-> AtomRec(m.atoms[k])], 1) \o Pairs12(Conn(m), 1) \o Orders(m))
Prefix(a, b) == Len(a) <= Len(b) /\ SubSeq(b, 1, Len(a)) = a
Ok(r) == LET e == EncodeNoCT(r)
             nct == TLCEval(NCt(r)) IN
         /\ r.bytes = r.shipped
         /\ Prefix(e, r.bytes)
         /\ Len(r.bytes) = Len(e) + 4 * nct
Init == c \in 0..(CH-1) /\ i = c + 1
Next == i + CH <= N /\ i' = i + CH /\ c' = c
Inv == i <= N => Ok(R[i])
=============================================================================
