import csv, json
import chython
from chython import smiles
from chython.periodictable import Element
els={x.atomic_number.fget(None):x for x in Element.__subclasses__()}
sym2z={x.__name__:z for z,x in els.items()}
tables=[]
for z in range(1,119):
    e=els[z]()
    tables.append({"common":list(e._common_valences),"exc":[[c,1 if r else 0,h,[[b,sym2z[s]] for b,s in env]] for c,r,h,env in e._valences_exceptions]})
json.dump(tables,open('tables.json','w'))
rows=[r[2] for r in list(csv.reader(open('/repo/pach/lipophilicity.csv')))[1:]]
atoms=[]; seen=set()
extra=['C[N+](C)(C)C','OP(O)(=O)O','CS(=O)(=O)O','[O-][Cl+3]([O-])([O-])O','F[P-](F)(F)(F)(F)F','[Fe+2]','[CH3]','C[S+](C)C','O=[N+]([O-])C','[SiH4]','CB(O)O','[Na+].[Cl-]','N#[N+][N-]C','[C-]#[O+]','C=[N+]=[N-]','OS(=O)O','O=S=O','ClI(Cl)Cl','[AlH3]','[Mg+2]','C[Mg]Br','[Cu]','c1ccccc1','[H][H]','[2H]O[2H]','OO','[O][O]','[NH4+]','[OH3+]','[BH4-]','P','S','[PH5]','FS(F)(F)(F)(F)F']
for s in rows[:1500]+extra:
    try:
        m=smiles(s); m.kekule()
    except Exception: continue
    for n,a in m.atoms():
        m.calc_implicit(n)
        env=sorted([b.order,m.atom(k).atomic_number] for k,b in m._bonds[n].items())
        key=(a.atomic_number,a.charge,a.is_radical,json.dumps(env))
        if key in seen: continue
        seen.add(key)
        atoms.append({"z":a.atomic_number,"c":a.charge,"r":1 if a.is_radical else 0,"env":env,"h":-1 if a.implicit_hydrogens is None else a.implicit_hydrogens})
json.dump(atoms,open('atoms.json','w')); print(len(atoms))
