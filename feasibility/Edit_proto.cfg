\* intended design: expected result = only the "delete inside a transaction of a pending atom" counterexample
CONSTANTS MaxAtom = 3
 FlushOnDelete = TRUE
 FlushOnCommit = TRUE
 ResetChangedOnAbort = TRUE
SPECIFICATION Spec
INVARIANT CacheCoherent
INVARIANT HydrogensFresh
INVARIANT StaysUsable
