import sys, csv, json
import chython
from chython import smiles
rows = list(csv.reader(open('/repo/pach/lipophilicity.csv')))[1:]
out=[]
for r in rows[:300]:
    m=smiles(r[2])
    idx={n:i+1 for i,n in enumerate(m)}
    atoms=[{"z":a.atomic_number,"c":a.charge,"h":a.implicit_hydrogens if a.implicit_hydrogens is not None else -1} for n,a in m.atoms()]
    bonds=[[idx[n],idx[k],b.order] for n,k,b in m.bonds()]
    rings=[[idx[x] for x in ring] for ring in m.sssr]
    out.append({"atoms":atoms,"bonds":bonds,"rings":rings,"rc":m.rings_count,"ncomp":m.connected_components_count})
json.dump(out, open('mols.json','w'))
print(len(out), max(len(x['atoms']) for x in out))
