---- MODULE TraceRT_proto ----
EXTENDS SmilesLang_proto, Json
R == JsonDeserialize("smi.json")
VARIABLE c, i, pos, ps
CH == 64
N == Len(R)
BondSet(s) == { <<IF s.bonds[k][1] < s.bonds[k][2] THEN s.bonds[k][1] ELSE s.bonds[k][2],
                  IF s.bonds[k][1] < s.bonds[k][2] THEN s.bonds[k][2] ELSE s.bonds[k][1], s.bonds[k][3]>> : k \in 1..Len(s.bonds) }
ObsBonds(r) == { <<r.bonds[k][1], r.bonds[k][2], r.bonds[k][3]>> : k \in 1..Len(r.bonds) }
Verdict(r, s0) == LET s == Finish(s0) IN
   {"reject" : x \in {1} \cap (IF s.st = "ok" THEN {} ELSE {1})} \cup
   (IF s.st # "ok" THEN {} ELSE
    {"natoms" : x \in {1} \cap (IF Len(s.atoms) = Len(r.atoms) THEN {} ELSE {1})} \cup
    (IF Len(s.atoms) # Len(r.atoms) THEN {} ELSE
      {"atom" : k \in {k \in 1..Len(r.atoms) : ~(s.atoms[k].z = r.atoms[k].z /\ s.atoms[k].chg = r.atoms[k].c /\ s.atoms[k].iso = r.atoms[k].i)}} \cup
      {"bonds" : x \in {1} \cap (IF BondSet(s) = ObsBonds(r) THEN {} ELSE {1})} \cup
      (IF BondSet(s) # ObsBonds(r) THEN {} ELSE
        {"parity" : k \in {k \in 1..Len(r.atoms) : r.atoms[k].p # 2 /\ TetParity(s, k) # r.atoms[k].p}} \cup
        {"lost-parity" : k \in {k \in 1..Len(r.atoms) : r.atoms[k].p = 2 /\ TetParity(s, k) # 2}} \cup
        {"cistrans" : k \in {k \in 1..Len(r.ct) : ~(CisDefined(s, r.ct[k][1], r.ct[k][2]) /\ (Cis(s, r.ct[k][1], r.ct[k][2], r.ct[k][3], r.ct[k][4]) = (r.ct[k][5] = 1)))}})))
Init == c \in 0..(CH-1) /\ i = c + 1 /\ pos = 1 /\ ps = Init0
Next == \/ /\ i <= N /\ pos <= Len(R[i].s)
           /\ ps' = Step(ps, R[i].s[pos]) /\ pos' = pos + 1 /\ UNCHANGED <<c, i>>
        \/ /\ i <= N /\ pos > Len(R[i].s) /\ i + CH <= N
           /\ i' = i + CH /\ pos' = 1 /\ ps' = Init0 /\ c' = c
Report == ~(i <= N /\ pos > Len(R[i].s)) \/ Verdict(R[i], ps) = {} \/ PrintT(<<"VERDICT", i, Verdict(R[i], ps)>>)
====
