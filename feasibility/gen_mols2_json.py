import sys, csv, json
import chython
from chython import smiles
rows = list(csv.reader(open('/repo/pach/lipophilicity.csv')))[1:]
out=[]
for r in rows[:300]:
    m=smiles(r[2])
    idx={n:i+1 for i,n in enumerate(m)}
    atoms=[{"z":a.atomic_number,"c":a.charge,"h":a.implicit_hydrogens if a.implicit_hydrogens is not None else -1} for n,a in m.atoms()]
    bonds=[[idx[n],idx[k],b.order] for n,k,b in m.bonds()]
    # python reference WL class count
    col={i+1:(a["z"],a["c"],a["h"]) for i,a in enumerate(atoms)}
    nb={i:[] for i in col}
    for a,b,o in bonds: nb[a].append((b,o)); nb[b].append((a,o))
    def comp(c):
        ks=sorted(set(c.values()),key=repr); d={k:i for i,k in enumerate(ks)}; return {n:d[v] for n,v in c.items()}
    col=comp(col)
    while True:
        new=comp({n:(col[n],tuple(sorted((col[k],o) for k,o in nb[n]))) for n in col})
        if len(set(new.values()))==len(set(col.values())): break
        col=new
    out.append({"atoms":atoms,"bonds":bonds,"ncls":len(set(col.values()))})
json.dump(out, open('mols2.json','w'))
