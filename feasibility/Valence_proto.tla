---------------------------- MODULE Valence_proto ----------------------------
EXTENDS Naturals, Integers, Sequences, FiniteSets, TLC, Json
T == JsonDeserialize("tables.json")
A == JsonDeserialize("atoms.json")
VARIABLE c, i
CH == 64
N == Len(A)
RECURSIVE Flat(_, _)
Flat(ss, k) == IF k > Len(ss) THEN <<>> ELSE ss[k] \o Flat(ss, k + 1)
Bag(env) == LET keys == { <<env[k][1], env[k][2]>> : k \in 1..Len(env) }
            IN [q \in keys |-> Cardinality({k \in 1..Len(env) : <<env[k][1], env[k][2]>> = q})]
RECURSIVE SumOrd(_, _)
SumOrd(env, k) == IF k > Len(env) THEN 0 ELSE env[k][1] + SumOrd(env, k + 1)
Rule(ch, r, v, bag, h) == [c |-> ch, r |-> r, v |-> v, bag |-> bag, h |-> h]
Empty == Bag(<<>>)
\* documented compilation order: first common valence with 0..v hydrogens, other common valences, then the exceptions in order
Compile(z) ==
  LET t == T[z]
      cv == t.common
      first == IF cv[1] # 0 /\ z # 1
               THEN [k \in 1..(cv[1] + 1) |-> Rule(0, 0, cv[1] - (k - 1), Empty, k - 1)] \o [k \in 1..(Len(cv) - 1) |-> Rule(0, 0, cv[k + 1], Empty, 0)]
               ELSE [k \in 1..Len(cv) |-> Rule(0, 0, cv[k], Empty, 0)]
      ex(e) == LET expl == SumOrd(e[4], 1)
                   bag == Bag(e[4])
               IN IF e[3] # 0 THEN [k \in 1..(e[3] + 1) |-> Rule(e[1], e[2], expl + e[3] - (k - 1), bag, k - 1)]
                  ELSE <<Rule(e[1], e[2], expl, bag, 0)>>
  IN TLCEval(first \o Flat([k \in 1..Len(t.exc) |-> ex(t.exc[k])], 1))
Matches(rule, a, s, bag) == /\ rule.c = a.c /\ rule.r = a.r /\ rule.v = s
                            /\ \A q \in DOMAIN rule.bag : q \in DOMAIN bag /\ bag[q] >= rule.bag[q]
ImplicitH(a) ==
  IF a.z = 1 THEN 0
  ELSE LET env == SelectSeq(a.env, LAMBDA b : b[1] # 8)
           s == SumOrd(env, 1)
           bag == Bag(env)
           rules == Compile(a.z)
           hits == {k \in 1..Len(rules) : Matches(rules[k], a, s, bag)}
       IN IF hits = {} THEN -1 ELSE rules[CHOOSE k \in hits : \A j \in hits : k <= j].h
Init == c \in 0..(CH-1) /\ i = c + 1
Next == i + CH <= N /\ i' = i + CH /\ c' = c
Inv == i <= N => ImplicitH(A[i]) = A[i].h
=============================================================================
