------------------------------- MODULE Edit_proto -------------------------------
EXTENDS Naturals, Integers, FiniteSets, Sequences, TLC
CONSTANTS MaxAtom, FlushOnDelete, FlushOnCommit, ResetChangedOnAbort, DiscardOnDelete, RecalcAllOnCommit
Nums == 1..MaxAtom
NoTx == [open |-> FALSE, atoms |-> {}, chg |-> <<>>, bonds |-> <<>>, hfresh |-> {}, cache |-> <<>>]
Pairs == { p \in SUBSET Nums : Cardinality(p) = 2 }
Orders == {1, 2, 8}
Views == {"rings", "comps", "full"}
VARIABLES atoms,   \* set of atom numbers
          chg,     \* [atoms -> -1..1]
          bonds,   \* [subset of Pairs -> Orders]
          hfresh,  \* set of atoms whose stored H count is up to date
          cache,   \* [subset of Views -> footprint at the time of computation]
          changed, \* pending set
          tx,      \* FALSE or backup record
          usable   \* FALSE once an operation crashed with an unrelated exception
vars == <<atoms, chg, bonds, hfresh, cache, changed, tx, usable>>

NS(b) == [p \in {q \in DOMAIN b : b[q] # 8} |-> 1]            \* not-special connectivity
Foot(v, a, c, b) == CASE v = "rings" -> <<a, DOMAIN NS(b)>>
                      [] v = "comps" -> <<a, DOMAIN b>>
                      [] v = "full"  -> <<a, c, b>>
Fresh(v) == Foot(v, atoms, chg, bonds)

Flush(keepR, keepC) == [v \in {w \in DOMAIN cache : (w = "rings" /\ keepR) \/ (w = "comps" /\ keepC)} |-> cache[v]]

InTx == tx.open
\* fix_structure: recompute H of changed atoms (or all), clear pending; crashes if a pending atom vanished
FixOK == changed \subseteq atoms
AfterMut(newatoms, newchg, newbonds, newchanged, flushed) ==
   /\ atoms' = newatoms /\ chg' = newchg /\ bonds' = newbonds
   /\ cache' = flushed
   /\ IF InTx THEN /\ changed' = newchanged /\ hfresh' = (hfresh \cap newatoms) \ newchanged /\ usable' = usable
      ELSE IF newchanged \subseteq newatoms
           THEN /\ changed' = {} /\ hfresh' = (hfresh \cap newatoms) \cup newchanged /\ usable' = usable
           ELSE /\ changed' = newchanged /\ hfresh' = hfresh \cap newatoms /\ usable' = FALSE   \* KeyError
   /\ UNCHANGED tx

AddAtom(n) == /\ usable /\ n \notin atoms
              /\ AfterMut(atoms \cup {n}, [x \in atoms \cup {n} |-> IF x = n THEN 0 ELSE chg[x]], bonds, changed \cup {n}, <<>>)
AddBond(p, o) == /\ usable /\ p \subseteq atoms /\ p \notin DOMAIN bonds
                 /\ AfterMut(atoms, chg, [q \in DOMAIN bonds \cup {p} |-> IF q = p THEN o ELSE bonds[q]],
                             IF o = 8 THEN changed ELSE changed \cup p, <<>>)
DelBond(p) == /\ usable /\ p \in DOMAIN bonds
              /\ AfterMut(atoms, chg, [q \in DOMAIN bonds \ {p} |-> bonds[q]],
                          IF bonds[p] = 8 THEN changed ELSE changed \cup p,
                          IF FlushOnDelete THEN <<>> ELSE cache)
DelAtom(n) == /\ usable /\ n \in atoms
              /\ LET nb == {q \in DOMAIN bonds : n \notin q}
                     touched == UNION {q \ {n} : q \in {r \in DOMAIN bonds : n \in r /\ bonds[r] # 8}}
                 IN AfterMut(atoms \ {n}, [x \in atoms \ {n} |-> chg[x]], [q \in nb |-> bonds[q]],
                             IF DiscardOnDelete THEN (changed \cup touched) \ {n} ELSE changed \cup touched,
                             IF FlushOnDelete THEN <<>> ELSE cache)
Read(v) == /\ usable /\ ~InTx /\ v \notin DOMAIN cache
           /\ cache' = [w \in DOMAIN cache \cup {v} |-> IF w = v THEN Fresh(v) ELSE cache[w]]
           /\ UNCHANGED <<atoms, chg, bonds, hfresh, changed, tx, usable>>
Begin == /\ usable /\ ~InTx
         /\ tx' = [open |-> TRUE, atoms |-> atoms, chg |-> chg, bonds |-> bonds, hfresh |-> hfresh, cache |-> Flush(TRUE, TRUE)]
         /\ UNCHANGED <<atoms, chg, bonds, hfresh, cache, changed, usable>>
SetCharge(n, c) == /\ usable /\ InTx /\ n \in atoms /\ chg[n] # c
                   /\ chg' = [chg EXCEPT ![n] = c] /\ hfresh' = hfresh \ {n}
                   /\ UNCHANGED <<atoms, bonds, cache, changed, tx, usable>>
Commit == /\ usable /\ InTx
          /\ tx' = NoTx
          /\ cache' = IF FlushOnCommit THEN Flush(TRUE, TRUE) ELSE cache
          /\ IF changed \subseteq atoms
             THEN /\ hfresh' = (IF changed = {} \/ RecalcAllOnCommit THEN atoms ELSE hfresh \cup changed) /\ changed' = {} /\ usable' = usable
             ELSE /\ hfresh' = hfresh /\ changed' = changed /\ usable' = FALSE
          /\ UNCHANGED <<atoms, chg, bonds>>
Abort == /\ usable /\ InTx
         /\ atoms' = tx.atoms /\ chg' = tx.chg /\ bonds' = tx.bonds /\ hfresh' = tx.hfresh /\ cache' = tx.cache
         /\ changed' = IF ResetChangedOnAbort THEN {} ELSE changed
         /\ tx' = NoTx /\ UNCHANGED usable

Init == /\ atoms = {} /\ chg = <<>> /\ bonds = <<>> /\ hfresh = {} /\ cache = <<>> /\ changed = {} /\ tx = NoTx /\ usable = TRUE
Next == \/ \E n \in Nums : AddAtom(n) \/ DelAtom(n)
        \/ \E p \in Pairs : DelBond(p) \/ \E o \in Orders : AddBond(p, o)
        \/ \E v \in Views : Read(v)
        \/ Begin \/ Commit \/ Abort
        \/ \E n \in Nums, c \in {-1, 0, 1} : SetCharge(n, c)
Spec == Init /\ [][Next]_vars

CacheCoherent == ~InTx => \A v \in DOMAIN cache : cache[v] = Fresh(v)
HydrogensFresh == (~InTx /\ usable) => hfresh = atoms
StaysUsable == usable
=============================================================================
