\* the tree as found: TLC must FAIL (stale cache after delete)
CONSTANTS MaxAtom = 3
 FlushOnDelete = FALSE
 FlushOnCommit = FALSE
 ResetChangedOnAbort = FALSE
 DiscardOnDelete = FALSE
 RecalcAllOnCommit = FALSE
SPECIFICATION Spec
INVARIANT CacheCoherent
INVARIANT HydrogensFresh
INVARIANT StaysUsable
