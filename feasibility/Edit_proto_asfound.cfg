\* the tree as found (delete_* do not flush, commit does not flush, abort keeps the pending set): TLC must FAIL
CONSTANTS MaxAtom = 3
 FlushOnDelete = FALSE
 FlushOnCommit = FALSE
 ResetChangedOnAbort = FALSE
SPECIFICATION Spec
INVARIANT CacheCoherent
INVARIANT HydrogensFresh
INVARIANT StaysUsable
