---- MODULE TraceSmi_proto ----
EXTENDS SmilesLang_proto, Json
R == JsonDeserialize("smi.json")
VARIABLE c, i, pos, ps
CH == 64
N == Len(R)
BondSet(s) == { <<IF s.bonds[k][1] < s.bonds[k][2] THEN s.bonds[k][1] ELSE s.bonds[k][2],
                  IF s.bonds[k][1] < s.bonds[k][2] THEN s.bonds[k][2] ELSE s.bonds[k][1], s.bonds[k][3]>> : k \in 1..Len(s.bonds) }
ObsBonds(r) == { <<r.bonds[k][1], r.bonds[k][2], r.bonds[k][3]>> : k \in 1..Len(r.bonds) }
Agree(r, s0) == LET s == Finish(s0) IN
   IF r.ok THEN /\ s.st = "ok"
                /\ Len(s.atoms) = Len(r.atoms)
                /\ \A k \in 1..Len(r.atoms) : s.atoms[k].z = r.atoms[k].z /\ s.atoms[k].chg = r.atoms[k].c /\ s.atoms[k].iso = r.atoms[k].i
                /\ BondSet(s) = ObsBonds(r)
                /\ \A k \in 1..Len(r.atoms) : r.atoms[k].p = 2 \/ TetParity(s, k) = r.atoms[k].p
                /\ \A k \in 1..Len(r.ct) : LET q == r.ct[k] IN CisDefined(s, q[1], q[2]) /\ (Cis(s, q[1], q[2], q[3], q[4]) = (q[5] = 1))
   ELSE s.st = "reject"
Init == c \in 0..(CH-1) /\ i = c + 1 /\ pos = 1 /\ ps = Init0
Next == \/ /\ i <= N /\ pos <= Len(R[i].s)
           /\ ps' = Step(ps, R[i].s[pos]) /\ pos' = pos + 1 /\ UNCHANGED <<c, i>>
        \/ /\ i <= N /\ pos > Len(R[i].s) /\ i + CH <= N
           /\ i' = i + CH /\ pos' = 1 /\ ps' = Init0 /\ c' = c
Inv == (i <= N /\ pos > Len(R[i].s)) => Agree(R[i], ps)
====
