import itertools, json, sys
import chython
from chython import smiles
alph=list("CNOcnlBr()[]=#1.")
out=[]; foreign=[]
def par(m,n,idx): return 2
for L in range(1,5):
    for t in itertools.product(alph, repeat=L):
        s=''.join(t)
        try:
            m=smiles(s)
        except ValueError:
            out.append({"s":list(s),"ok":False}); continue
        except Exception as e:
            foreign.append((s,type(e).__name__)); out.append({"s":list(s),"ok":False}); continue
        idx={n:i+1 for i,n in enumerate(m)}
        out.append({"s":list(s),"ok":True,"atoms":[{"z":a.atomic_number,"c":a.charge,"i":a.isotope or 0,"p":2} for n,a in m.atoms()],"ct":[],
                    "bonds":[[min(idx[n],idx[k]),max(idx[n],idx[k]),b.order] for n,k,b in m.bonds()]})
json.dump(out,open('smi.json','w'))
print(len(out), sum(1 for x in out if x['ok']), 'accepted;', len(foreign), 'foreign exceptions', foreign[:10])
