---- MODULE TraceShort_proto ----
EXTENDS SmilesLang_proto, Json
R == JsonDeserialize("smi.json")
VARIABLE c, i
CH == 64
N == Len(R)
BondSet(s) == { <<IF s.bonds[k][1] < s.bonds[k][2] THEN s.bonds[k][1] ELSE s.bonds[k][2],
                  IF s.bonds[k][1] < s.bonds[k][2] THEN s.bonds[k][2] ELSE s.bonds[k][1], s.bonds[k][3]>> : k \in 1..Len(s.bonds) }
ObsBonds(r) == { <<r.bonds[k][1], r.bonds[k][2], r.bonds[k][3]>> : k \in 1..Len(r.bonds) }
Verdict(r) == LET s == Read(r.s) IN
   IF r.ok /\ s.st = "reject" THEN "code-accepts-spec-rejects"
   ELSE IF ~r.ok /\ s.st = "ok" THEN "code-rejects-spec-accepts"
   ELSE IF r.ok /\ ~(/\ Len(s.atoms) = Len(r.atoms)
                     /\ \A k \in 1..Len(r.atoms) : s.atoms[k].z = r.atoms[k].z /\ s.atoms[k].chg = r.atoms[k].c
                     /\ BondSet(s) = ObsBonds(r)) THEN "graph-differs"
   ELSE "ok"
Init == c \in 0..(CH-1) /\ i = c + 1
Next == i + CH <= N /\ i' = i + CH /\ c' = c
Report == i > N \/ Verdict(R[i]) = "ok" \/ PrintT(<<"VERDICT", i, Verdict(R[i])>>)
====
