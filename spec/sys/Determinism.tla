-------------------------------- MODULE Determinism --------------------------------
(* C19: an observation is a function of (input, view) alone.
   record: [input, view, obs : sequence of [proc (hash seed / interpreter / call / copy identification), val (the observed value)]]
   Processes run in fresh interpreters with different PYTHONHASHSEED values; per process the value is read on the first
   (uncached) call, on a second (cached) call and on a copy of the molecule.  No order between processes is assumed. *)
EXTENDS Naturals, Sequences, FiniteSets, TLC, Json
CONSTANT CH
R == JsonDeserialize("data.json")
N == Len(R)
VARIABLES c, i
vars == <<c, i>>
Values(r) == { r.obs[k].val : k \in 1..Len(r.obs) }
Verdict(r) == IF Cardinality(Values(r)) > 1 THEN {"observation-depends-on-process-or-call:" \o r.view} ELSE {}
Init == c \in 0..(CH-1) /\ i = c + 1
Next == i + CH <= N /\ i' = i + CH /\ c' = c
Report == i > N \/ Verdict(R[i]) = {} \/ PrintT(<<"VERDICT", i, Verdict(R[i])>>)
=============================================================================
