------------------------------ MODULE ReactorQueue2 ------------------------------
(* The multi-stage mode of Reactor for templates with TWO patterns and one product (reactor.py, the `else` branch of the
   work-list: "one of products molecule combined with previously chosen").

   An entry of the queue is [ch (the ordered pair of molecules the two patterns are matched on), rest (the other molecules
   of the mixture), d].  Handling a result `new` of the single-stage relation step2[ch]: the mixture <<new>> \o rest is
   reported unless it was reported before; if the depth allows, every molecule of the mixture is paired - in both orders -
   with each molecule of the pair that was just used (the reactants stay available: oligomerisation), and queued.

   What is reported is keyed by the mixture alone, although what can happen next also depends on the pair that was used:
   whether the set of reported mixtures is a function of the input (and not of the order in which the matcher delivers its
   results, or of the order of the reactants) is the question this module puts to TLC (OrderFree). *)
EXTENDS Naturals, Sequences, FiniteSets, SequencesExt, TLC

Sorted(s) == SortSeq(s, LAMBDA a, b : a < b)
CONSTANTS Mols, MaxLimit,
          Growth     \* only relations whose products are larger than both reactants (the identifiers are ordered by size)
VARIABLES rel, start, limit, queue, seen, cur, out
vars == <<rel, start, limit, queue, seen, cur, out>>
None == [on |-> FALSE]
Pairs == Mols \X Mols

\* entries that follow from reporting the mixture prod after the pair ch was used
Follow(prod, ch, d) ==
  LET one(k, c) == << [ch |-> <<prod[k], c>>, rest |-> Sorted(RemoveAt(prod, k)), d |-> d],
                      [ch |-> <<c, prod[k]>>, rest |-> Sorted(RemoveAt(prod, k)), d |-> d] >>
      RECURSIVE overK(_)
      overK(k) == IF k > Len(prod) THEN <<>> ELSE one(k, ch[1]) \o one(k, ch[2]) \o overK(k + 1)
  IN overK(1)

Max2(p) == IF p[1] > p[2] THEN p[1] ELSE p[2]
\* the single-stage relation as a set of triples <<a, b, n>>: the template makes n of the ordered pair <<a, b>>
Triples == { t \in Mols \X Mols \X Mols : Growth => t[3] > Max2(<<t[1], t[2]>>) }
step2 == [p \in Pairs |-> { n \in Mols : <<p[1], p[2], n>> \in rel }]
Init == /\ rel \in SUBSET Triples
        /\ start \in [1..2 -> Mols]
        /\ limit \in 1..MaxLimit
        /\ queue = << [ch |-> <<start[1], start[2]>>, rest |-> <<>>, d |-> 0], [ch |-> <<start[2], start[1]>>, rest |-> <<>>, d |-> 0] >>
        /\ seen = {} /\ cur = None /\ out = <<>>
Pop == /\ ~cur.on /\ queue # <<>>
       /\ cur' = [on |-> TRUE, ch |-> Head(queue).ch, rest |-> Head(queue).rest, d |-> Head(queue).d + 1, todo |-> step2[Head(queue).ch]]
       /\ queue' = Tail(queue) /\ UNCHANGED <<rel, start, limit, seen, out>>
Handle == /\ cur.on /\ cur.todo # {}
          /\ \E new \in cur.todo :
               LET prod == <<new>> \o cur.rest
                   mix == Sorted(prod) IN
               /\ cur' = [cur EXCEPT !.todo = @ \ {new}]
               /\ IF mix \in seen THEN UNCHANGED <<queue, seen, out>>
                  ELSE /\ seen' = seen \cup {mix}
                       /\ out' = Append(out, [mix |-> mix, d |-> cur.d])
                       /\ queue' = IF cur.d < limit THEN queue \o Follow(prod, cur.ch, cur.d) ELSE queue
          /\ UNCHANGED <<rel, start, limit>>
Finish == cur.on /\ cur.todo = {} /\ cur' = None /\ UNCHANGED <<rel, start, limit, queue, seen, out>>
Next == Pop \/ Handle \/ Finish
Spec == Init /\ [][Next]_vars /\ WF_vars(Next)

Done == ~cur.on /\ queue = <<>>
Mixes == { out[k].mix : k \in 1..Len(out) }
NoDuplicates == \A a, b \in 1..Len(out) : a # b => out[a].mix # out[b].mix

\* the declarative reading: states are (mixture, pair last used); everything reachable within `limit` applications
EntrySet(prod, ch) == { [ch |-> <<prod[k], c>>, rest |-> Sorted(RemoveAt(prod, k))] : k \in 1..Len(prod), c \in {ch[1], ch[2]} }
                      \cup { [ch |-> <<c, prod[k]>>, rest |-> Sorted(RemoveAt(prod, k))] : k \in 1..Len(prod), c \in {ch[1], ch[2]} }
RECURSIVE Entries(_)
Entries(k) == IF k = 0 THEN { [ch |-> <<start[1], start[2]>>, rest |-> <<>>], [ch |-> <<start[2], start[1]>>, rest |-> <<>>] }
              ELSE UNION { UNION { EntrySet(<<new>> \o e.rest, e.ch) : new \in step2[e.ch] } : e \in Entries(k - 1) }
Reported(k) == UNION { { Sorted(<<new>> \o e.rest) : new \in step2[e.ch] } : e \in Entries(k - 1) }
Within == UNION { Reported(k) : k \in 1..limit }
Sound == Mixes \subseteq Within
\* the question: is everything that the declarative reading reaches reported, whatever order the results came in ?
OrderFree == Done => Mixes = Within
Terminates == <>Done
=============================================================================
