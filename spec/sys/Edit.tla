---------------------------------- MODULE Edit ----------------------------------
(* MoleculeContainer as a state machine (C13): edits, derived-view cache, hydrogen bookkeeping, transactions, copies.

   One record per object:
     live     the object exists
     ord      atom numbers in insertion order (the iteration order of the molecule; observable)
     el, chg, rad   per-atom element / charge / radical flag
     x        per-atom x coordinate (an attribute no derived view depends on; it makes sharing between copies observable)
     nbr      per atom: neighbour numbers in insertion order (observable: drives stereo signs and the pack layout)
     bo       bond order per unordered pair
     hfresh   atoms whose *stored* hydrogen count equals the recomputed one
     cache    derived views currently memoised  |->  the footprint of the structure they were computed from
     changed  pending set (atoms whose hydrogens still have to be recomputed)
     tx       transaction snapshot
     usable   FALSE once a public call raised an unrelated exception

   Every public mutator is an operator  Do<Op>(o, args)  on one object record, wrapped into an action over `objs`.
   The same operators are used by the bounded model (MC_Edit) and by trace validation (Trace_Edit), where the arguments
   come from recorded calls of the real code.

   The CONSTANTS describe design decisions.  TRUE everywhere is the intended design (and, after the "fix:" commits recorded
   in known_findings.json, the behaviour of the tree); the as-found values are used as a sensitivity self-test: with them
   TLC must find the stale cache / the crash at commit / the stale hydrogen count. *)
EXTENDS Naturals, Integers, FiniteSets, Sequences, TLC
CONSTANTS MaxAtom,              \* atom numbers 1..MaxAtom
          Objs,                 \* object identifiers
          FlushOnDelete,        \* delete_atom / delete_bond drop the memoised views
          FlushOnCommit,        \* leaving a transaction normally drops every view except ring / component data
          ResetChangedOnAbort,  \* a failed transaction also restores the pending set
          DiscardOnDelete,      \* deleting an atom removes it from the pending set
          RecalcAllOnCommit,    \* commit recomputes the hydrogens of every atom (charges may have changed anywhere)
          InitSlotsOnCopy,      \* copy / substructure / union results have their own (empty) pending set and no snapshot
          RestoreCacheOnAbort,  \* a failed transaction takes the snapshot's memoised views back (ring / component views read
                                \*   inside the block describe the abandoned structure)
          FullFlushOnSpecialDelete, \* deleting a coordinate (order 8) bond drops every view, components included
          PackMemoised          \* the binary form is memoised like the other views (it is not: coordinates change without a flush)

Nums == 1..MaxAtom
Elems == {6, 7, 8}
Orders == {1, 2, 8}
Charges == {-1, 0, 1}
Views == {"rings", "comps", "full", "pack"}
Pairs == { p \in SUBSET Nums : Cardinality(p) = 2 }

VARIABLE objs
vars == <<objs>>

Range(s) == { s[k] : k \in 1..Len(s) }
Atoms(o) == Range(o.ord)
RemoveFromSeq(s, x) == SelectSeq(s, LAMBDA y : y # x)
Restrict(f, S) == TLCEval([x \in S |-> f[x]])    \* TLCEval: identity; forces TLC to build the function once
Max(S) == CHOOSE m \in S : \A x \in S : x <= m

NoTx == [open |-> FALSE]
Empty == [live |-> TRUE, ord |-> <<>>, el |-> <<>>, chg |-> <<>>, rad |-> <<>>, x |-> <<>>, nbr |-> <<>>, bo |-> <<>>,
          hfresh |-> {}, cache |-> <<>>, changed |-> {}, tx |-> NoTx, usable |-> TRUE]
Dead == [Empty EXCEPT !.live = FALSE]

(* ---- footprints: what each class of derived view depends on ---- *)
NotSpecial(o) == { p \in DOMAIN o.bo : o.bo[p] # 8 }
Foot(v, o) == CASE v = "rings" -> <<Atoms(o), NotSpecial(o)>>                   \* sssr, ring marks, ring counts
                [] v = "comps" -> <<Atoms(o), DOMAIN o.bo>>                      \* connected components
                [] v = "full"  -> <<o.ord, o.el, o.chg, o.rad, o.nbr, o.bo>>     \* canonical string, atom order, formula, ...
                [] v = "pack"  -> <<o.ord, o.el, o.chg, o.rad, o.x, o.nbr, o.bo>>  \* binary form: everything, coordinates included
Flushed(o, keepR, keepC) ==
  Restrict(o.cache, { w \in DOMAIN o.cache : (w = "rings" /\ keepR) \/ (w = "comps" /\ keepC) })

InTx(o) == o.tx.open
Ready(o) == o.live /\ o.usable

(* ---- the common tail of every structural mutator: flush, then fix_structure unless inside a transaction ---- *)
AfterMut(o, o1, newchanged, newcache) ==
  LET o2 == [o1 EXCEPT !.cache = newcache]
      live == Atoms(o1)
  IN IF InTx(o) THEN [o2 EXCEPT !.changed = newchanged, !.hfresh = (o.hfresh \cap live) \ newchanged]
     ELSE IF newchanged \subseteq live
          THEN [o2 EXCEPT !.changed = {}, !.hfresh = (o.hfresh \cap live) \cup newchanged]
          ELSE [o2 EXCEPT !.changed = newchanged, !.hfresh = o.hfresh \cap live, !.usable = FALSE]   \* KeyError in fix_structure

DoAddAtom(o, n, e) ==
  AfterMut(o, [o EXCEPT !.ord = Append(@, n),
                        !.el = TLCEval([x \in Atoms(o) \cup {n} |-> IF x = n THEN e ELSE o.el[x]]),
                        !.chg = TLCEval([x \in Atoms(o) \cup {n} |-> IF x = n THEN 0 ELSE o.chg[x]]),
                        !.rad = TLCEval([x \in Atoms(o) \cup {n} |-> IF x = n THEN FALSE ELSE o.rad[x]]),
                        !.x = TLCEval([y \in Atoms(o) \cup {n} |-> IF y = n THEN 0 ELSE o.x[y]]),
                        !.nbr = TLCEval([x \in Atoms(o) \cup {n} |-> IF x = n THEN <<>> ELSE o.nbr[x]])],
           o.changed \cup {n}, <<>>)
CanAddAtom(o, n) == Ready(o) /\ n \notin Atoms(o)

DoAddBond(o, a, b, k) ==
  AfterMut(o, [o EXCEPT !.nbr = [@ EXCEPT ![a] = Append(@, b), ![b] = Append(@, a)],
                        !.bo = TLCEval([q \in DOMAIN o.bo \cup {{a, b}} |-> IF q = {a, b} THEN k ELSE o.bo[q]])],
           IF k = 8 THEN o.changed ELSE o.changed \cup {a, b}, <<>>)
CanAddBond(o, a, b) == Ready(o) /\ a # b /\ {a, b} \subseteq Atoms(o) /\ {a, b} \notin DOMAIN o.bo

DoDelBond(o, a, b) ==
  AfterMut(o, [o EXCEPT !.nbr = [@ EXCEPT ![a] = RemoveFromSeq(@, b), ![b] = RemoveFromSeq(@, a)],
                        !.bo = Restrict(o.bo, DOMAIN o.bo \ {{a, b}})],
           IF o.bo[{a, b}] = 8 THEN o.changed ELSE o.changed \cup {a, b},
           IF ~FlushOnDelete THEN o.cache
           ELSE IF o.bo[{a, b}] = 8 /\ ~FullFlushOnSpecialDelete THEN Flushed(o, TRUE, TRUE) ELSE <<>>)
CanDelBond(o, a, b) == Ready(o) /\ {a, b} \in DOMAIN o.bo

DoDelAtom(o, n) ==
  LET rest == Atoms(o) \ {n}
      touched == { m \in rest : {n, m} \in DOMAIN o.bo /\ o.bo[{n, m}] # 8 }
  IN AfterMut(o, [o EXCEPT !.ord = RemoveFromSeq(@, n), !.el = Restrict(@, rest), !.chg = Restrict(@, rest),
                           !.rad = Restrict(@, rest), !.x = Restrict(@, rest),
                           !.nbr = TLCEval([x \in rest |-> RemoveFromSeq(o.nbr[x], n)]),
                           !.bo = Restrict(o.bo, { q \in DOMAIN o.bo : n \notin q })],
              IF DiscardOnDelete THEN (o.changed \cup touched) \ {n} ELSE o.changed \cup touched,
              IF FlushOnDelete THEN <<>> ELSE o.cache)
CanDelAtom(o, n) == Ready(o) /\ n \in Atoms(o)

\* remap: f is a partial map old -> new; result must stay injective
MapNum(f, n) == IF n \in DOMAIN f THEN f[n] ELSE n
DoRemap(o, f) ==
  LET g(n) == MapNum(f, n)
      A2 == { g(n) : n \in Atoms(o) }
      inv(m) == CHOOSE n \in Atoms(o) : g(n) = m
  IN [o EXCEPT !.ord = TLCEval([k \in 1..Len(o.ord) |-> g(o.ord[k])]),
               !.el = TLCEval([m \in A2 |-> o.el[inv(m)]]), !.chg = TLCEval([m \in A2 |-> o.chg[inv(m)]]),
               !.rad = TLCEval([m \in A2 |-> o.rad[inv(m)]]), !.x = TLCEval([m \in A2 |-> o.x[inv(m)]]),
               !.nbr = TLCEval([m \in A2 |-> [k \in 1..Len(o.nbr[inv(m)]) |-> g(o.nbr[inv(m)][k])]]),
               !.bo = TLCEval([q \in { {g(x) : x \in p} : p \in DOMAIN o.bo } |-> o.bo[{inv(m) : m \in q}]]),
               !.hfresh = { g(n) : n \in o.hfresh }, !.changed = { g(n) : n \in o.changed },
               !.cache = <<>>]
CanRemap(o, f) == /\ Ready(o) /\ DOMAIN f \subseteq Nums
                  /\ Cardinality({ MapNum(f, n) : n \in Atoms(o) }) = Cardinality(Atoms(o))
                  /\ Cardinality({ f[n] : n \in DOMAIN f }) = Cardinality(DOMAIN f)
                  /\ ((Atoms(o) \ DOMAIN f) \cap { f[n] : n \in DOMAIN f }) = {}

(* ---- reading a derived view: memoised, returns the cached footprint's value.  Ring and component views may also be read inside
        a transaction (every structural mutator drops them at once, also there); the views that depend on hydrogen counts and
        labels may not (those are recomputed at commit only) ---- *)
DoRead(o, v) == IF v \in DOMAIN o.cache \/ (v = "pack" /\ ~PackMemoised) THEN o
                ELSE [o EXCEPT !.cache = [w \in DOMAIN o.cache \cup {v} |-> IF w = v THEN Foot(v, o) ELSE o.cache[w]]]
ReadValue(o, v) == IF v \in DOMAIN o.cache THEN o.cache[v] ELSE Foot(v, o)
CanRead(o, v) == Ready(o) /\ (~InTx(o) \/ v \in {"rings", "comps"})

(* ---- transactions ---- *)
Snapshot(o) == [open |-> TRUE, ord |-> o.ord, el |-> o.el, chg |-> o.chg, rad |-> o.rad, x |-> o.x, nbr |-> o.nbr, bo |-> o.bo,
                hfresh |-> o.hfresh, cache |-> Flushed(o, TRUE, TRUE), changed |-> o.changed]
DoBegin(o) == [o EXCEPT !.tx = Snapshot(o)]
CanBegin(o) == Ready(o) /\ ~InTx(o)
DoSetCharge(o, n, c) == [o EXCEPT !.chg[n] = c, !.hfresh = @ \ {n}]
DoSetRadical(o, n, r) == [o EXCEPT !.rad[n] = r, !.hfresh = @ \ {n}]
\* moving an atom: allowed at any time, changes nothing but the coordinate of that atom of that object
DoMove(o, n) == [o EXCEPT !.x[n] = @ + 1]
CanMove(o, n) == Ready(o) /\ n \in Atoms(o)
CanSet(o, n) == Ready(o) /\ InTx(o) /\ n \in Atoms(o)
DoCommit(o) ==
  LET o1 == [o EXCEPT !.tx = NoTx, !.cache = IF FlushOnCommit THEN Flushed(o, TRUE, TRUE) ELSE o.cache]
  IN IF RecalcAllOnCommit THEN [o1 EXCEPT !.hfresh = Atoms(o), !.changed = {}]
     ELSE IF o.changed \subseteq Atoms(o)
          THEN [o1 EXCEPT !.hfresh = IF o.changed = {} THEN Atoms(o) ELSE o.hfresh \cup o.changed, !.changed = {}]
          ELSE [o EXCEPT !.usable = FALSE]                         \* KeyError inside __exit__: still in the transaction
DoAbort(o) ==
  [o EXCEPT !.ord = o.tx.ord, !.el = o.tx.el, !.chg = o.tx.chg, !.rad = o.tx.rad, !.x = o.tx.x, !.nbr = o.tx.nbr, !.bo = o.tx.bo,
            !.hfresh = o.tx.hfresh, !.cache = IF RestoreCacheOnAbort THEN o.tx.cache ELSE Flushed(o, TRUE, TRUE),
            !.changed = IF ResetChangedOnAbort THEN o.tx.changed ELSE o.changed,
            !.tx = NoTx]
CanEnd(o) == Ready(o) /\ InTx(o)

(* ---- new objects ---- *)
\* copy(): same order, attributes, stored hydrogens; an empty cache; own bookkeeping slots
DoCopy(o) == [o EXCEPT !.cache = <<>>, !.tx = NoTx, !.changed = {}, !.usable = InitSlotsOnCopy]
\* substructure(S): original order, hydrogens recomputed, bonds inside S
DoSub(o, S) ==
  [o EXCEPT !.ord = SelectSeq(o.ord, LAMBDA x : x \in S), !.el = Restrict(@, S), !.chg = Restrict(@, S), !.rad = Restrict(@, S),
            !.x = Restrict(@, S),
            !.nbr = TLCEval([x \in S |-> SelectSeq(o.nbr[x], LAMBDA y : y \in S)]),
            !.bo = Restrict(o.bo, { q \in DOMAIN o.bo : q \subseteq S }),
            !.hfresh = S, !.cache = <<>>, !.tx = NoTx, !.changed = {}, !.usable = InitSlotsOnCopy]
CanSub(o, S) == Ready(o) /\ ~InTx(o) /\ S # {} /\ S \subseteq Atoms(o)
\* union with a disjoint object (remap = FALSE) or with renumbering of the second from max(first)+1 in its own order
Shift(o, p) == [k \in 1..Len(p.ord) |-> Max(Atoms(o)) + k]
UnionMap(o, p) == IF Atoms(o) \cap Atoms(p) = {} THEN [n \in Atoms(p) |-> n]
                  ELSE [n \in Atoms(p) |-> Shift(o, p)[CHOOSE k \in 1..Len(p.ord) : p.ord[k] = n]]
DoUnion(o, p, inplace) ==
  LET p2 == TLCEval(DoRemap(p, UnionMap(o, p)))
      A == Atoms(o) \cup Atoms(p2)
      J(f, g) == TLCEval([x \in A |-> IF x \in Atoms(o) THEN f[x] ELSE g[x]])
      base == [o EXCEPT !.ord = o.ord \o p2.ord, !.el = J(o.el, p2.el), !.chg = J(o.chg, p2.chg), !.rad = J(o.rad, p2.rad), !.x = J(o.x, p2.x),
                        !.nbr = J(o.nbr, p2.nbr),
                        !.bo = TLCEval([q \in DOMAIN o.bo \cup DOMAIN p2.bo |-> IF q \in DOMAIN o.bo THEN o.bo[q] ELSE p2.bo[q]]),
                        !.hfresh = o.hfresh \cup p2.hfresh, !.cache = <<>>]
  IN IF inplace THEN base ELSE [base EXCEPT !.tx = NoTx, !.changed = {}, !.usable = InitSlotsOnCopy]
CanUnion(o, p) == /\ Ready(o) /\ Ready(p) /\ ~InTx(o) /\ ~InTx(p) /\ Atoms(o) # {} /\ Atoms(p) # {}
                  /\ (Atoms(o) \cap Atoms(p) = {} \/ Max(Atoms(o)) + Len(p.ord) <= MaxAtom)

(* ---- actions over the object table ---- *)
Upd(id, o2) == objs' = [objs EXCEPT ![id] = o2]
New(id, o2) == ~objs[id].live /\ objs' = [objs EXCEPT ![id] = o2]

AddAtom(id, n, e) == CanAddAtom(objs[id], n) /\ Upd(id, DoAddAtom(objs[id], n, e))
AddBond(id, a, b, k) == CanAddBond(objs[id], a, b) /\ Upd(id, DoAddBond(objs[id], a, b, k))
DelBond(id, a, b) == CanDelBond(objs[id], a, b) /\ Upd(id, DoDelBond(objs[id], a, b))
DelAtom(id, n) == CanDelAtom(objs[id], n) /\ Upd(id, DoDelAtom(objs[id], n))
Read(id, v) == CanRead(objs[id], v) /\ Upd(id, DoRead(objs[id], v))
Begin(id) == CanBegin(objs[id]) /\ Upd(id, DoBegin(objs[id]))
SetCharge(id, n, c) == CanSet(objs[id], n) /\ objs[id].chg[n] # c /\ Upd(id, DoSetCharge(objs[id], n, c))
SetRadical(id, n) == CanSet(objs[id], n) /\ Upd(id, DoSetRadical(objs[id], n, ~objs[id].rad[n]))
Move(id, n) == CanMove(objs[id], n) /\ objs[id].x[n] < 1 /\ Upd(id, DoMove(objs[id], n))
Commit(id) == CanEnd(objs[id]) /\ Upd(id, DoCommit(objs[id]))
Abort(id) == CanEnd(objs[id]) /\ Upd(id, DoAbort(objs[id]))
Swap(id, a, b) == /\ {a, b} \subseteq Atoms(objs[id]) /\ a < b /\ Ready(objs[id]) /\ ~InTx(objs[id])
                  /\ Upd(id, DoRemap(objs[id], [x \in {a, b} |-> IF x = a THEN b ELSE a]))
Copy(id, id2) == Ready(objs[id]) /\ ~InTx(objs[id]) /\ id # id2 /\ New(id2, DoCopy(objs[id]))
Sub(id, S, id2) == CanSub(objs[id], S) /\ id # id2 /\ New(id2, DoSub(objs[id], S))
Union(id, id2, id3) == /\ id # id2 /\ id3 \notin {id, id2} /\ CanUnion(objs[id], objs[id2])
                       /\ New(id3, DoUnion(objs[id], objs[id2], FALSE))
UnionInPlace(id, id2) == id # id2 /\ CanUnion(objs[id], objs[id2]) /\ Upd(id, DoUnion(objs[id], objs[id2], TRUE))
Drop(id) == objs[id].live /\ objs' = [objs EXCEPT ![id] = Dead]

Init == \E first \in Objs : objs = [id \in Objs |-> IF id = first THEN Empty ELSE Dead]
Next == \E id \in Objs :
          \/ \E n \in Nums, e \in Elems : AddAtom(id, n, e)
          \/ \E n \in Nums : DelAtom(id, n) \/ SetRadical(id, n) \/ Move(id, n) \/ \E c \in Charges : SetCharge(id, n, c)
          \/ \E a, b \in Nums : DelBond(id, a, b) \/ Swap(id, a, b) \/ \E k \in Orders : AddBond(id, a, b, k)
          \/ \E v \in Views : Read(id, v)
          \/ Begin(id) \/ Commit(id) \/ Abort(id)
          \/ \E id2 \in Objs : Copy(id, id2) \/ UnionInPlace(id, id2) \/ \E id3 \in Objs : Union(id, id2, id3)
          \/ \E S \in SUBSET Nums, id2 \in Objs : Sub(id, S, id2)
          \/ Drop(id)
Spec == Init /\ [][Next]_vars

(* ---- properties ---- *)
Live == { id \in Objs : objs[id].live }
\* every memoised view that may be read in the current state equals the view of the current structure
CacheCoherent == \A id \in Live : objs[id].usable =>
                    \A v \in DOMAIN objs[id].cache : CanRead(objs[id], v) => objs[id].cache[v] = Foot(v, objs[id])
HydrogensFresh == \A id \in Live : (~InTx(objs[id]) /\ objs[id].usable) => objs[id].hfresh = Atoms(objs[id])
StaysUsable == \A id \in Live : objs[id].usable
AdjacencySymmetric == \A id \in Live : LET o == objs[id] IN
   /\ DOMAIN o.nbr = Atoms(o) /\ DOMAIN o.el = Atoms(o) /\ DOMAIN o.x = Atoms(o) /\ DOMAIN o.chg = Atoms(o) /\ DOMAIN o.rad = Atoms(o)
   /\ Len(o.ord) = Cardinality(Atoms(o))
   /\ \A a \in Atoms(o) : /\ Len(o.nbr[a]) = Cardinality(Range(o.nbr[a]))
                          /\ \A b \in Range(o.nbr[a]) : b \in Atoms(o) /\ a \in Range(o.nbr[b]) /\ {a, b} \in DOMAIN o.bo
   /\ \A p \in DOMAIN o.bo : \A a \in p : \A b \in p \ {a} : b \in Range(o.nbr[a])
NoPendingOutsideTx == \A id \in Live : (~InTx(objs[id]) /\ objs[id].usable) => objs[id].changed = {}
\* Abort restores exactly the snapshot (action property)
Structure(o) == <<o.ord, o.el, o.chg, o.rad, o.x, o.nbr, o.bo, o.hfresh>>
Atomic == [][\A id \in Objs : (objs[id].live /\ objs[id].usable /\ InTx(objs[id]) /\ objs'[id].live /\ ~InTx(objs'[id]) /\ objs'[id].usable)
                  => \/ Structure(objs'[id]) = <<objs[id].tx.ord, objs[id].tx.el, objs[id].tx.chg, objs[id].tx.rad, objs[id].tx.x,
                                                 objs[id].tx.nbr, objs[id].tx.bo, objs[id].tx.hfresh>>       \* abort
                     \/ <<objs'[id].ord, objs'[id].el, objs'[id].chg, objs'[id].rad, objs'[id].nbr, objs'[id].bo>>
                        = <<objs[id].ord, objs[id].el, objs[id].chg, objs[id].rad, objs[id].nbr, objs[id].bo>>]_vars  \* commit
\* no action on one object changes another (action property)
Independent == [][\A id, id2 \in Objs : (id # id2 /\ objs[id] # objs'[id] /\ objs[id2].live /\ objs'[id2].live)
                      => objs'[id2] = objs[id2]]_vars
=============================================================================
