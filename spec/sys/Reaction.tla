---------------------------------- MODULE Reaction ----------------------------------
(* C15: reactions.  Abstract state: three roles (reactants, reagents, products), each a sequence of molecules whose atoms are keyed
   by their numbers.  Operations of the library are steps on this state:
     Permute (order inside a role)      - identity on the multiset state: the signature must not move;
     Write / Read (reaction SMILES)     - identity on roles and molecules; the text itself is specified (ExpectedText);
     Compose (~reaction, r ^ p)         - the condensed graph is a function of the two sides (ExpectedCGR);
     Renumber (both sides consistently) - the condensed graph is renumbered, its string does not move.
   molecule (numbered): [atoms : Seq([n, z, i, c, r, h]) ascending in n, bonds : Seq(<<n, m, order>>) with n < m ascending]
   text molecule:       [t : characters of str(molecule), na : number of atoms]                                               *)
EXTENDS Cx, TLC, Integers

\* ------------------------------------------------------------------ text order (Python compares code points)
Ascii == << " ", "!", "\"", "#", "$", "%", "&", "'", "(", ")", "*", "+", ",", "-", ".", "/",
            "0", "1", "2", "3", "4", "5", "6", "7", "8", "9", ":", ";", "<", "=", ">", "?", "@",
            "A", "B", "C", "D", "E", "F", "G", "H", "I", "J", "K", "L", "M", "N", "O", "P", "Q", "R", "S", "T", "U", "V", "W", "X", "Y", "Z",
            "[", "\\", "]", "^", "_", "`",
            "a", "b", "c", "d", "e", "f", "g", "h", "i", "j", "k", "l", "m", "n", "o", "p", "q", "r", "s", "t", "u", "v", "w", "x", "y", "z",
            "{", "|", "}", "~" >>
Code(ch) == CHOOSE k \in 1..Len(Ascii) : Ascii[k] = ch
RECURSIVE LexLeq(_, _)
LexLeq(a, b) == IF a = <<>> THEN TRUE ELSE IF b = <<>> THEN FALSE
                ELSE IF a[1] = b[1] THEN LexLeq(Tail(a), Tail(b)) ELSE Code(a[1]) < Code(b[1])
Body(t) == Split(t, " ")[1]
Block(t) == IF Len(Split(t, " ")) > 1 THEN Split(t, " ")[2] ELSE <<>>
RECURSIVE InsertMol(_, _), SortMols(_)
InsertMol(x, seq) == IF seq = <<>> THEN <<x>> ELSE IF LexLeq(Body(x.t), Body(seq[1].t)) THEN <<x>> \o seq ELSE <<seq[1]>> \o InsertMol(x, Tail(seq))
SortMols(seq) == IF seq = <<>> THEN <<>> ELSE InsertMol(seq[1], SortMols(Tail(seq)))

DigitCh == <<"0", "1", "2", "3", "4", "5", "6", "7", "8", "9">>
RECURSIVE NumCh(_)
NumCh(n) == IF n < 10 THEN <<DigitCh[n + 1]>> ELSE NumCh(n \div 10) \o <<DigitCh[(n % 10) + 1]>>
RECURSIVE JoinWith(_, _)
JoinWith(seqs, ch) == IF Len(seqs) = 0 THEN <<>> ELSE IF Len(seqs) = 1 THEN seqs[1] ELSE seqs[1] \o <<ch>> \o JoinWith(Tail(seqs), ch)
MinOfSet(S) == CHOOSE m \in S : \A x \in S : m <= x
RECURSIVE AscendingSeq(_)
AscendingSeq(S) == IF S = {} THEN <<>> ELSE <<MinOfSet(S)>> \o AscendingSeq(S \ {MinOfSet(S)})
Dots(t) == Cardinality({ k \in 1..Len(t) : t[k] = "." })

(* The reaction signature (ReactionContainer.__format__): roles joined by ">", molecules of a role joined by "." - sorted by their
   text unless the order is kept ("!c") -, then the CXSMILES block: radicals by 0-based atom index over the whole line, fragment
   groups for multi-component molecules by 0-based component index over the whole line. *)
ExpectedText(roles, sorted) ==
  LET ord(k) == IF sorted THEN SortMols(roles[k]) ELSE roles[k]
      all == TLCEval(ord(1) \o ord(2) \o ord(3))
      comps(k) == 1 + Dots(Body(all[k].t))
      atomOff[k \in 1..(Len(all) + 1)] == IF k = 1 THEN 0 ELSE atomOff[k - 1] + all[k - 1].na
      compOff[k \in 1..(Len(all) + 1)] == IF k = 1 THEN 0 ELSE compOff[k - 1] + comps(k - 1)
      rads == UNION { { atomOff[k] + x : x \in Radicals(Block(all[k].t)) } : k \in 1..Len(all) }
      multi == AscendingSeq({ k \in 1..Len(all) : comps(k) > 1 })
      groups == [g \in 1..Len(multi) |-> JoinWith([q \in 1..comps(multi[g]) |-> NumCh(compOff[multi[g]] + q - 1)], ".")]
      role(k) == JoinWith([q \in 1..Len(ord(k)) |-> Body(ord(k)[q].t)], ".")
      radtxt == IF rads = {} THEN <<>> ELSE <<"^", "1", ":">> \o JoinWith([q \in 1..Cardinality(rads) |-> NumCh(AscendingSeq(rads)[q])], ",")
      frtxt == IF Len(multi) = 0 THEN <<>> ELSE <<"f", ":">> \o JoinWith(groups, ",")
      cx == IF rads = {} /\ Len(multi) = 0 THEN <<>>
            ELSE <<" ", "|">> \o radtxt \o (IF rads # {} /\ Len(multi) > 0 THEN <<",">> ELSE <<>>) \o frtxt \o <<"|">>
  IN role(1) \o <<">">> \o role(2) \o <<">">> \o role(3) \o cx

\* ------------------------------------------------------------------ condensed graph
SeqRange(s) == { s[k] : k \in 1..Len(s) }
SideAtoms(ms) == UNION { SeqRange(ms[k].atoms) : k \in 1..Len(ms) }
SideBonds(ms) == UNION { SeqRange(ms[k].bonds) : k \in 1..Len(ms) }
SideNums(ms) == { a.n : a \in SideAtoms(ms) }
AtomOf(ms, n) == CHOOSE a \in SideAtoms(ms) : a.n = n
OrdIn(bs, a, b) == IF \E e \in bs : {e[1], e[2]} = {a, b} THEN (CHOOSE e \in bs : {e[1], e[2]} = {a, b})[3] ELSE 0
(* Atoms present on both sides carry the reactant state and the product state.  An atom present on one side only is shown unchanged
   (same state twice), and so is a bond between two such atoms; a bond from it to an atom of both sides is broken / formed.
   0 stands for "no bond". *)
ExpectedCGR(rs, ps) ==
  LET ra == SideNums(rs)  pa == SideNums(ps)  rb == SideBonds(rs)  pb == SideBonds(ps)
      common == ra \cap pa
      atom(n) == IF n \in common THEN LET a == AtomOf(rs, n) b == AtomOf(ps, n) IN [n |-> n, z |-> a.z, i |-> a.i, c |-> a.c, pc |-> b.c, r |-> a.r, pr |-> b.r]
                 ELSE LET a == IF n \in ra THEN AtomOf(rs, n) ELSE AtomOf(ps, n) IN [n |-> n, z |-> a.z, i |-> a.i, c |-> a.c, pc |-> a.c, r |-> a.r, pr |-> a.r]
      pairs == { <<e[1], e[2]>> : e \in rb \cup pb }
      bond(a, b) == IF a \notin common /\ b \notin common
                    THEN LET o == IF a \in ra THEN OrdIn(rb, a, b) ELSE OrdIn(pb, a, b) IN <<a, b, o, o>>
                    ELSE <<a, b, OrdIn(rb, a, b), OrdIn(pb, a, b)>>
  IN [atoms |-> { atom(n) : n \in ra \cup pa }, bonds |-> { bond(p[1], p[2]) : p \in pairs }]
Centre(g) == { a.n : a \in { x \in g.atoms : x.c # x.pc \/ x.r # x.pr } } \cup UNION { {e[1], e[2]} : e \in { x \in g.bonds : x[3] # x[4] } }
SameElements(rs, ps) == \A n \in SideNums(rs) \cap SideNums(ps) : AtomOf(rs, n).z = AtomOf(ps, n).z /\ AtomOf(rs, n).i = AtomOf(ps, n).i

(* Ground truth of the drivers: the product side is the reactant side after a list of edits, each naming what it touches.
   edit: [k |-> "order", a, b, to] (to = 0 breaks, from 0 forms) | [k |-> "charge", a, to] | [k |-> "radical", a, to]
         | [k |-> "leave", a] (atom absent from the products) | [k |-> "join", a, b, z, to] (new atom a bonded to b by order to) *)
Touched(rs, edits) ==
  LET rb == SideBonds(rs) IN
  UNION { CASE e.k = "order" -> {e.a, e.b}
            [] e.k \in {"charge", "radical"} -> {e.a}
            [] e.k = "leave" -> LET nb == { x \in SideNums(rs) : OrdIn(rb, e.a, x) # 0 /\ ~\E f \in SeqRange(edits) : f.k = "leave" /\ f.a = x } IN
                                IF nb = {} THEN {} ELSE {e.a} \cup nb
            [] e.k = "join" -> {e.a, e.b} : e \in SeqRange(edits) }
\* the product side the edits produce, as atom and bond sets (hydrogens are not part of a condensed graph)
Strip(a) == [n |-> a.n, z |-> a.z, i |-> a.i, c |-> a.c, r |-> a.r]
Edited(rs, edits) ==
  LET E == SeqRange(edits)
      gone == { e.a : e \in { x \in E : x.k = "leave" } }
      atoms0 == { Strip(a) : a \in { x \in SideAtoms(rs) : x.n \notin gone } }
      atoms1 == { IF \E e \in E : e.k = "charge" /\ e.a = a.n THEN [a EXCEPT !.c = (CHOOSE e \in E : e.k = "charge" /\ e.a = a.n).to] ELSE a : a \in atoms0 }
      atoms2 == { IF \E e \in E : e.k = "radical" /\ e.a = a.n THEN [a EXCEPT !.r = (CHOOSE e \in E : e.k = "radical" /\ e.a = a.n).to] ELSE a : a \in atoms1 }
      atoms3 == atoms2 \cup { [n |-> e.a, z |-> e.z, i |-> 0, c |-> 0, r |-> 0] : e \in { x \in E : x.k = "join" } }
      kept == { b \in SideBonds(rs) : b[1] \notin gone /\ b[2] \notin gone /\ ~\E e \in E : e.k = "order" /\ {e.a, e.b} = {b[1], b[2]} }
      set == { <<IF e.a < e.b THEN e.a ELSE e.b, IF e.a < e.b THEN e.b ELSE e.a, e.to>> : e \in { x \in E : x.k \in {"order", "join"} /\ x.to # 0 } }
  IN [atoms |-> atoms3, bonds |-> kept \cup set]

\* ------------------------------------------------------------------ the notation of a condensed graph string (CGRSmiles)
(* atoms:  C  Cl  [13C]  [N+]  [O->0]  [C^>*]  [O0>-*>^]   = [isotope symbol charge(s) radical(s)], "x>y" = reactant state > product state,
           charge 0 is written "0" only next to a non-zero partner, radical "*", no radical next to a radical "^";
   bonds:  nothing (single), = # : ~ (unchanged), [x>y] with x, y in . - = # : ~ (changed; "." = no bond), written at both ends of a
           ring closure.  The tally below does not parse the tree: it counts atom tokens (every atom is written once) and collects
           the kinds of changed-bond tokens, which must be those of the graph. *)
ElementSymbol == <<"H","He","Li","Be","B","C","N","O","F","Ne","Na","Mg","Al","Si","P","S","Cl","Ar","K","Ca","Sc","Ti","V","Cr",
  "Mn","Fe","Co","Ni","Cu","Zn","Ga","Ge","As","Se","Br","Kr","Rb","Sr","Y","Zr","Nb","Mo","Tc","Ru","Rh","Pd","Ag","Cd",
  "In","Sn","Sb","Te","I","Xe","Cs","Ba","La","Ce","Pr","Nd","Pm","Sm","Eu","Gd","Tb","Dy","Ho","Er","Tm","Yb","Lu","Hf",
  "Ta","W","Re","Os","Ir","Pt","Au","Hg","Tl","Pb","Bi","Po","At","Rn","Fr","Ra","Ac","Th","Pa","U","Np","Pu","Am","Cm",
  "Bk","Cf","Es","Fm","Md","No","Lr","Rf","Db","Sg","Bh","Hs","Mt","Ds","Rg","Cn","Nh","Fl","Mc","Lv","Ts","Og">>
UpperCh == {"A", "B", "C", "D", "E", "F", "G", "H", "I", "J", "K", "L", "M", "N", "O", "P", "Q", "R", "S", "T", "U", "V", "W", "X", "Y", "Z"}
LowerCh == {"a", "b", "c", "d", "e", "f", "g", "h", "i", "j", "k", "l", "m", "n", "o", "p", "q", "r", "s", "t", "u", "v", "w", "x", "y", "z"}
BondCh == {".", "-", "=", "#", ":", "~"}
BondOrd(ch) == CASE ch = "." -> 0 [] ch = "-" -> 1 [] ch = "=" -> 2 [] ch = "#" -> 3 [] ch = ":" -> 4 [] ch = "~" -> 8
At(s, p) == IF p >= 1 /\ p <= Len(s) THEN s[p] ELSE ""
SymAt(s, p) == IF At(s, p + 1) \in LowerCh THEN s[p] \o s[p + 1] ELSE s[p]
SymLen(s, p) == IF At(s, p + 1) \in LowerCh THEN 2 ELSE 1
RECURSIVE ReadNum(_, _, _)
ReadNum(s, p, acc) == IF At(s, p) \in CxDigits THEN ReadNum(s, p + 1, acc * 10 + CxVal(s[p])) ELSE <<acc, p>>
\* a charge at p (one of + - 0, with an optional digit): <<value, next position>>
ReadCharge(s, p) == IF s[p] = "0" THEN <<0, p + 1>>
                    ELSE LET mag == IF At(s, p + 1) \in CxDigits THEN CxVal(s[p + 1]) ELSE 1
                             nxt == IF At(s, p + 1) \in CxDigits THEN p + 2 ELSE p + 1
                         IN <<IF s[p] = "+" THEN mag ELSE 0 - mag, nxt>>
BracketAtom(s, p) ==
  LET n1 == ReadNum(s, p + 1, 0)
      q == n1[2]
      q2 == q + SymLen(s, q)
      hasC == At(s, q2) \in {"+", "-", "0"}
      c1 == IF hasC THEN ReadCharge(s, q2) ELSE <<0, q2>>
      dynC == hasC /\ At(s, c1[2]) = ">" /\ At(s, c1[2] + 1) \in {"+", "-", "0"}
      c2 == IF dynC THEN ReadCharge(s, c1[2] + 1) ELSE c1
      q3 == c2[2]
      rad == IF At(s, q3) = "*" THEN (IF At(s, q3 + 1) = ">" THEN <<1, 0>> ELSE <<1, 1>>) ELSE IF At(s, q3) = "^" THEN <<0, 1>> ELSE <<0, 0>>
  IN [sym |-> SymAt(s, q), i |-> n1[1], c |-> c1[1], pc |-> c2[1], r |-> rad[1], pr |-> rad[2]]
OpenBr(s) == { p \in 1..Len(s) : s[p] = "[" }
CloseOf(s, p) == CHOOSE q \in (p + 1)..Len(s) : s[q] = "]" /\ \A k \in (p + 1)..(q - 1) : s[k] # "]"
InBracket(s, p) == \E o \in OpenBr(s) : o < p /\ p <= CloseOf(s, o)
IsBondBracket(s, p) == At(s, p + 1) \in BondCh /\ At(s, p + 2) = ">"
\* <<position, token>> of every atom token; kinds <<o, po>> of every changed-bond token
AtomTokens(s) == { <<p, BracketAtom(s, p)>> : p \in { o \in OpenBr(s) : ~IsBondBracket(s, o) } }
                 \cup { <<p, [sym |-> SymAt(s, p), i |-> 0, c |-> 0, pc |-> 0, r |-> 0, pr |-> 0]>> : p \in { q \in 1..Len(s) : s[q] \in UpperCh /\ ~InBracket(s, q) } }
ChangedBondKinds(s) == { <<BondOrd(s[p + 1]), BondOrd(s[p + 3])>> : p \in { o \in OpenBr(s) : IsBondBracket(s, o) } }
StaticBondKinds(s) == { BondOrd(s[p]) : p \in { q \in 1..Len(s) : s[q] \in {"=", "#", ":", "~"} /\ ~InBracket(s, q) } }
TokenOfAtom(a) == [sym |-> ElementSymbol[a.z], i |-> a.i, c |-> a.c, pc |-> a.pc, r |-> a.r, pr |-> a.pr]
\* the string s spells the atoms of g (as a multiset) and names exactly its kinds of bonds
SpellsTheGraph(s, g) ==
  LET toks == AtomTokens(s) IN
  /\ Cardinality(toks) = Cardinality(g.atoms)
  /\ \A t \in { x[2] : x \in toks } : Cardinality({ x \in toks : x[2] = t }) = Cardinality({ a \in g.atoms : TokenOfAtom(a) = t })
  /\ ChangedBondKinds(s) = { <<e[3], e[4]>> : e \in { x \in g.bonds : x[3] # x[4] } }
  /\ StaticBondKinds(s) = { e[3] : e \in { x \in g.bonds : x[3] = x[4] /\ x[3] # 1 } }
=============================================================================
