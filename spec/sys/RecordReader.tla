------------------------------- MODULE RecordReader -------------------------------
(* The multi-record readers (SDFRead; C11) as a state machine over a file of records.
   A file is a sequence of records [ok (the structure block parses), mend (the block has its "M  END": metadata can be located)].
   Reader state: pos (records consumed from the stream), buf (the buffered record, 0 = none), tell (records processed),
   ret (result of the last call: [k, v] with k = "rec" (record v) | "meta" (metadata of record v) | "tell" (count v) | "ValueError" | "EOF" |
   "Stop" | "IndexError" | "ok").
   Calls: ReadStructure(current), ReadMetadata(current), NextItem (next(reader): skips damaged records), Seek(i), GetItem(i), Tell.
   Properties: sequential iteration returns exactly the undamaged records in order (a damaged record never hides a later one);
   reader[i] is the i-th record; after Seek(i) reading continues with record i+1; tell counts processed records. *)
EXTENDS Naturals, Integers, Sequences, FiniteSets, TLC
CONSTANTS MaxRecords
VARIABLES file, pos, buf, tell, ret, hist
vars == <<file, pos, buf, tell, ret, hist>>
N == Len(file)
Ret(kind, v) == [k |-> kind, v |-> v]
Rec == [ok : BOOLEAN, mend : BOOLEAN]
Files == UNION { [1..k -> { r \in Rec : r.ok => r.mend }] : k \in 1..MaxRecords }     \* at least one record

\* _read_block(current): <<new pos, new buf, new tell, eof>>
Block(cur) == IF cur /\ buf # 0 THEN <<pos, buf, tell, FALSE>>
              ELSE IF pos = N THEN <<pos, 0, tell, TRUE>>
              ELSE <<pos + 1, pos + 1, tell + 1, FALSE>>
ReadStructure(cur) ==
  LET b == Block(cur) IN
  /\ pos' = b[1] /\ buf' = b[2] /\ tell' = b[3]
  /\ ret' = IF b[4] THEN Ret("EOF", 0) ELSE IF file[b[2]].ok THEN Ret("rec", b[2]) ELSE Ret("ValueError", 0)
  /\ UNCHANGED file /\ hist' = IF b[1] = pos THEN hist ELSE <<>>      \* consuming a record by hand interrupts the iteration history
ReadMetadata(cur) ==
  LET b == Block(cur) IN
  /\ pos' = b[1] /\ buf' = b[2] /\ tell' = b[3]
  /\ ret' = IF b[4] THEN Ret("EOF", 0) ELSE IF file[b[2]].mend THEN Ret("meta", b[2]) ELSE Ret("ValueError", 0)
  /\ UNCHANGED file /\ hist' = IF b[1] = pos THEN hist ELSE <<>>
\* next(reader): read_structure(current = FALSE) until one succeeds
NextOk == { k \in (pos + 1)..N : file[k].ok }
NextItem ==
  /\ IF NextOk = {} THEN pos' = N /\ buf' = 0 /\ tell' = tell + (N - pos) /\ ret' = Ret("Stop", 0) /\ hist' = hist
     ELSE LET k == CHOOSE k \in NextOk : \A j \in NextOk : k <= j IN
          pos' = k /\ buf' = k /\ tell' = tell + (k - pos) /\ ret' = Ret("rec", k) /\ hist' = Append(hist, k)
  /\ UNCHANGED file
Seek(i) == /\ IF i \in 0..(N - 1) THEN pos' = i /\ buf' = 0 /\ tell' = i /\ ret' = Ret("ok", 0) ELSE UNCHANGED <<pos, buf, tell>> /\ ret' = Ret("IndexError", 0)
           /\ UNCHANGED file /\ hist' = <<>>
GetItem(i) == LET j == IF i < 0 THEN i + N ELSE i IN
              /\ IF i >= N \/ i < 0 - N THEN UNCHANGED <<pos, buf, tell>> /\ ret' = Ret("IndexError", 0)
                 ELSE pos' = j + 1 /\ buf' = j + 1 /\ tell' = j + 1 /\ ret' = (IF file[j + 1].ok THEN Ret("rec", j + 1) ELSE Ret("ValueError", 0))
              /\ UNCHANGED file /\ hist' = <<>>
Tell == ret' = Ret("tell", tell) /\ UNCHANGED <<file, pos, buf, tell, hist>>

Init == file \in Files /\ pos = 0 /\ buf = 0 /\ tell = 0 /\ ret = Ret("ok", 0) /\ hist = <<>>
Next == \/ \E cur \in BOOLEAN : ReadStructure(cur) \/ ReadMetadata(cur)
        \/ NextItem \/ Tell
        \/ \E i \in (0 - MaxRecords - 1)..(MaxRecords + 1) : GetItem(i)
        \/ \E i \in 0..(MaxRecords + 1) : Seek(i)
Spec == Init /\ [][Next]_vars

(* ---- properties of the design ---- *)
TypeOK == pos \in 0..N /\ buf \in 0..N /\ tell \in Nat
\* what next(reader) has returned since the last seek / start is exactly the undamaged records passed over, in order
IterationExact == LET start == IF hist = <<>> THEN pos ELSE hist[1] IN
                  \A a \in 1..Len(hist) : file[hist[a]].ok /\ (a > 1 => hist[a - 1] < hist[a])
                                         /\ \A k \in (IF a = 1 THEN hist[1] ELSE hist[a - 1] + 1)..(hist[a] - 1) : a = 1 \/ ~file[k].ok
\* a returned record number is the record the stream position says
ReturnIsCurrent == (ret.k = "rec") => (ret.v = buf /\ file[ret.v].ok)
\* random access returns the requested record (action property)
GetItemExact == [][\A i \in 0..(MaxRecords - 1) : (GetItem(i) /\ i < N /\ file[i + 1].ok) => ret' = Ret("rec", i + 1)]_vars
=============================================================================
