--------------------------------- MODULE Fingerprint ---------------------------------
(* Fragment semantics of the linear and Morgan fingerprints (C17).
   A recorded molecule: atoms [key (<<isotope, z, charge, radical>>), id (rank of the library's atom identifier among the distinct
   identifiers of the molecule - order preserving, so comparisons of descriptors carry over)], bonds <<a, b, order>> (positions).
   Linear: the fragments of atom count lo..hi are exactly the simple paths, each once (a path and its reverse are one fragment);
   the descriptor of a path alternates atom identifier and bond order and is the larger of the two reading directions.
   Morgan: the identifier of radius r+1 distinguishes two atoms exactly when their radius-r identifiers or their multisets of
   (bond order, neighbour radius-r identifier) differ.
   Folding: bit index k of a 64-bit hash h for length 2^log is the number formed by bits [k*log, (k+1)*log). *)
EXTENDS Graphs, FiniteSetsExt

Adj(m, a) == Nbrs(m, a)
\* simple paths as sequences of positions with n atoms, extended one atom at a time
RECURSIVE PathsOf(_, _, _)
PathsOf(m, n, S) == IF n = 1 THEN S
                    ELSE PathsOf(m, n - 1, TLCEval(UNION { { Append(p, x) : x \in Adj(m, p[Len(p)]) \ { p[k] : k \in 1..Len(p) } } : p \in S }))
PathsN(m, n) == PathsOf(m, n, { <<a>> : a \in Nodes(m) })
Reverse(p) == [k \in 1..Len(p) |-> p[Len(p) + 1 - k]]
\* descriptor of an oriented path
Desc(m, p) == [k \in 1..(2 * Len(p) - 1) |-> IF k % 2 = 1 THEN m.atoms[p[(k + 1) \div 2]].id ELSE OrderOf(m, p[k \div 2], p[k \div 2 + 1])]
\* lexicographic "greater than" on equally long integer sequences
RECURSIVE Greater(_, _, _)
Greater(a, b, k) == IF k > Len(a) THEN FALSE ELSE IF a[k] # b[k] THEN a[k] > b[k] ELSE Greater(a, b, k + 1)
CanonDesc(m, p) == LET d == Desc(m, p) r == Desc(m, Reverse(p)) IN IF Greater(d, r, 1) THEN d ELSE r
\* all fragments: unoriented paths identified with the set {p, reverse p}
Fragments(m, lo, hi) == UNION { { {p, Reverse(p)} : p \in PathsN(m, n) } : n \in lo..hi }
IdentifierIsFunctionOfKey(m) == \A a, b \in Nodes(m) : (m.atoms[a].key = m.atoms[b].key) <=> (m.atoms[a].id = m.atoms[b].id)

\* Morgan: partition refinement step
Signature(m, col, a) == LET nb == NbrO(m, a)
                            keys == { <<p[2], col[p[1]]>> : p \in nb }
                        IN <<col[a], [q \in keys |-> Cardinality({ p \in nb : <<p[2], col[p[1]]>> = q })]>>
SamePartition(m, c1, c2) == \A a, b \in Nodes(m) : (c1[a] = c1[b]) <=> (c2[a] = c2[b])
RefinesCorrectly(m, colr, colnext) == \A a, b \in Nodes(m) : (colnext[a] = colnext[b]) <=> (Signature(m, colr, a) = Signature(m, colr, b))

\* folding: bits is a sequence of 64 bits, least significant first
RECURSIVE BitsValue(_, _, _, _)
BitsValue(bits, from, n, k) == IF k >= n THEN 0 ELSE bits[from + k + 1] * (2 ^ k) + BitsValue(bits, from, n, k + 1)
FoldIndex(bits, log, k) == BitsValue(bits, k * log, log, 0)
ActiveBits(hashbits, log, nactive) == { FoldIndex(hashbits[h], log, k) : h \in 1..Len(hashbits), k \in 0..((IF nactive < 1 THEN 1 ELSE nactive) - 1) }
=============================================================================
