------------------------------ MODULE ReactorQueue ------------------------------
(* The multi-stage ("exhaustive", one_shot = False) mode of chython.reactor.Reactor for templates with one pattern and one
   product, as the work-list machine the code is (reactor.py: Reactor.__call__):

     queue   FIFO of entries [ch (the molecule the template is applied to), rest (the other molecules of the mixture), d (depth)]
     seen    mixtures already reported (the code keys them by the reaction text; a mixture is a multiset of molecules, here
             a sorted sequence of molecule identifiers)
     cur     the entry being processed and the results of the single-stage application not handled yet (the matcher decides
             their order: any order is a behaviour)
     out     what was yielded, with the depth at which it was found

   `step[m]` is the set of molecules one application of the template makes of molecule m (the single-stage relation); the
   one-shot mode yields exactly the first level.  For every relation over a few molecules, every start mixture and every limit
   TLC checks: nothing is yielded twice; every yield is reachable in exactly its depth and not earlier (breadth first); depths
   never decrease along the output; when the queue is empty everything reachable within `limit` applications was yielded; the
   machine terminates.  The three design constants are TRUE in the code; with any of them FALSE TLC must find a violation
   (the sensitivity instances of MC_ReactorQueue).  Trace_Reactor checks the same statements on recorded runs of the real Reactor against the recorded
   single-stage relation. *)
EXTENDS Naturals, Sequences, FiniteSets, SequencesExt, TLC

Sorted(s) == SortSeq(s, LAMBDA a, b : a < b)
\* (RemoveAt(s, k) of SequencesExt: s without its k-th element)
\* mixtures one application away from `mix` under the single-stage relation st
Expand(st, mix) == UNION { { Sorted(<<n>> \o RemoveAt(mix, k)) : n \in st[mix[k]] } : k \in 1..Len(mix) }
RECURSIVE Level(_, _, _)
Level(st, s, k) == IF k = 0 THEN {Sorted(s)} ELSE UNION { Expand(st, x) : x \in Level(st, s, k - 1) }
Within(st, s, L) == UNION { Level(st, s, k) : k \in 1..L }
Dist(st, s, mix, L) == IF \E k \in 1..L : mix \in Level(st, s, k) THEN CHOOSE k \in 1..L : mix \in Level(st, s, k) /\ \A j \in 1..(k - 1) : mix \notin Level(st, s, j)
                       ELSE 0
OneShot(st, s) == Level(st, s, 1)

CONSTANTS Mols, MaxStart, MaxLimit,
          Fifo,        \* new entries go to the end of the queue (breadth first); FALSE: to the front
          Dedup,       \* a mixture that was reported before is neither reported nor expanded again
          StrictLimit  \* a mixture found at depth `limit` is not expanded; FALSE: one level more (off by one)
VARIABLES step, start, limit, queue, seen, cur, out
vars == <<step, start, limit, queue, seen, cur, out>>
None == [on |-> FALSE]

Init == /\ step \in [Mols -> SUBSET Mols]
        /\ start \in UNION { [1..n -> Mols] : n \in 1..MaxStart }
        /\ limit \in 1..MaxLimit
        /\ queue = [k \in 1..Len(start) |-> [ch |-> start[k], rest |-> Sorted(RemoveAt(start, k)), d |-> 0]]
        /\ seen = {} /\ cur = None /\ out = <<>>
Pop == /\ ~cur.on /\ queue # <<>>
       /\ cur' = [on |-> TRUE, ch |-> Head(queue).ch, rest |-> Head(queue).rest, d |-> Head(queue).d + 1, todo |-> step[Head(queue).ch]]
       /\ queue' = Tail(queue) /\ UNCHANGED <<step, start, limit, seen, out>>
Handle == /\ cur.on /\ cur.todo # {}
          /\ \E new \in cur.todo :
               LET prod == <<new>> \o cur.rest
                   mix == Sorted(prod) IN
               /\ cur' = [cur EXCEPT !.todo = @ \ {new}]
               /\ IF Dedup /\ mix \in seen THEN UNCHANGED <<queue, seen, out>>
                  ELSE /\ seen' = seen \cup {mix}
                       /\ out' = Append(out, [mix |-> mix, d |-> cur.d])
                       /\ LET more == [k \in 1..Len(prod) |-> [ch |-> prod[k], rest |-> Sorted(RemoveAt(prod, k)), d |-> cur.d]] IN
                          queue' = IF cur.d < limit \/ (~StrictLimit /\ cur.d = limit)
                                   THEN (IF Fifo THEN queue \o more ELSE more \o queue)
                                   ELSE queue
          /\ UNCHANGED <<step, start, limit>>
Finish == cur.on /\ cur.todo = {} /\ cur' = None /\ UNCHANGED <<step, start, limit, queue, seen, out>>
Next == Pop \/ Handle \/ Finish
Spec == Init /\ [][Next]_vars /\ WF_vars(Next)

Done == ~cur.on /\ queue = <<>>
Mixes == { out[k].mix : k \in 1..Len(out) }
NoDuplicates == \A a, b \in 1..Len(out) : a # b => out[a].mix # out[b].mix
BreadthFirst == \A a \in 1..Len(out) : out[a].d = Dist(step, start, out[a].mix, limit) /\ out[a].d >= 1
DepthMonotone == \A a \in 1..(Len(out) - 1) : out[a].d <= out[a + 1].d
DoneComplete == Done => Mixes = Within(step, start, limit)
FirstLevelIsOneShot == Done => { out[k].mix : k \in { k \in 1..Len(out) : out[k].d = 1 } } = OneShot(step, start)
SeenIsOut == seen = Mixes
Terminates == <>Done
=============================================================================
