---------------------------------- MODULE Tables ----------------------------------
(* Consistency of the periodic-table data (C18), over records exported from the working tree at run time, one per element:
   [z, sym (class name / atomic_symbol), by_sym (number the symbol lookup gives), by_num (symbol the number lookup gives),
    dist / mass (keys of the abundance and mass tables), mdl (reference isotope), pack_ref / unpack_ref (entries of the two
    common_isotopes tables in the .pyx sources), unpack_sym (entry of the element list of the decoder), mass_nat (1 iff the natural
    atomic mass is computable), mass_iso (per tabulated isotope 1 iff its mass is computable), qz / qsym (number of the query
    variant by number / by symbol), dz / dsym (the same for the dynamic variant), qname / dname (the symbols the variants report), rules (1 iff the valence tables compile),
    nrules (number of compiled rules), qch / ech (the charges of -4..4 the query variant / the element accepts)] *)
EXTENDS Valence, SmilesRead
CONSTANT CH
R == JsonDeserialize("data.json")
N == Len(R)
VARIABLES c, i
vars == <<c, i>>
If(cond, name) == IF cond THEN {name} ELSE {}
SeqSet(q) == { q[k] : k \in 1..Len(q) }
Verdict(r) ==
  If(r.sym # Symbols[r.z], "symbol-differs-from-the-standard-table")
  \cup If(r.by_sym # r.z \/ r.by_num # r.sym, "symbol-and-number-lookups-not-inverse")
  \cup If(SeqSet(r.dist) # SeqSet(r.mass), "abundance-and-mass-keys-differ")
  \cup If(r.pack_ref # r.mdl - 16 \/ r.unpack_ref # r.mdl - 16, "reference-isotope-tables-disagree")
  \cup If(r.unpack_sym # r.sym, "decoder-element-list")
  \cup If(r.mass_nat # 1 \/ \E k \in 1..Len(r.mass_iso) : r.mass_iso[k] # 1, "atomic-mass-not-computable")
  \cup If(\E x \in SeqSet(r.dist) \cup SeqSet(r.mass) : (x - r.mdl + 16) \notin 1..31, "isotope-not-representable-in-the-pack-format")
  \cup If(\E x \in SeqSet(r.dist) \cup SeqSet(r.mass) : (x - r.mdl) \notin -8..8, "isotope-not-representable-in-the-matcher-layout")
  \cup If(r.qz # r.z \/ r.qsym # r.z, "query-variant")
  \cup If(r.dz # r.z \/ r.dsym # r.z, "dynamic-variant")
  \cup If(SeqSet(r.qch) # -4..4, "query-variant-rejects-a-charge-of-the-range")
  \cup If(SeqSet(r.ech) # -4..4, "element-rejects-a-charge-of-the-range")
  \cup If(r.qname # Symbols[r.z], "query-variant-symbol")
  \cup If(r.dname # Symbols[r.z], "dynamic-variant-symbol")
  \cup If(r.rules # 1 \/ r.nrules # Len(Rules[r.z]), "valence-tables-do-not-compile-to-the-documented-rules")
  \* what the valence tables can give an atom must fit the two layouts: hydrogens 0..6 and charges -4..+4 in the pack format,
  \* hydrogens 0..4 (five bits, the next bit is the first charge bit) and charges -4..+4 in the matcher's third word
  \cup If(\E k \in 1..Len(Rules[r.z]) : Rules[r.z][k].h \notin 0..6, "hydrogen-count-not-representable-in-the-pack-format")
  \cup If(\E k \in 1..Len(Rules[r.z]) : Rules[r.z][k].h \notin 0..4, "hydrogen-count-not-representable-in-the-matcher-layout")
  \cup If(\E k \in 1..Len(Rules[r.z]) : Rules[r.z][k].c \notin -4..4, "charge-not-representable")
Init == c \in 0..(CH-1) /\ i = c + 1
Next == i + CH <= N /\ i' = i + CH /\ c' = c
Report == i > N \/ Verdict(R[i]) = {} \/ PrintT(<<"VERDICT", i, Verdict(R[i])>>)
=============================================================================
