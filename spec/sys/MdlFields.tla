------------------------------- MODULE MdlFields -------------------------------
(* The fixed-column fields of a CTfile V2000 connection table that carry charge, radical state and isotope, written from the
   CTfile definition (not from the library): the charge code of the atom block, the property lines "M  CHG", "M  RAD", "M  ISO"
   (at most eight (atom, value) entries per line, the count in columns 7-9), and what a tokenised block denotes.
   A tokenised block is a record
     [na, nb          the two counts of the counts line,
      atoms           <<[s symbol, dd mass-difference field, ccc charge code]>>,
      bonds           <<<<a, b, order, stereo code>>>>,
      props           <<[kind "CHG" | "RAD" | "ISO", nn the count field, ents <<<<atom, value>>>>]>>]
   Deviation from the CTfile text named here: the library (reader and writer alike) lets a property line override the atom-block
   value of the atoms it lists only ("M  CHG" does not zero the codes of the atoms it does not list), and that is what Denoted
   models; the strict reading is StrictCharge, reported as information only. *)
EXTENDS Integers, Sequences, FiniteSets

ChargeOfCode(c) == CASE c = 0 -> 0 [] c = 1 -> 3 [] c = 2 -> 2 [] c = 3 -> 1 [] c = 4 -> 0 [] c = 5 -> -1 [] c = 6 -> -2 [] c = 7 -> -3
                     [] OTHER -> 99
CodeOfCharge(q) == CASE q = 0 -> 0 [] q = 3 -> 1 [] q = 2 -> 2 [] q = 1 -> 3 [] q = -1 -> 5 [] q = -2 -> 6 [] q = -3 -> 7
                     [] OTHER -> 0        \* charges the code cannot carry need an "M  CHG" entry
Codable == -3..3
ASSUME \A q \in Codable : ChargeOfCode(CodeOfCharge(q)) = q
ASSUME \A c \in (0..7) \ {4} : CodeOfCharge(ChargeOfCode(c)) = c
ASSUME \A c, d \in (0..7) \ {4} : ChargeOfCode(c) = ChargeOfCode(d) => c = d

Entries(f, kind) == {<<p, e>> \in (1..Len(f.props)) \X (1..8) : f.props[p].kind = kind /\ e <= Len(f.props[p].ents)}
Listed(f, kind, k) == \E pe \in Entries(f, kind) : f.props[pe[1]].ents[pe[2]][1] = k
\* the last entry that lists the atom wins (the lines are processed top to bottom, the entries left to right)
Later(x, y) == x[1] > y[1] \/ (x[1] = y[1] /\ x[2] > y[2])
Value(f, kind, k) == LET S == {pe \in Entries(f, kind) : f.props[pe[1]].ents[pe[2]][1] = k}
                         last == CHOOSE x \in S : \A y \in S \ {x} : Later(x, y)
                     IN f.props[last[1]].ents[last[2]][2]
Charge(f, k) == IF Listed(f, "CHG", k) THEN Value(f, "CHG", k) ELSE ChargeOfCode(f.atoms[k].ccc)
StrictCharge(f, k) == IF Entries(f, "CHG") \cup Entries(f, "RAD") = {} THEN ChargeOfCode(f.atoms[k].ccc)
                      ELSE IF Listed(f, "CHG", k) THEN Value(f, "CHG", k) ELSE 0
Radical(f, k) == IF Listed(f, "RAD", k) THEN Value(f, "RAD", k) # 0 ELSE FALSE
Isotope(f, k) == IF Listed(f, "ISO", k) THEN Value(f, "ISO", k) ELSE 0      \* 0: no label (the mass-difference field is judged apart)
BondSet(bs) == {<<IF b[1] < b[2] THEN b[1] ELSE b[2], IF b[1] < b[2] THEN b[2] ELSE b[1], b[3]>> : b \in {bs[j] : j \in 1..Len(bs)}}

\* well-formedness of the block itself
FormClauses(f) ==
     (IF f.na # Len(f.atoms) THEN {"counts-line-atoms"} ELSE {})
  \cup (IF f.nb # Len(f.bonds) THEN {"counts-line-bonds"} ELSE {})
  \cup (IF \E p \in 1..Len(f.props) : f.props[p].nn # Len(f.props[p].ents) \/ f.props[p].nn > 8 \/ f.props[p].nn < 1
        THEN {"property-line-count"} ELSE {})
  \cup (IF \E p \in 1..Len(f.props) : \E e \in 1..Len(f.props[p].ents) : f.props[p].ents[e][1] \notin 1..Len(f.atoms)
        THEN {"property-entry-atom-out-of-range"} ELSE {})
  \cup (IF \E j \in 1..Len(f.bonds) : f.bonds[j][1] \notin 1..Len(f.atoms) \/ f.bonds[j][2] \notin 1..Len(f.atoms) \/ f.bonds[j][1] = f.bonds[j][2]
        THEN {"bond-line-atom-out-of-range"} ELSE {})
  \cup (IF \E j \in 1..Len(f.bonds) : f.bonds[j][4] \notin {0, 1, 4, 6} THEN {"bond-stereo-code"} ELSE {})
  \cup (IF \E k \in 1..Len(f.atoms) : f.atoms[k].ccc \notin 0..7 THEN {"charge-code-out-of-range"} ELSE {})

\* the block against a molecule m = [atoms <<[s, c, i, r]>>, bonds <<<<a, b, order>>>>] (positions)
Agree(f, m) ==
  IF Len(f.atoms) # Len(m.atoms) THEN {"atom-count"}
  ELSE LET K == 1..Len(m.atoms) IN
       (IF \E k \in K : f.atoms[k].s # m.atoms[k].s THEN {"atom-symbol"} ELSE {})
  \cup (IF \E k \in K : f.atoms[k].ccc \in 0..7 /\ Charge(f, k) # m.atoms[k].c THEN {"charge-field"} ELSE {})
  \cup (IF \E k \in K : Radical(f, k) # (m.atoms[k].r = 1) THEN {"radical-field"} ELSE {})
  \cup (IF \E k \in K : (f.atoms[k].dd = 0 \/ Listed(f, "ISO", k)) /\ Isotope(f, k) # m.atoms[k].i THEN {"isotope-field"} ELSE {})
  \cup (IF BondSet(f.bonds) # BondSet(m.bonds) \/ Cardinality(BondSet(f.bonds)) # Len(f.bonds) THEN {"bond-block"} ELSE {})
StrictDiffers(f) == \E k \in 1..Len(f.atoms) : f.atoms[k].ccc \in 0..7 /\ StrictCharge(f, k) # Charge(f, k)
=============================================================================
