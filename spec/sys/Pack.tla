----------------------------------- MODULE Pack -----------------------------------
(* The published version-2 binary layout of a molecule pack (C10), as an encoder over sequences of bytes 0..255, written
   from the format specification in the docstring of MoleculeContainer.pack:
     header      0x02 | 12 bit atom count | 12 bit cis/trans count
     atom (9 B)  12 bit number | 4 bit neighbour count | 2 bit tetrahedral sign, 2 bit allene sign, 5 bit isotope
                 (0 = unset, else isotope - reference + 16 where reference = T.mdl[z]) | 7 bit element | x, y as IEEE half
                 floats (big endian) | 3 bit hydrogens (7 = unknown), 4 bit charge + 4, 1 bit radical
     connection table  the neighbour numbers of all atoms in order, two 12-bit numbers per 3 bytes
     bond orders       3 bits per bond (order - 1), each bond once at its first end in atom order, zero padded
     cis/trans         per marked double bond: 12 + 12 bit terminal numbers, 7 zero bits, 1 bit sign
   A molecule m: m.atoms[k] = [num, z, iso, chg, rad, h (-1 unknown), st (0 none / 1 True / 2 False), x, y ([zero, s, e, m]: sign,
   frexp exponent, floor(frexp mantissa * 2^25)), nbr, ord, bst (per neighbour), term (per neighbour: <<tn, tm>> for a marked bond)].
   Reaction frame:  0x01 | reactants | reagents | products | the molecule packs (reactants, reagents, products). *)
EXTENDS Naturals, Integers, Sequences, FiniteSets, TLC, Json

T == JsonDeserialize("tables.json")      \* T.mdl[z]: reference isotope of element z (exported from the working tree)

RECURSIVE Flat(_, _)
Flat(ss, k) == IF k > Len(ss) THEN <<>> ELSE ss[k] \o Flat(ss, k + 1)
Hi(n) == n \div 16
Lo4(n) == n % 16
Pow2(e) == 2 ^ e
\* IEEE half bits of a coordinate, by integer arithmetic on the frexp decomposition; out of range -> 0 (as documented)
HalfBits(v) ==
  IF v.zero = 1 THEN 0
  ELSE LET e1 == v.e - 1 IN
       IF e1 >= 16 \/ e1 < -25 THEN 0
       ELSE IF e1 >= -14 THEN v.s * 32768 + (e1 + 15) * 1024 + (v.m - 16777216) \div 16384
       ELSE v.s * 32768 + v.m \div Pow2(0 - e1)
Header(m, nct) == <<2, Hi(Len(m.atoms)), Lo4(Len(m.atoms)) * 16 + nct \div 256, nct % 256>>
StereoNib(a) == IF a.st = 0 THEN 0
                ELSE IF Len(a.nbr) = 2 THEN (IF a.st = 1 THEN 3 ELSE 2)       \* allene 0011 / 0010
                ELSE (IF a.st = 1 THEN 12 ELSE 8)                                  \* tetrahedron 1100 / 1000
IsoField(a) == IF a.iso = 0 THEN 0 ELSE a.iso - T.mdl[a.z] + 16
Hcr(a) == (IF a.h = -1 THEN 7 ELSE a.h) * 32 + (a.chg + 4) * 2 + a.rad
AtomRec(a) == LET hx == HalfBits(a.x) hy == HalfBits(a.y) IN
              <<Hi(a.num), Lo4(a.num) * 16 + Len(a.nbr),
                StereoNib(a) * 16 + IsoField(a) \div 2, (IsoField(a) % 2) * 128 + a.z,
                hx \div 256, hx % 256, hy \div 256, hy % 256, Hcr(a)>>
Conn(m) == Flat([k \in 1..Len(m.atoms) |-> m.atoms[k].nbr], 1)
RECURSIVE Pairs12(_, _)
Pairs12(q, k) == IF k > Len(q) THEN <<>>
                 ELSE <<Hi(q[k]), Lo4(q[k]) * 16 + q[k + 1] \div 256, q[k + 1] % 256>> \o Pairs12(q, k + 2)
PosMap(m) == TLCEval([num \in { m.atoms[k].num : k \in 1..Len(m.atoms) } |-> CHOOSE k \in 1..Len(m.atoms) : m.atoms[k].num = num])
\* per bond, at its first end in atom order: <<order code, stereo, terminals>>
FirstEnds(m) == LET pm == PosMap(m) IN TLCEval(Flat([k \in 1..Len(m.atoms) |->
                   LET a == m.atoms[k] IN
                   Flat([j \in 1..Len(a.nbr) |-> IF pm[a.nbr[j]] > k THEN << <<a.ord[j] - 1, a.bst[j], a.term[j]>> >> ELSE <<>>], 1)], 1))
RECURSIVE Bits3(_, _)
Bits3(q, k) == IF k > Len(q) THEN <<>> ELSE <<(q[k][1] \div 4) % 2, (q[k][1] \div 2) % 2, q[k][1] % 2>> \o Bits3(q, k + 1)
RECURSIVE ToBytes(_, _)
ToBytes(b, k) == IF k > Len(b) THEN <<>>
                 ELSE LET g(j) == IF k + j <= Len(b) THEN b[k + j] ELSE 0
                      IN <<g(0)*128 + g(1)*64 + g(2)*32 + g(3)*16 + g(4)*8 + g(5)*4 + g(6)*2 + g(7)>> \o ToBytes(b, k + 8)
CtBlock(fe) == Flat([k \in 1..Len(fe) |-> IF fe[k][2] = 0 THEN <<>>
                                          ELSE <<Hi(fe[k][3][1]), Lo4(fe[k][3][1]) * 16 + fe[k][3][2] \div 256, fe[k][3][2] % 256, IF fe[k][2] = 1 THEN 1 ELSE 0>>], 1)
Encode(m) == LET fe == FirstEnds(m)
                 nct == Cardinality({ k \in 1..Len(fe) : fe[k][2] # 0 })
             IN TLCEval(Header(m, nct) \o Flat([k \in 1..Len(m.atoms) |-> AtomRec(m.atoms[k])], 1) \o Pairs12(Conn(m), 1)
                        \o ToBytes(Bits3(fe, 1), 1) \o CtBlock(fe))
\* the earlier layout (header byte 0), still accepted by the decoder: everything as above except the bond-order block, which holds
\* five orders per 16 bits (one zero bit, then 5 x 3 bits), the last group zero-padded
RECURSIVE Groups5(_, _)
Groups5(q, k) == IF k > Len(q) THEN <<>>
                 ELSE LET o(j) == IF k + j <= Len(q) THEN q[k + j][1] ELSE 0
                          w == o(0) * 4096 + o(1) * 512 + o(2) * 64 + o(3) * 8 + o(4)
                      IN <<w \div 256, w % 256>> \o Groups5(q, k + 5)
EncodeV0(m) == LET fe == FirstEnds(m)
                   nct == Cardinality({ k \in 1..Len(fe) : fe[k][2] # 0 })
                   h == Header(m, nct)
               IN TLCEval(<<0, h[2], h[3], h[4]>> \o Flat([k \in 1..Len(m.atoms) |-> AtomRec(m.atoms[k])], 1) \o Pairs12(Conn(m), 1)
                          \o Groups5(fe, 1) \o CtBlock(fe))
Frame(r, a, p, packs) == <<1, r, a, p>> \o Flat(packs, 1)
\* limits of the format
Representable(m) == /\ Len(m.atoms) \in 1..4095
                    /\ \A k \in 1..Len(m.atoms) : LET a == m.atoms[k] IN
                         a.num \in 1..4095 /\ Len(a.nbr) <= 15 /\ a.z \in 1..118 /\ a.chg \in -4..4 /\ a.h \in -1..6
                         /\ (a.iso = 0 \/ IsoField(a) \in 1..31)
=============================================================================
