---------------------------------- MODULE Match ----------------------------------
(* Substructure search, declaratively (C07), and the meaning of query atoms / bonds (C08).

   pattern atom  [kind ("mol" | "elem" | "list" | "any" | "metal"), zs (atomic numbers; one for mol / elem), i (isotope, 0 = unset),
                  c, r, nb, hyb, rs (<<0>> = not in a ring), hs, het  (sequences; empty = unconstrained)]
   target atom   [z, i, c, r, h, nb (neighbour count), het (heteroatom count), hyb (1..4), rsz (ring sizes)]
   pattern bond  <<a, b, orders (sequence), inring (-1 any / 0 / 1)>>        target bond  <<a, b, order, inring>>
   An embedding is an injective map f (sequence: pattern position -> target position) such that every pattern atom matches its
   image, every pattern bond matches the image bond, images of two atoms of ONE pattern component are bonded only if the
   pattern atoms are, and different pattern components lie in different target components. *)
EXTENDS Graphs

In(x, seq) == \E k \in 1..Len(seq) : seq[k] = x
RECURSIVE SetToSeqAny(_)
SetToSeqAny(S) == IF S = {} THEN <<>> ELSE LET x == CHOOSE x \in S : TRUE IN <<x>> \o SetToSeqAny(S \ {x})
NonMetals == {1, 2, 5, 6, 7, 8, 9, 10, 14, 15, 16, 17, 18, 32, 33, 34, 35, 36, 51, 52, 53, 54, 85, 86, 118}
IsMetal(z) == z \notin NonMetals
RingOK(q, a) == Len(q.rs) = 0 \/ (IF q.rs[1] = 0 THEN Len(a.rsz) = 0 ELSE \E k \in 1..Len(a.rsz) : In(a.rsz[k], q.rs))
Common(q, a) == /\ (Len(q.nb) = 0 \/ In(a.nb, q.nb))
                /\ (Len(q.hyb) = 0 \/ In(a.hyb, q.hyb))
Extended(q, a) == /\ q.c = a.c /\ q.r = a.r /\ Common(q, a) /\ RingOK(q, a)
                  /\ (Len(q.hs) = 0 \/ In(a.h, q.hs))
                  /\ (Len(q.het) = 0 \/ In(a.het, q.het))
AtomMatches(q, a) ==
  CASE q.kind = "mol"   -> q.zs[1] = a.z /\ q.i = a.i /\ q.c = a.c /\ q.r = a.r
    [] q.kind = "elem"  -> q.zs[1] = a.z /\ (q.i = 0 \/ q.i = a.i) /\ Extended(q, a)
    [] q.kind = "list"  -> In(a.z, q.zs) /\ Extended(q, a)
    [] q.kind = "any"   -> Extended(q, a)
    [] q.kind = "metal" -> IsMetal(a.z) /\ Common(q, a)
BondMatches(qb, tb) == In(tb[3], qb[3]) /\ (qb[4] = -1 \/ qb[4] = tb[4])
\* ring membership of a target bond, determined from the recorded ring basis: both ends lie in one ring of it
DerivedBondInRing(T, j) == IF \E q \in 1..Len(T.rings) : LET S == { T.rings[q][x] : x \in 1..Len(T.rings[q]) } IN T.bonds[j][1] \in S /\ T.bonds[j][2] \in S
                           THEN 1 ELSE 0
BondMatchesT(T, qb, j) == In(T.bonds[j][3], qb[3]) /\ (qb[4] = -1 \/ qb[4] = DerivedBondInRing(T, j))

(* ---- attributes of a target atom, determined from the recorded bonds and ring basis (not from the library's labels) ----
   T.atoms[a] = [z, i, c, r, h];  T.bonds[j] = <<a, b, order, inring>>;  T.rings = reported ring basis (validated by C06) *)
RealBonds(T, a) == { j \in Incident(T, a) : T.bonds[j][3] # 8 }
Count(T, a, o) == Cardinality({ j \in RealBonds(T, a) : T.bonds[j][3] = o })
DerivedHyb(T, a) == IF Count(T, a, 4) > 0 THEN 4
                    ELSE IF Count(T, a, 3) > 0 \/ Count(T, a, 2) >= 2 THEN 3
                    ELSE IF Count(T, a, 2) = 1 THEN 2 ELSE 1
DerivedNb(T, a) == Cardinality(RealBonds(T, a))
DerivedHet(T, a) == Cardinality({ j \in RealBonds(T, a) : T.atoms[Other(T, j, a)].z \notin {1, 6} })
DerivedRings(T, a) == LET S == { Len(T.rings[k]) : k \in { q \in 1..Len(T.rings) : \E x \in 1..Len(T.rings[q]) : T.rings[q][x] = a } }
                      IN SetToSeqAny(S)
Attr(T, a) == [z |-> T.atoms[a].z, i |-> T.atoms[a].i, c |-> T.atoms[a].c, r |-> T.atoms[a].r, h |-> T.atoms[a].h,
               nb |-> DerivedNb(T, a), het |-> DerivedHet(T, a), hyb |-> DerivedHyb(T, a), rsz |-> DerivedRings(T, a)]
Attrs(T) == TLCEval([a \in Nodes(T) |-> Attr(T, a)])

PNodes(P) == 1..Len(P.atoms)
PBond(P, a, b) == { j \in 1..Len(P.bonds) : {P.bonds[j][1], P.bonds[j][2]} = {a, b} }
TBond(T, a, b) == { j \in 1..Len(T.bonds) : {T.bonds[j][1], T.bonds[j][2]} = {a, b} }
RangeOf(f) == { f[k] : k \in 1..Len(f) }
\* pattern components and target components as labels (smallest member)
PComp(P) == TLCEval([a \in PNodes(P) |-> LET C == Reach(P, {a}, {}) IN CHOOSE m \in C : \A x \in C : m <= x])
TComp(T) == TLCEval([a \in Nodes(T) |-> LET C == Reach(T, {a}, {}) IN CHOOSE m \in C : \A x \in C : m <= x])

Cand(P, T, at, pc, tc, scope, f, k) ==
  { t \in scope : /\ t \notin RangeOf(f)
                  /\ AtomMatches(P.atoms[k], at[t])
                  /\ \A j \in 1..(k - 1) :
                       IF pc[j] = pc[k]
                       THEN /\ tc[f[j]] = tc[t]
                            /\ LET pb == PBond(P, j, k) tb == TBond(T, f[j], t) IN
                                 IF pb = {} THEN tb = {}
                                 ELSE tb # {} /\ BondMatchesT(T, P.bonds[CHOOSE x \in pb : TRUE], CHOOSE x \in tb : TRUE)
                       ELSE tc[f[j]] # tc[t] }
RECURSIVE Ext(_, _, _, _, _, _, _, _)
Ext(P, T, at, pc, tc, scope, k, S) ==
  IF k > Len(P.atoms) THEN S
  ELSE Ext(P, T, at, pc, tc, scope, k + 1, TLCEval(UNION { { Append(f, t) : t \in Cand(P, T, at, pc, tc, scope, f, k) } : f \in S }))
\* all embeddings inside `scope` (a set of target positions)
Embeddings(P, T, scope) == Ext(P, T, Attrs(T), PComp(P), TComp(T), scope, 1, {<<>>})
=============================================================================
