---------------------------------- MODULE Template ----------------------------------
(* C16: applying a transformation template at one match, as a function of the input.
   structure S:  [atoms : Seq([n, z, i, c, r, h, p]), bonds : Seq(<<a, b, order>>)]   (p: tetrahedral parity w.r.t. ascending numbers, 2 = none)
   template T:   pat  : Seq([n, masked])                 the atoms the pattern names
                 rep  : [atoms : Seq([n, any, z, i, c, r, h]), bonds : Seq(<<a, b, order>>)]   the replacement (h = -1: not stated)
                 del  : delete matched atoms that the replacement does not name;  fix : 1 when kekule() + thiele() run on the product
   match mu:     Seq(<<pattern atom, structure atom>>)
   The product: replacement atoms that are matched keep the number of their match (an any-atom keeps element and isotope, a stated
   element replaces them; charge and radical state always come from the replacement), new replacement atoms get the numbers after the
   largest one in order; bonds among replacement atoms are exactly the replacement's; matched, unmasked atoms that the replacement does
   not name are deleted, together with every fragment that hung on them and has lost its last connection to a remaining matched atom;
   every other atom and bond is unchanged. *)
EXTENDS Integers, Sequences, FiniteSets, TLC

Rng(s) == { s[k] : k \in 1..Len(s) }
Nums(S) == { a.n : a \in Rng(S.atoms) }
AtomAt(S, n) == CHOOSE a \in Rng(S.atoms) : a.n = n
NbrsOf(S, n) == { IF b[1] = n THEN b[2] ELSE b[1] : b \in { e \in Rng(S.bonds) : e[1] = n \/ e[2] = n } }
MuFn(mu) == [p \in { x[1] : x \in Rng(mu) } |-> (CHOOSE x \in Rng(mu) : x[1] = p)[2]]
MaxOf(X) == CHOOSE m \in X : \A x \in X : x <= m

\* atoms reachable from a set without entering `avoid`
RECURSIVE Grow(_, _, _)
Grow(S, front, avoid) == LET nxt == front \cup { y \in UNION { NbrsOf(S, x) : x \in front } : y \notin avoid }
                         IN IF nxt = front THEN front ELSE Grow(S, nxt, avoid)
Deleted(S, T, mu) ==
  LET f == MuFn(mu)
      named == { a.n : a \in Rng(T.rep.atoms) }
      d0 == IF T.del THEN { f[p.n] : p \in { q \in Rng(T.pat) : q.masked = 0 /\ q.n \notin named } } ELSE {}
      remain == { f[p] : p \in DOMAIN f } \ d0
      starts == UNION { NbrsOf(S, x) : x \in d0 } \ (d0 \cup remain)
      comp(n) == Grow(S, {n}, d0)
  IN d0 \cup UNION { IF comp(n) \cap remain = {} THEN comp(n) ELSE {} : n \in starts }

\* numbers of the replacement atoms in the product
NewNumber(S, T, mu, n) ==
  LET f == MuFn(mu)
      fresh == [k \in 1..Len(T.rep.atoms) |-> T.rep.atoms[k].n \notin DOMAIN f]
      pos == CHOOSE k \in 1..Len(T.rep.atoms) : T.rep.atoms[k].n = n
  IN IF n \in DOMAIN f THEN f[n] ELSE MaxOf(Nums(S)) + Cardinality({ k \in 1..pos : fresh[k] })
Expected(S, T, mu) ==
  LET f == MuFn(mu)
      dl == Deleted(S, T, mu)
      num(n) == NewNumber(S, T, mu, n)
      patched == { num(a.n) : a \in Rng(T.rep.atoms) }
      patom(a) == LET old == a.n \in DOMAIN f IN
                  [n |-> num(a.n),
                   z |-> IF a.any = 1 THEN AtomAt(S, f[a.n]).z ELSE a.z,
                   i |-> IF a.any = 1 THEN AtomAt(S, f[a.n]).i ELSE a.i,
                   c |-> a.c, r |-> a.r]
      frame == { a \in Rng(S.atoms) : a.n \notin patched /\ a.n \notin dl }
  IN [patched |-> { patom(a) : a \in Rng(T.rep.atoms) },
      frame |-> { [n |-> a.n, z |-> a.z, i |-> a.i, c |-> a.c, r |-> a.r, h |-> a.h] : a \in frame },
      stated |-> { <<num(a.n), a.h>> : a \in { x \in Rng(T.rep.atoms) : x.n \notin DOMAIN f /\ x.h >= 0 } },
      bonds |-> { <<IF num(b[1]) < num(b[2]) THEN num(b[1]) ELSE num(b[2]), IF num(b[1]) < num(b[2]) THEN num(b[2]) ELSE num(b[1]), b[3]>> : b \in Rng(T.rep.bonds) }
                \cup { b \in Rng(S.bonds) : b[1] \notin dl /\ b[2] \notin dl /\ ~(b[1] \in patched /\ b[2] \in patched) },
      deleted |-> dl]
(* a template that deletes an atom whose unnamed neighbour survives leaves that neighbour with an open valence by construction
   (the frame condition keeps its hydrogens): the valence clause does not apply to such a match *)
LeavesOpenValence(S, T, mu) == LET dl == Deleted(S, T, mu)  img == { x[2] : x \in Rng(mu) } IN
                               \E d \in dl : \E n \in NbrsOf(S, d) : n \notin dl /\ n \notin img
Core(a) == [n |-> a.n, z |-> a.z, i |-> a.i, c |-> a.c, r |-> a.r]
Full(a) == [n |-> a.n, z |-> a.z, i |-> a.i, c |-> a.c, r |-> a.r, h |-> a.h]
If(cond, name) == IF cond THEN {name} ELSE {}
ApplyVerdict(S, T, mu, P) ==
  LET e == Expected(S, T, mu)
      pn == { x.n : x \in e.patched }
  IN If(Nums(P) # pn \cup { x.n : x \in e.frame }, IF \E n \in Nums(S) \ Nums(P) : n \notin e.deleted THEN "an-atom-that-is-not-detached-was-removed"
                                                    ELSE IF \E n \in e.deleted : n \in Nums(P) THEN "a-deleted-or-detached-atom-survived" ELSE "product-atom-numbers")
     \cup If(\E x \in e.patched : x.n \in Nums(P) /\ Core(AtomAt(P, x.n)) # x, "replacement-atom-attributes")
     \* (with ring fixing on, kekule() re-derives the hydrogens of an aromatic atom that the template left with an open valence)
     \cup If(\E x \in e.frame : x.n \in Nums(P) /\ (IF T.fix = 1 /\ \E d \in e.deleted : x.n \in NbrsOf(S, d) THEN Core(AtomAt(P, x.n)) # Core(x) ELSE Full(AtomAt(P, x.n)) # x),
             "unnamed-atom-changed")
     \cup If(\E s \in e.stated : s[1] \in Nums(P) /\ AtomAt(P, s[1]).h # s[2], "stated-hydrogen-count-of-a-new-atom")
     \cup If(Rng(P.bonds) # e.bonds, "product-bonds")
     \cup If(Len(P.atoms) # Cardinality(Nums(P)), "atom-number-twice")
     \* configuration of atoms the template does not name and whose neighbours are all unnamed survivors: unchanged
     \cup If(\E x \in e.frame : /\ x.n \in Nums(P) /\ AtomAt(S, x.n).p # 2 /\ NbrsOf(S, x.n) = NbrsOf(P, x.n)
                               /\ AtomAt(P, x.n).p \notin {AtomAt(S, x.n).p, 2}, "configuration-of-an-unnamed-atom-inverted")
=============================================================================
