--------------------------------- MODULE Normalize ---------------------------------
(* C14: normalisation as a state machine.  The abstract state of a molecule under normalisation is
     [heavy : Seq(<<z, isotope, count>>)   non-hydrogen atoms and labelled hydrogens (D, T) as a multiset,
      q     : net charge,   h : all hydrogens (implicit counts + hydrogen atoms; -1 when a count is unknown),
      bad   : number of atoms in valence error,   xh : hydrogen atoms that are plain ligands of a heavy atom,
      ih    : implicit hydrogens, s : canonical string, g : [atoms : Seq([n, z, i, c, r, h]), bonds : Seq(<<a, b, order>>)]]
   and every library call is one action  pre --op--> post.  The laws of the property are action properties: *)
EXTENDS Integers, Sequences, FiniteSets, TLC

Rearrangements == {"canonicalize", "canonicalize-keep-kekule", "standardize", "fix_resonance", "standardize_charges", "explicify", "implicify", "kekule", "thiele"}
ProtonMoves == {"neutralize"}
Valid(st) == st.bad = 0 /\ st.h >= 0
If(cond, name) == IF cond THEN {name} ELSE {}

(* recorded finding: four group rules are written for spellings without hydrogens ([N+]=N, [N+][C-]=O, [O-][N+], [C]=O radical); the
   reader fills hydrogens in, the rule still matches and the hydrogens disappear with the bond order change *)
HydrogenDroppingRules == {"[N;D1;z2;x1;+]=[N;D2;x1;z2]", "[C;D2;z2;x2;-]([N;D1,D2;z1;+])=[O;D1]", "[O;D1;z1;x1;-][N;D2;z1;+]", "[C;D1;x1;z2]=[O;D1] |^1:0|"}
(* refusal contract: implicify_hydrogens (and canonicalize, which calls it) refuses molecules in which a hydrogen atom has two bonds
   (bridging hydrogens after B-H-B standardisation) with ValenceError and the advice to call remove_coordinate_bonds() *)
Refusable(pre, step) == step.op \in {"implicify", "canonicalize", "canonicalize-keep-kekule", "tautomers"} /\ step.exc = "ValenceError" /\ (pre.bh > 0 \/ step.st.bh > 0)
(* one step *)
StepLaws(pre, step) ==
  LET post == step.st  op == step.op IN
  IF step.exc # "" THEN If(Valid(pre) /\ ~Refusable(pre, step), op \o ":fails-on-valid-input:" \o step.exc)
  ELSE IF post.broken = 1 THEN {op \o ":leaves-an-inconsistent-object"}
  ELSE If(post.heavy # pre.heavy, op \o ":heavy-atoms-changed")
       \cup If(Valid(pre) /\ post.bad # 0, op \o ":valence-error-produced")
       \cup If(Valid(pre) /\ Valid(post) /\ op \in Rearrangements /\ post.q # pre.q, op \o ":net-charge-changed")
       \cup If(Valid(pre) /\ Valid(post) /\ op \in Rearrangements /\ post.h # pre.h,
               IF { step.rules[k] : k \in 1..Len(step.rules) } \cap HydrogenDroppingRules # {} THEN "a-rule-written-for-hydrogen-free-spellings-drops-hydrogens"
               ELSE op \o ":hydrogen-count-changed")
       \cup If(Valid(pre) /\ Valid(post) /\ op \in ProtonMoves /\ post.q - pre.q # post.h - pre.h, op \o ":charge-and-hydrogens-not-moved-together")
       \cup If(op = "canonicalize-keep-kekule" /\ post.kek # 1, "canonicalize-keep-kekule:aromatic-bonds-left")
       \cup If(op = "explicify" /\ Valid(pre) /\ post.ih # 0, "explicify:implicit-hydrogens-left")
       \cup If(op = "explicify" /\ Valid(pre) /\ step.ret # pre.ih, "explicify:returned-count")
       \cup If(op = "implicify" /\ step.ret # pre.xh - post.xh, "implicify:returned-count")

SameState(a, b) == a.g = b.g /\ a.s = b.s
(* two consecutive equal calls: the second changes nothing *)
(* recorded finding: the documented spelling of azoxy oxides, C[N+]([O-])=[N+]([O-])C, is rewritten by resonance fixing on the next call *)
AzoxyOxide(g) == \E k \in 1..Len(g.bonds) : LET b == g.bonds[k]
                                                 at(n) == CHOOSE a \in { g.atoms[j] : j \in 1..Len(g.atoms) } : a.n = n IN
                     /\ b[3] = 2 /\ at(b[1]).z = 7 /\ at(b[2]).z = 7 /\ at(b[1]).c = 1 /\ at(b[2]).c = 1
                     /\ \E j \in 1..Len(g.bonds) : LET e == g.bonds[j] IN
                           /\ e[3] = 1 /\ {e[1], e[2]} \cap {b[1], b[2]} # {} /\ \E x \in {e[1], e[2]} \ {b[1], b[2]} : at(x).c = -1
Idempotence(pre, first, second) ==
  If(first.exc = "" /\ second.exc = "" /\ first.op = second.op /\ first.ft = second.ft /\ (Valid(pre) \/ pre.doc = 1) /\ ~SameState(first.st, second.st),
     IF AzoxyOxide(first.st.g) THEN "resonance-fixing-rewrites-the-azoxy-oxide-spelling" ELSE first.op \o ":not-idempotent")
(* explicify then implicify on a molecule without ligand hydrogen atoms gives the molecule back; the reverse on a molecule without implicit hydrogens *)
Inverse(pre, first, second) ==
  If(first.exc = "" /\ second.exc = "" /\ first.op = "explicify" /\ second.op = "implicify" /\ Valid(pre) /\ pre.xh = 0 /\ pre.kek = 1 /\ ~SameState(pre, second.st), "implicify-does-not-undo-explicify")
  \cup If(first.exc = "" /\ second.exc = "" /\ first.op = "implicify" /\ second.op = "explicify" /\ Valid(pre) /\ pre.ih = 0 /\ pre.kek = 1 /\ pre.s # second.st.s, "explicify-does-not-undo-implicify")

(* renumbering the input renumbers the output: f maps numbers of the original to numbers of the twin; atoms created by an operation
   are outside f and are compared through the canonical string.  Which Kekule structure an aromatic ring gets depends on the atom
   order (any one is right), so states are compared in their aromatic normal form (ga, sa). *)
MapOf(f) == [n \in { p[1] : p \in { f[k] : k \in 1..Len(f) } } |-> (CHOOSE p \in { f[k] : k \in 1..Len(f) } : p[1] = n)[2]]
\* the non-hydrogen atoms of D (hydrogen atoms come and go with explicify / implicify and reuse numbers) and the bonds among them
Heavy(g, D) == { g.atoms[j].n : j \in { k \in 1..Len(g.atoms) : g.atoms[k].n \in D /\ g.atoms[k].z # 1 } }
Restrict(g, D, mp) == LET HD == Heavy(g, D) IN
                      [atoms |-> { [a EXCEPT !.n = mp[a.n]] : a \in { g.atoms[k] : k \in { j \in 1..Len(g.atoms) : g.atoms[j].n \in HD } } },
                       bonds |-> { {<<mp[b[1]], b[3]>>, <<mp[b[2]], b[3]>>} : b \in { g.bonds[k] : k \in { j \in 1..Len(g.bonds) : g.bonds[j][1] \in HD /\ g.bonds[j][2] \in HD } } }]
Ident(D) == [n \in D |-> n]
(* asym: no two atoms of the input are constitutionally equivalent.  Where some are, an operation that has to pick one of them (the
   ring atom of a cyclopentadienide that carries the charge) may pick another one in the twin: the results are then the same molecule
   up to a symmetry, which the canonical string decides; number by number they are compared only for inputs without symmetry. *)
\* (a class-wise comparison would be unsound: the operation may remove the very attribute that made two atoms different)
Equivariant(f, a, b, asym, cls) ==
  LET mp == MapOf(f)  D == DOMAIN mp  E == { mp[n] : n \in D }
  IN
  /\ a.sa = b.sa
  /\ (asym => Restrict(a.ga, D, mp) = Restrict(b.ga, E, Ident(E)))

(* tautomer enumeration: every form is a rearrangement of the input up to protons moved by neutralisation, all forms are different *)
FormLaws(pre, forms) ==
  If(\E k \in 1..Len(forms) : forms[k].heavy # pre.heavy, "tautomers:heavy-atoms-changed")
  \cup If(Valid(pre) /\ \E k \in 1..Len(forms) : forms[k].bad # 0, "tautomers:valence-error-produced")
  \cup If(Valid(pre) /\ \E k \in 1..Len(forms) : Valid(forms[k]) /\ forms[k].q - forms[k].h # pre.q - pre.h, "tautomers:charge-and-hydrogens-not-moved-together")
  \cup If(\E j, k \in 1..Len(forms) : j < k /\ forms[j].s = forms[k].s, "tautomers:the-same-form-twice")
=============================================================================
