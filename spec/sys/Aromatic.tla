--------------------------------- MODULE Aromatic ---------------------------------
(* Kekule and aromatic forms as relations between recorded molecules (C05).
   A recorded molecule: atoms [z, c, i, r, h] (positions), bonds <<a, b, order>> with a < b, sorted.
   SameSkeleton: same atoms with the same attributes (hydrogens included) and the same bonded pairs.
   Only bonds that are aromatic (4) in the aromatic form may differ between two forms. *)
EXTENDS Valence, Rings

Pairs(m) == { <<m.bonds[j][1], m.bonds[j][2]>> : j \in 1..Len(m.bonds) }
Ord(m, p) == m.bonds[CHOOSE j \in 1..Len(m.bonds) : <<m.bonds[j][1], m.bonds[j][2]>> = p][3]
SameAtoms(g, h) == Len(g.atoms) = Len(h.atoms) /\ \A k \in 1..Len(g.atoms) :
                     g.atoms[k].z = h.atoms[k].z /\ g.atoms[k].c = h.atoms[k].c /\ g.atoms[k].i = h.atoms[k].i /\ g.atoms[k].r = h.atoms[k].r
SameHydrogens(g, h) == \A k \in 1..Len(g.atoms) : g.atoms[k].h = h.atoms[k].h
SameSkeleton(g, h) == SameAtoms(g, h) /\ Pairs(g) = Pairs(h)
IsKekule(k) == \A j \in 1..Len(k.bonds) : k.bonds[j][3] # 4
\* k is a localised form of the aromatic form a: differs from it exactly on the aromatic bonds, which become 1 or 2
LocalisedFormOf(k, a) == /\ SameSkeleton(k, a) /\ IsKekule(k)
                         /\ \A p \in Pairs(a) : IF Ord(a, p) = 4 THEN Ord(k, p) \in {1, 2} ELSE Ord(k, p) = Ord(a, p)
\* every atom of k has a valence state with exactly its stored hydrogens (rule tables of the tree, documented semantics)
EnvOf(k, n) == [z |-> k.atoms[n].z, c |-> k.atoms[n].c, r |-> k.atoms[n].r,
                env |-> LET J == { j \in 1..Len(k.bonds) : n \in {k.bonds[j][1], k.bonds[j][2]} }
                            RECURSIVE S(_)
                            S(X) == IF X = {} THEN <<>> ELSE LET j == CHOOSE j \in X : TRUE IN
                                    << <<k.bonds[j][3], k.atoms[IF k.bonds[j][1] = n THEN k.bonds[j][2] ELSE k.bonds[j][1]].z>> >> \o S(X \ {j})
                        IN S(J)]
ValenceValid(k) == \A n \in 1..Len(k.atoms) : k.atoms[n].h >= 0 /\ AdmitsH(EnvOf(k, n), k.atoms[n].h)
\* recorded gap: ring systems with an unsaturated four-membered ring (biphenylene type)
Unsaturated4Ring(a) == \E q \in 1..Len(a.rings) : Len(a.rings[q]) = 4 /\
                          \E j \in 1..Len(a.bonds) : a.bonds[j][3] \in {2, 4} /\ {a.bonds[j][1], a.bonds[j][2]} \subseteq RingSet(a.rings[q])
(* Existence (the minimal one the model states): a ring of six neutral carbon atoms whose ring bonds alternate double / single in the
   Kekule form is a benzene ring and is aromatic in the aromatic form, whatever is fused or attached to it. *)
BondOrd(m, x, y) == LET S == { j \in 1..Len(m.bonds) : {m.bonds[j][1], m.bonds[j][2]} = {x, y} } IN IF S = {} THEN 0 ELSE m.bonds[CHOOSE j \in S : TRUE][3]
BenzeneRing(k, ring) ==
  /\ Len(ring) = 6
  /\ \A q \in 1..6 : k.atoms[ring[q]].z = 6 /\ k.atoms[ring[q]].c = 0 /\ k.atoms[ring[q]].r = 0
  /\ \/ \A q \in 1..6 : BondOrd(k, ring[q], ring[(q % 6) + 1]) = (IF q % 2 = 1 THEN 2 ELSE 1)
     \/ \A q \in 1..6 : BondOrd(k, ring[q], ring[(q % 6) + 1]) = (IF q % 2 = 1 THEN 1 ELSE 2)
BenzeneRingsAromatic(k, a) == \A q \in 1..Len(k.rings) : BenzeneRing(k, k.rings[q]) =>
                                \A j \in 1..6 : BondOrd(a, k.rings[q][j], k.rings[q][(j % 6) + 1]) = 4
=============================================================================
