----------------------------------- MODULE Mask -----------------------------------
(* The bit layout of the accelerated matcher (C09): four 64-bit words per molecule atom / query atom, as sets of bit positions
   (TLC integers are 32 bit).  Transcribed from the documented layout in isomorphism.py:
     word 1  bit 57-z for elements 1..56, bit 0 = "element is in word 2"      (bond bits 59..63 / ring bits 57,58 live on bonds)
     word 2  bits 0..3 hybridisation 1..4, bit 120-z for elements 57..116 (117, 118 share the bit of 116)
     word 3  bit 63 isotope unset / bit 54+(isotope - reference) ; bit 44 not radical / 45 radical ; bit 39+charge ;
             bit 30+hydrogens ; bit 15+neighbours ; bit heteroatoms
     word 4  bit 63 not in a ring / bit 65-r for every ring size r <= 65
   MaskAtomMatch is the test the compiled loop applies; the model-checked claim (MC_Mask) is
        MaskAtomMatch(EncQ(q), EncA(a))  <=>  Match!AtomMatches(q, a)      inside LayoutRange. *)
EXTENDS Match

Bits(S) == S
ZBits1(z) == IF z <= 56 THEN {57 - z} ELSE {0}
ZBits2(z) == IF z <= 56 THEN {} ELSE {120 - (IF z > 116 THEN 116 ELSE z)}
\* mdl: reference isotope of the element
EncA(a, mdl) ==
  [w1 |-> ZBits1(a.z),
   w2 |-> {a.hyb - 1} \cup ZBits2(a.z),
   w3 |-> (IF a.i # 0 THEN {a.i - mdl + 54} ELSE {63}) \cup {IF a.r = 1 THEN 45 ELSE 44}
          \cup {a.c + 39} \cup {(IF a.h < 0 THEN 0 ELSE a.h) + 30} \cup {a.nb + 15} \cup {a.het},
   w4 |-> LET rs == { a.rsz[k] : k \in { j \in 1..Len(a.rsz) : a.rsz[j] <= 65 } } IN
          IF rs = {} THEN {63} ELSE { 65 - r : r \in rs }]
SeqBits(seq, off, all) == IF Len(seq) = 0 THEN all ELSE { seq[k] + off : k \in 1..Len(seq) }
AnyMetalW1 == { 57 - z : z \in { x \in 1..56 : IsMetal(x) } } \cup {0}
AnyMetalW2 == { 120 - z : z \in { x \in 57..116 : IsMetal(x) } }
EncQ(q, mdl) ==
  IF q.kind = "metal"
  THEN [w1 |-> AnyMetalW1,
        w2 |-> AnyMetalW2 \cup SeqBits(q.hyb, -1, 0..3),
        w3 |-> (0..14) \cup (30..63) \cup SeqBits(q.nb, 15, 15..29),
        w4 |-> 0..63]
  ELSE
  [w1 |-> IF q.kind = "any" THEN 0..56 ELSE UNION { ZBits1(q.zs[k]) : k \in 1..Len(q.zs) },
   w2 |-> (IF q.kind = "any" THEN 4..63 ELSE UNION { ZBits2(q.zs[k]) : k \in 1..Len(q.zs) }) \cup SeqBits(q.hyb, -1, 0..3),
   w3 |-> (IF q.kind \in {"elem", "mol"} /\ q.i # 0 THEN {q.i - mdl + 54} \cup {IF q.r = 1 THEN 45 ELSE 44}
           ELSE (46..63) \cup {IF q.r = 1 THEN 45 ELSE 44})
          \cup {q.c + 39} \cup SeqBits(q.hs, 30, 30..34) \cup SeqBits(q.nb, 15, 15..29) \cup SeqBits(q.het, 0, 0..14),
   w4 |-> IF Len(q.rs) = 0 THEN 0..63
          ELSE IF q.rs[1] = 0 THEN {63}
          ELSE LET rs == { q.rs[k] : k \in { j \in 1..Len(q.rs) : q.rs[j] <= 65 } } IN IF rs = {} THEN {63} ELSE { 65 - r : r \in rs }]
MaskAtomMatch(m, b) == m.w1 \cap b.w1 # {} /\ b.w2 \subseteq m.w2 /\ b.w3 \subseteq m.w3 /\ m.w4 \cap b.w4 # {}
\* all bits must fit a 64-bit word
WordOK(w) == w \subseteq 0..63
LayoutRange(a, mdl) == /\ a.h \in 0..4 /\ a.nb \in 0..14 /\ a.het \in 0..14 /\ a.c \in -4..4 /\ a.hyb \in 1..4
                       /\ (a.i = 0 \/ (a.i - mdl) \in -8..8) /\ a.z \in 1..116
                       /\ \A k \in 1..Len(a.rsz) : a.rsz[k] \in 3..65
QueryRange(q, mdl) == /\ \A k \in 1..Len(q.zs) : q.zs[k] \in 1..116
                      /\ (q.i = 0 \/ (q.i - mdl) \in -8..8)
                      /\ \A k \in 1..Len(q.hs) : q.hs[k] \in 0..4
                      /\ \A k \in 1..Len(q.nb) : q.nb[k] \in 0..14
                      /\ \A k \in 1..Len(q.het) : q.het[k] \in 0..14
                      /\ \A k \in 1..Len(q.rs) : q.rs[k] \in (3..65) \cup {0}
=============================================================================
