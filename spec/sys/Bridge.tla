----------------------------------- MODULE Bridge -----------------------------------
(* C20: the RDKit bridge.  Both toolkits' objects are projected into the same abstract molecule (positions follow the atom order,
   which both conversions keep): atoms [z, i, c, r, h (total hydrogens on the atom that are not explicit atoms), map], bonds <<a, b, order>>
   (4 = aromatic), xy (coordinates * 10^4).  ToRDKit and FromRDKit are stuttering steps on this projection; configuration is judged,
   as the property states, by canonical strings: RDKit's on the RDKit side, the library's on the other.
   record: [g (chython molecule m), tr (projection of to_rdkit(m)), bk (projection of from_rdkit(to_rdkit(m))),
            rs_conv / rs_ref (RDKit canonical SMILES of to_rdkit(m) / of RDKit's own reading of str(m)), with and without stereo (suffix 0),
            g0 / tr0 (the same with keep_mapping=False: no map numbers), dative (the molecule has coordinate bonds: RDKit cannot read the
            library's string for it, so only the projections are compared),
            r0 (projection of an RDKit molecule read from text), fr (projection of from_rdkit(r0)), cs_conv / cs_ref (chython canonical
            string of from_rdkit(r0) / of chython's own reading of RDKit's SMILES of r0), rr (RDKit canonical of to_rdkit(from_rdkit(r0))),
            rr_ref (RDKit canonical of r0), dom (projection with parities / rings for the symmetry domain), exc] *)
EXTENDS Sym, Json
CONSTANT CH
R == JsonDeserialize("data.json")
N == Len(R)
VARIABLES c, i
vars == <<c, i>>
If(cond, name) == IF cond THEN {name} ELSE {}
Pairs(p) == { <<p.bonds[j][1], p.bonds[j][2]>> : j \in 1..Len(p.bonds) }
(* RDKit sanitises what it is given and so may answer in its own aromatic form: an aromatic bond on one side may face a single or double
   bond on the other; the constitution clause (canonical strings) decides that the two forms are one structure.  When neither conversion
   re-perceives aromaticity (exact), the orders are equal. *)
OrdersAgree(a, b, exact) == a = b \/ (~exact /\ ((a = 4 /\ b \in {1, 2}) \/ (b = 4 /\ a \in {1, 2})))
SameAtoms(p, q, what, exact) ==
  IF Len(p.atoms) # Len(q.atoms) THEN {what \o ":atom-count"}
  ELSE If(\E k \in 1..Len(p.atoms) : p.atoms[k].z # q.atoms[k].z, what \o ":element")
       \cup If(\E k \in 1..Len(p.atoms) : p.atoms[k].i # q.atoms[k].i, what \o ":isotope")
       \cup If(\E k \in 1..Len(p.atoms) : p.atoms[k].c # q.atoms[k].c, what \o ":charge")
       \cup If(\E k \in 1..Len(p.atoms) : p.atoms[k].r # q.atoms[k].r, what \o ":radical")
       \cup If(\E k \in 1..Len(p.atoms) : p.atoms[k].h # q.atoms[k].h, what \o ":hydrogens")
       \cup If(\E k \in 1..Len(p.atoms) : p.atoms[k].map # q.atoms[k].map, what \o ":atom-map")
       \cup If(\E k \in 1..Len(p.atoms) : p.atoms[k].x # q.atoms[k].x \/ p.atoms[k].y # q.atoms[k].y, what \o ":coordinates")
       \cup If(Pairs(p) # Pairs(q), what \o ":bonds")
       \cup If(Pairs(p) = Pairs(q) /\ \E j \in 1..Len(p.bonds), k \in 1..Len(q.bonds) :
                  /\ p.bonds[j][1] = q.bonds[k][1] /\ p.bonds[j][2] = q.bonds[k][2]
                  /\ ~OrdersAgree(p.bonds[j][3], q.bonds[k][3], exact), what \o ":bond-order")
(* a coordinate bond between a metal and a main-group atom points at the metal in the RDKit molecule (_inorganic of utils/rdkit.py) *)
MainGroup == {1, 2, 6, 7, 8, 9, 10, 14, 15, 16, 17, 18, 32, 33, 34, 35, 36, 51, 52, 53, 54}
DativeVerdict(p) == If(\E k \in 1..Len(p.dat) : p.atoms[p.dat[k][1]].z \notin MainGroup /\ p.atoms[p.dat[k][2]].z \in MainGroup, "to_rdkit:coordinate-bond-points-away-from-the-metal")
(* RDKit gives some metal ions unpaired electrons that its SMILES does not spell ([Cu+2]); the library's reading of that text (a2) then
   is not the molecule RDKit holds, and the string comparison of from_rdkit has no reference: the field comparison still applies. *)
RadicalsInferred(r) == \E z \in { r.r0.atoms[k].z : k \in 1..Len(r.r0.atoms) } :
    Cardinality({ k \in 1..Len(r.r0.atoms) : r.r0.atoms[k].z = z /\ r.r0.atoms[k].r = 1 }) # Cardinality({ k \in 1..Len(r.a2.atoms) : r.a2.atoms[k].z = z /\ r.a2.atoms[k].r = 1 })
Verdict(r) ==
  IF r.exc # "" THEN {"exception:" \o r.exc}
  ELSE LET dom == InDomainC01(r.dom) IN
       SameAtoms(r.g, r.tr, "to_rdkit", FALSE) \cup DativeVerdict(r.tr)
       \cup SameAtoms(r.g, r.bk, "from_rdkit(to_rdkit)", FALSE)
       \cup (IF r.dative THEN {} ELSE SameAtoms(r.r0, r.fr, "from_rdkit", TRUE))
       \cup SameAtoms(r.g0, r.tr0, "to_rdkit(keep_mapping=False)", FALSE)
       \cup If(dom /\ r.bk_s # r.m_s, "from_rdkit(to_rdkit):another-configuration")
       \cup If(~r.dative /\ r.rs_conv0 # r.rs_ref0, "to_rdkit:rdkit-sees-another-constitution")
       \cup If(~r.dative /\ dom /\ r.rs_conv # r.rs_ref, "to_rdkit:rdkit-sees-another-configuration")
       \cup If(~RadicalsInferred(r) /\ r.cs_conv0 # r.cs_ref0, "from_rdkit:another-constitution")
       \cup If(~RadicalsInferred(r) /\ dom /\ r.cs_conv # r.cs_ref, "from_rdkit:another-configuration")
       \cup If(r.rr0 # r.rr_ref0, "to_rdkit(from_rdkit):another-constitution")
       \cup If(dom /\ r.rr # r.rr_ref, "to_rdkit(from_rdkit):another-configuration")
Init == c \in 0..(CH-1) /\ i = c + 1
Next == i + CH <= N /\ i' = i + CH /\ c' = c
Report == i > N \/ (/\ (Verdict(R[i]) = {} \/ PrintT(<<"VERDICT", i, Verdict(R[i])>>))
                    /\ (R[i].exc # "" \/ InDomainC01(R[i].dom) \/ PrintT(<<"INFO", i, "ood">>)))
=============================================================================
