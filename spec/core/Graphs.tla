--------------------------------- MODULE Graphs ---------------------------------
(* Molecules as recorded projections:  m.atoms[k] = [n, z, c, i, r, h, p, ...] (position k),  m.bonds[j] = <<a, b, order>>
   (positions), m.ct[j] = <<a, b, x, y, cis>>.  Operators used by several trace specifications. *)
EXTENDS Naturals, Integers, Sequences, FiniteSets, TLC

Nodes(m) == 1..Len(m.atoms)
BondIds(m) == 1..Len(m.bonds)
Other(m, j, n) == IF m.bonds[j][1] = n THEN m.bonds[j][2] ELSE m.bonds[j][1]
Incident(m, n) == { j \in BondIds(m) : m.bonds[j][1] = n \/ m.bonds[j][2] = n }
Nbrs(m, n) == { Other(m, j, n) : j \in Incident(m, n) }
NbrO(m, n) == { <<Other(m, j, n), m.bonds[j][3]>> : j \in Incident(m, n) }
EdgeSet(m) == { {m.bonds[j][1], m.bonds[j][2]} : j \in BondIds(m) }
OrderOf(m, a, b) == m.bonds[CHOOSE j \in BondIds(m) : {m.bonds[j][1], m.bonds[j][2]} = {a, b}][3]
AtomKey(m, k) == <<m.atoms[k].z, m.atoms[k].c, m.atoms[k].i, m.atoms[k].r, m.atoms[k].h>>

\* multiset of atom keys / of bond orders, as functions key -> count
AtomBag(m) == [q \in { AtomKey(m, k) : k \in Nodes(m) } |-> Cardinality({ k \in Nodes(m) : AtomKey(m, k) = q })]
BondBag(m) == [o \in { m.bonds[j][3] : j \in BondIds(m) } |-> Cardinality({ j \in BondIds(m) : m.bonds[j][3] = o })]

\* f (a sequence: position in g |-> position in h) is an isomorphism of the constitution
IsBijection(f, g, h) == /\ Len(f) = Len(g.atoms) /\ Len(g.atoms) = Len(h.atoms)
                        /\ { f[k] : k \in 1..Len(f) } = Nodes(h)
IsConstitutionIso(f, g, h) ==
  /\ IsBijection(f, g, h)
  /\ \A k \in Nodes(g) : AtomKey(g, k) = AtomKey(h, f[k])
  /\ Len(g.bonds) = Len(h.bonds)
  /\ \A j \in BondIds(g) : /\ {f[g.bonds[j][1]], f[g.bonds[j][2]]} \in EdgeSet(h)
                           /\ OrderOf(h, f[g.bonds[j][1]], f[g.bonds[j][2]]) = g.bonds[j][3]

\* connected components (as a partition label: smallest reachable position)
RECURSIVE Reach(_, _, _)
Reach(m, S, seen) == IF S = {} THEN seen
                     ELSE LET nxt == (UNION { Nbrs(m, n) : n \in S }) \ (seen \cup S) IN Reach(m, nxt, seen \cup S)
Component(m, n) == Reach(m, {n}, {})
NComponents(m) == Cardinality({ Component(m, n) : n \in Nodes(m) })
=============================================================================
