---------------------------------- MODULE Stereo ----------------------------------
(* Configuration in a representation that uses no table of the code:
   tetrahedral: parity (0/1) of the mark w.r.t. the neighbours listed by ascending position, hydrogen last (2 = no mark);
   double bond: same-side relation <<a, b, x, y, cis>> of substituent x (on a) and y (on b);
   cumulene (allene, butatriene, ...): the same record for the two chain ends a, b: the sign of the axis for the substituent pair (x, y).
   Both obey one algebra: naming the other substituent of an end inverts the relation, exchanging the ends does not. *)
EXTENDS Graphs

\* number of inversions of the sequence q
Inv(q) == Cardinality({ <<i, j>> \in (1..Len(q)) \X (1..Len(q)) : i < j /\ q[i] > q[j] })
Parity(q) == Inv(q) % 2
\* neighbours of k that are not hydrogens, ascending
RECURSIVE SortedSeq(_)
SortedSeq(S) == IF S = {} THEN <<>> ELSE LET x == CHOOSE x \in S : \A y \in S : x <= y IN <<x>> \o SortedSeq(S \ {x})
HeavyNbrs(m, k) == { x \in Nbrs(m, k) : m.atoms[x].z # 1 }
\* image of a parity under a bijection f: the heavy neighbours ascending in g are listed in h-order f[x1], f[x2], ...
ImageParity(g, f, k) == LET xs == SortedSeq(HeavyNbrs(g, k)) IN
                        (g.atoms[k].p + Parity([q \in 1..Len(xs) |-> f[xs[q]]])) % 2
ParityPreserved(g, h, f) == \A k \in Nodes(g) : IF g.atoms[k].p = 2 THEN h.atoms[f[k]].p = 2
                                                ELSE h.atoms[f[k]].p = ImageParity(g, f, k)
\* two same-side statements about one double bond agree (naming the other substituent on an end flips the relation)
Oriented(q, a) == IF q[1] = a THEN q ELSE <<q[2], q[1], q[4], q[3], q[5]>>
CtAgree(q, p) == LET p2 == Oriented(p, q[1])
                 IN {q[1], q[2]} = {p[1], p[2]}
                    /\ ((q[5] = 1) = ((p2[5] = 1) = ((q[3] = p2[3]) = (q[4] = p2[4]))))
CtImage(q, f) == <<f[q[1]], f[q[2]], f[q[3]], f[q[4]], q[5]>>
CtPreserved(g, h, f) == /\ Len(g.ct) = Len(h.ct)
                        /\ \A j \in 1..Len(g.ct) : \E i \in 1..Len(h.ct) : CtAgree(CtImage(g.ct[j], f), h.ct[i])
=============================================================================
