------------------------------ MODULE SmilesValence ------------------------------
(* Hydrogen count of an atom written *without* brackets (organic subset), as the SMILES definition states it:
   the lowest normal valence that is not below the sum of the bond orders, minus that sum.
   Aromatic atoms written in lower case: a bond between aromatic atoms counts 1 and one further valence is used by the
   aromatic system; lower-case N, O, S, P, B carry no hydrogen unless written [nH] etc. *)
EXTENDS Naturals, Integers, Sequences, FiniteSets

NormalValences(z) == CASE z = 5 -> {3} [] z = 6 -> {4} [] z = 7 -> {3, 5} [] z = 8 -> {2} [] z = 15 -> {3, 5}
                       [] z = 16 -> {2, 4, 6} [] z \in {9, 17, 35, 53} -> {1} [] OTHER -> {}
Fits(z, sum) == { v \in NormalValences(z) : v >= sum }
Min(S) == CHOOSE m \in S : \A x \in S : m <= x
OrganicH(z, sum) == IF Fits(z, sum) = {} THEN 0 ELSE Min(Fits(z, sum)) - sum
AromaticH(z, sum) == IF z = 6 THEN (IF 3 - sum > 0 THEN 3 - sum ELSE 0) ELSE 0
=============================================================================
