----------------------------------- MODULE Sym -----------------------------------
(* Colour refinement (the coarsest equitable partition) of a recorded molecule, and the domain predicates built on it.
   Atoms in different refinement classes are certainly not constitutionally equivalent; atoms in one class may be.
   All predicates below are therefore conservative: "possibly equivalent" excludes a case from a claim. *)
EXTENDS Graphs, FiniteSetsExt

Compress(m, sig) == TLCEval([n \in Nodes(m) |-> Min({ k \in Nodes(m) : sig[k] = sig[n] })])
Sig(m, col, n) == LET nb == NbrO(m, n)
                      keys == { <<col[p[1]], p[2]>> : p \in nb }
                  IN <<col[n], [q \in keys |-> Cardinality({ p \in nb : <<col[p[1]], p[2]>> = q })]>>
NCls(m, col) == Cardinality({ col[n] : n \in Nodes(m) })
RECURSIVE Refine(_, _)
Refine(m, col) == LET new == Compress(m, TLCEval([n \in Nodes(m) |-> Sig(m, col, n)]))
                  IN IF NCls(m, new) = NCls(m, col) THEN new ELSE Refine(m, new)
Classes(m) == Refine(m, Compress(m, TLCEval([n \in Nodes(m) |-> AtomKey(m, n)])))

\* a centre whose marked configuration could be pseudo-asymmetric: two neighbours possibly equivalent
AmbiguousCentre(m, cls, k) == \E x, y \in Nbrs(m, k) : x # y /\ cls[x] = cls[y]
\* ring systems: recorded ring basis m.rings (sequences of positions); rings sharing an atom belong to one system
RingIds(m) == 1..Len(m.rings)
RingAtoms(m, r) == { m.rings[r][q] : q \in 1..Len(m.rings[r]) }
RECURSIVE RingReach(_, _, _)
RingReach(m, S, seen) == IF S = {} THEN seen
                         ELSE LET nxt == { r \in RingIds(m) : \E q \in S : RingAtoms(m, r) \cap RingAtoms(m, q) # {} } \ (seen \cup S)
                              IN RingReach(m, nxt, seen \cup S)
RingSystem(m, r) == RingReach(m, {r}, {})
\* "cage-like": a ring system of three or more rings in which some atom lies in three or more rings of the basis (prismane,
\* cubane, adamantane, peri-fused arenes such as pyrene / coronene) and two of its atoms are possibly equivalent.
\* Flat cata-fused systems (triphenylene, biphenylene, steroids) are inside the claimed domain.
SymmetricCage(m, cls) == \E r \in RingIds(m) :
                            LET sys == RingSystem(m, r) atoms == UNION { RingAtoms(m, q) : q \in sys }
                            IN /\ Cardinality(sys) >= 3
                               /\ \E x \in atoms : Cardinality({ q \in sys : x \in RingAtoms(m, q) }) >= 3
                               /\ \E x, y \in atoms : x # y /\ cls[x] = cls[y]
\* C01's claimed domain: no stereo mark on a possibly pseudo-asymmetric centre / double bond end, no possibly symmetric cage
StereoAmbiguous(m, cls) ==
  \/ \E k \in Nodes(m) : m.atoms[k].p # 2 /\ AmbiguousCentre(m, cls, k)
  \/ \E j \in 1..Len(m.ct) : \/ \E x, y \in Nbrs(m, m.ct[j][1]) \ {m.ct[j][2]} : x # y /\ cls[x] = cls[y]
                             \/ \E x, y \in Nbrs(m, m.ct[j][2]) \ {m.ct[j][1]} : x # y /\ cls[x] = cls[y]
InDomainC01(m) == LET cls == Classes(m) IN ~StereoAmbiguous(m, cls) /\ ~SymmetricCage(m, cls)
=============================================================================
