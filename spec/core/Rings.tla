---------------------------------- MODULE Rings ----------------------------------
(* Cycle bases of a recorded molecule (C06).  A ring is a sequence of positions; coordinate (order 8) bonds are ignored.
   IsBasis: right number of rings, each a simple cycle of existing bonds, linearly independent over GF(2).
   MinimumBasisWeight: total size of a minimum cycle basis, computed from Horton candidates (for every vertex v and edge
   {x, y}: tree path v..x + tree path v..y + the edge) by greedy selection in order of size with GF(2) elimination. *)
EXTENDS Graphs, FiniteSetsExt, Folds

EdgesNS(m) == { {m.bonds[k][1], m.bonds[k][2]} : k \in { j \in 1..Len(m.bonds) : m.bonds[j][3] # 8 } }
EdgesAll(m) == { {m.bonds[k][1], m.bonds[k][2]} : k \in 1..Len(m.bonds) }
Verts(E) == UNION E
NbrsE(E, n) == { x \in Verts(E) : {n, x} \in E }

RECURSIVE ReachE(_, _, _)
ReachE(E, front, seen) == IF front = {} THEN seen
                          ELSE LET nxt == (UNION { NbrsE(E, n) : n \in front }) \ seen IN ReachE(E, nxt, seen \cup nxt)
RECURSIVE CompCount(_, _)
CompCount(E, rest) == IF rest = {} THEN 0
                      ELSE LET n == CHOOSE x \in rest : TRUE IN 1 + CompCount(E, rest \ ReachE(E, {n}, {n}))
CompSets(E, V) == { ReachE(E, {n}, {n}) : n \in V }
Cyclomatic(m) == Cardinality(EdgesNS(m)) - Len(m.atoms) + CompCount(EdgesNS(m), Nodes(m))

RingEdges(r) == { {r[q], r[(q % Len(r)) + 1]} : q \in 1..Len(r) }
RingSet(r) == { r[q] : q \in 1..Len(r) }
IsSimpleCycle(m, r) == Len(r) >= 3 /\ Cardinality(RingSet(r)) = Len(r) /\ RingEdges(r) \subseteq EdgesNS(m)

SymDiff2(a, b) == (a \ b) \cup (b \ a)
ReduceFull(v, basis) == FoldSet(LAMBDA b, acc : IF b[1] \in acc THEN SymDiff2(acc, b[2]) ELSE acc, v, basis)
RECURSIVE IndepSeq(_, _, _)
IndepSeq(vs, q, basis) ==
   IF q > Len(vs) THEN TRUE
   ELSE LET v == ReduceFull(vs[q], basis)
        IN IF v = {} THEN FALSE
           ELSE LET p == CHOOSE e \in v : TRUE
                    nb == { <<b[1], IF p \in b[2] THEN SymDiff2(b[2], v) ELSE b[2]>> : b \in basis }
                IN IndepSeq(vs, q + 1, nb \cup {<<p, v>>})
Independent(rings) == IndepSeq([q \in 1..Len(rings) |-> RingEdges(rings[q])], 1, {})

(* ---- minimum cycle basis weight ---- *)
RECURSIVE Skin(_)
Skin(E) == LET leaves == { v \in Verts(E) : Cardinality(NbrsE(E, v)) = 1 }
           IN IF leaves = {} THEN E ELSE Skin({ e \in E : e \cap leaves = {} })
RECURSIVE Bfs(_, _, _)
Bfs(E, front, path) ==
   LET reached == DOMAIN path
       cand == { <<p, x>> \in front \X Verts(E) : x \notin reached /\ {p, x} \in E }
       newv == { q[2] : q \in cand }
   IN IF newv = {} THEN path
      ELSE LET par == [x \in newv |-> CHOOSE p \in front : <<p, x>> \in cand]
               path2 == TLCEval([x \in reached \cup newv |-> IF x \in reached THEN path[x] ELSE path[par[x]] \cup {{par[x], x}}])
           IN Bfs(E, newv, path2)
Candidates(E) ==
   UNION { LET P == Bfs(E, {v}, [x \in {v} |-> {}])
           IN { SymDiff2(SymDiff2(P[CHOOSE a \in e : TRUE], P[CHOOSE b \in e : b # (CHOOSE a \in e : TRUE)]), {e}) :
                  e \in { f \in E : f \subseteq DOMAIN P } }
         : v \in Verts(E) }
IsCycleSet(C) == C # {} /\ \A v \in UNION C : Cardinality({ e \in C : v \in e }) = 2
RECURSIVE Insert(_, _, _, _, _, _)
\* acc = <<basis, total weight, number of cycles, size of the largest cycle taken>>
Insert(cands, basis, weight, count, big, need) ==
   IF cands = {} \/ count = need THEN <<basis, weight, count, big>>
   ELSE LET cy == CHOOSE x \in cands : TRUE
            v == ReduceFull(cy, basis)
        IN IF v = {} THEN Insert(cands \ {cy}, basis, weight, count, big, need)
           ELSE LET p == CHOOSE e \in v : TRUE
                    nb == { <<b[1], IF p \in b[2] THEN SymDiff2(b[2], v) ELSE b[2]>> : b \in basis }
                IN Insert(cands \ {cy}, nb \cup {<<p, v>>}, weight + Cardinality(cy), count + 1, Cardinality(cy), need)
RECURSIVE Greedy(_, _, _, _, _)
Greedy(all, size, maxsize, acc, need) ==
   IF size > maxsize \/ acc[3] = need THEN acc
   ELSE Greedy(all, size + 1, maxsize, Insert({ x \in all : Cardinality(x) = size }, acc[1], acc[2], acc[3], acc[4], need), need)
CycleCandidates(m) == TLCEval({ x \in Candidates(Skin(EdgesNS(m))) : IsCycleSet(x) })
\* <<basis, total weight, number of cycles, largest cycle>>
MinimumBasisOf(m, all) ==
   LET mx == IF all = {} THEN 0 ELSE Max({ Cardinality(x) : x \in all })
   IN Greedy(all, 3, mx, <<{}, 0, 0, 0>>, Cyclomatic(m))
MinimumBasis(m) == MinimumBasisOf(m, CycleCandidates(m))
MinimumBasisWeight(m) == MinimumBasis(m)[2]
RECURSIVE SumLen(_, _)
SumLen(q, k) == IF k > Len(q) THEN 0 ELSE Len(q[k]) + SumLen(q, k + 1)

(* ---- recorded gaps of the heuristic: outside the claimed domain of the minimality / size-multiset clauses ---- *)
\* "bicyclic cores whose three bridges all have >= 3 bonds": two rings of a minimum basis then share a path of >= 3 bonds.
\* Conservative form (a superset, also for polycyclic cores): two distinct candidate cycles, neither larger than the largest
\* ring of the minimum basis, share three or more bonds.
ThetaGap(m) == LET all == CycleCandidates(m)
                   big == MinimumBasisOf(m, all)[4]
                   small == { x \in all : Cardinality(x) <= big }
               IN \E x \in small : \E y \in small \ {x} : Cardinality(x \cap y) >= 3
DenseCage(m) == LET E == Skin(EdgesNS(m)) IN Cyclomatic(m) >= 6 /\ 2 * Cardinality(E) > 3 * Cardinality(Verts(E))
=============================================================================
