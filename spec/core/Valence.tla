--------------------------------- MODULE Valence ---------------------------------
(* Implicit hydrogens and valence errors (C04), two independent halves.

   (i)  Core model, literal: textbook valences of B C N O F (and the lowest valence of Si P S Cl Br I), a charged atom
        behaves like its isoelectronic neighbour, a radical has one hydrogen less:  H = V - sum of bond orders - radical.
        Asserted where it is unambiguous (see CoreDefined): it catches wrong table *data*.
   (ii) Interpreter of the rule tables exported from the working tree (T), written from their documented meaning:
        rules are compiled in the documented order (first common valence with 0..v hydrogens, the other common valences,
        then every exception in order, each expanded for 0..h hydrogens) and the FIRST rule whose charge, radical flag and
        bond-order sum are equal and whose neighbour pattern is contained in the environment gives the count.
        It catches wrong *logic* everywhere.
   An environment: a.z, a.c, a.r (0/1), a.env = sequence of <<order, neighbour z>>; coordinate bonds (8) do not count. *)
EXTENDS Naturals, Integers, Sequences, FiniteSets, TLC, Json

T == JsonDeserialize("tables.json")     \* T.val[z] = [common, exc = <<charge, radical, h, <<order, z>>...>>]

RECURSIVE Flat(_, _)
Flat(ss, k) == IF k > Len(ss) THEN <<>> ELSE ss[k] \o Flat(ss, k + 1)
BagOf(env) == LET keys == { <<env[k][1], env[k][2]>> : k \in 1..Len(env) }
              IN [q \in keys |-> Cardinality({ k \in 1..Len(env) : <<env[k][1], env[k][2]>> = q })]
RECURSIVE SumOrd(_, _)
SumOrd(env, k) == IF k > Len(env) THEN 0 ELSE env[k][1] + SumOrd(env, k + 1)
Rule(ch, r, v, bag, h) == [c |-> ch, r |-> r, v |-> v, bag |-> bag, h |-> h]
EmptyBag == BagOf(<<>>)
Compile(z) ==
  LET t == T.val[z]
      cv == t.common
      first == IF cv[1] # 0 /\ z # 1
               THEN [k \in 1..(cv[1] + 1) |-> Rule(0, 0, cv[1] - (k - 1), EmptyBag, k - 1)] \o [k \in 1..(Len(cv) - 1) |-> Rule(0, 0, cv[k + 1], EmptyBag, 0)]
               ELSE [k \in 1..Len(cv) |-> Rule(0, 0, cv[k], EmptyBag, 0)]
      ex(e) == LET expl == SumOrd(e[4], 1)
                   bag == BagOf(e[4])
               IN IF e[3] # 0 THEN [k \in 1..(e[3] + 1) |-> Rule(e[1], e[2], expl + e[3] - (k - 1), bag, k - 1)]
                  ELSE <<Rule(e[1], e[2], expl, bag, 0)>>
  IN TLCEval(first \o Flat([k \in 1..Len(t.exc) |-> ex(t.exc[k])], 1))
Rules == [z \in 1..118 |-> Compile(z)]       \* constant: compiled once
Matches(rule, a, s, bag) == /\ rule.c = a.c /\ rule.r = a.r /\ rule.v = s
                            /\ \A q \in DOMAIN rule.bag : q \in DOMAIN bag /\ bag[q] >= rule.bag[q]
RealEnv(a) == SelectSeq(a.env, LAMBDA b : b[1] # 8)
\* what calc_implicit stores: -1 = no valence state
FirstMatchH(a) ==
  IF a.z = 1 THEN 0
  ELSE LET env == RealEnv(a)
           s == SumOrd(env, 1)
           bag == BagOf(env)
           rules == Rules[a.z]
           hits == { k \in 1..Len(rules) : Matches(rules[k], a, s, bag) }
       IN IF hits = {} THEN -1 ELSE rules[CHOOSE k \in hits : \A j \in hits : k <= j].h
\* what check_implicit accepts: some rule admits the count h
AdmitsH(a, h) ==
  IF a.z = 1 THEN h = 0
  ELSE LET env == RealEnv(a) s == SumOrd(env, 1) bag == BagOf(env) rules == Rules[a.z]
       IN \E k \in 1..Len(rules) : rules[k].h = h /\ Matches(rules[k], a, s, bag)

(* ---- (i) the literal core model ---- *)
BaseValence(z) == CASE z = 5 -> 3 [] z = 6 -> 4 [] z = 7 -> 3 [] z = 8 -> 2 [] z = 9 -> 1
                    [] z = 14 -> 4 [] z = 15 -> 3 [] z = 16 -> 2 [] z \in {17, 35, 53} -> 1 [] OTHER -> 0
SecondRow == {5, 6, 7, 8, 9}
\* isoelectronic shift inside the second row: [N+] like C, [O-] like F, [C-] like N, [B-] like C ...
CoreValence(z, c) == IF c = 0 THEN BaseValence(z)
                     ELSE IF z \in SecondRow /\ (z - c) \in SecondRow THEN BaseValence(z - c) ELSE -1
\* fluorine: only F and F- (no fluorine cation or radical chemistry is claimed)
CoreDefined(a) == /\ a.z # 1
                  /\ \/ (a.z \in SecondRow /\ a.c \in {-1, 0, 1} /\ a.r = 0 /\ CoreValence(a.z, a.c) >= 0 /\ ~(a.z = 9 /\ a.c = 1))
                     \/ (a.z \in SecondRow \ {9} /\ a.c = 0 /\ a.r = 1)
                     \/ (a.z \in {14, 15, 16, 17, 35, 53} /\ a.c = 0 /\ a.r = 0)
CoreH(a) == CoreValence(a.z, a.c) - SumOrd(RealEnv(a), 1) - a.r
\* the count is asserted when the bonds fit into the valence; invalidity ("no hydrogens can make it right") for the elements
\* that have no higher valence state: B C O F in the states above
CoreSaysCount(a) == CoreDefined(a) /\ CoreH(a) >= 0
CoreSaysInvalid(a) == CoreDefined(a) /\ CoreH(a) < 0 /\ a.z \in {5, 6, 8, 9} /\ a.r = 0
=============================================================================
