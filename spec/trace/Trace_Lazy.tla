------------------------------- MODULE Trace_Lazy -------------------------------
(* recorded calls of lazy_product on generators of known lengths against the properties model checked in MC_LazyProduct:
   record [lens (sequence), out (sequence of index tuples, 1-based)] *)
EXTENDS Naturals, Sequences, FiniteSets, TLC, Json
CONSTANT CH
R == JsonDeserialize("data.json")
N == Len(R)
VARIABLES c, i
vars == <<c, i>>
If(cond, name) == IF cond THEN {name} ELSE {}
Full(r) == { t \in [1..Len(r.lens) -> 1..4] : \A g \in 1..Len(r.lens) : t[g] <= r.lens[g] }
Verdict(r) ==
  LET out == r.out n == Len(r.lens) IN
  If(\E a, b \in 1..Len(out) : a # b /\ out[a] = out[b], "yielded-twice")
  \cup If(\E a \in 1..Len(out) : out[a] \notin Full(r), "not-a-member-of-the-product")
  \cup If({ out[k] : k \in 1..Len(out) } # Full(r), "product-incomplete")
  \cup If(n > 1 /\ \E a \in 1..Len(out) : (\A g \in 1..n : a <= r.lens[g]) /\ out[a] # [g \in 1..n |-> a], "diagonal-order")
Init == c \in 0..(CH-1) /\ i = c + 1
Next == i + CH <= N /\ i' = i + CH /\ c' = c
Report == i > N \/ Verdict(R[i]) = {} \/ PrintT(<<"VERDICT", i, Verdict(R[i])>>)
=============================================================================
