------------------------------- MODULE Trace_C03 -------------------------------
(* C03: chython.smiles(text) against the reference reader, for recorded calls.
   record: [s (characters), out ("ok" | "valueerror" | "foreign"), atoms, bonds, ct] (see SmilesJudge).
   Classes:  MustAccept  the reference reader accepts and every isotope is tabulated
             MustReject  the reference reader rejects, or an isotope is not tabulated
             Unspecified two leniencies the tokenizer / parser implement on purpose (recorded in DESIGN.md): a branch opened
                         before the first atom, and a one-digit "%n" closure at the very end of the text *)
EXTENDS SmilesJudge, Json
CONSTANT CH
R == JsonDeserialize("data.json")
T == JsonDeserialize("tables.json")        \* T.iso[z] = tabulated isotopes of element z (exported from the working tree)
N == Len(R)
VARIABLES c, i, pos, ps
vars == <<c, i, pos, ps>>

Unspecified(text) == \/ Len(text) >= 1 /\ text[1] = "("                              \* "(C)C": branch before the first atom
                     \/ Len(text) >= 2 /\ text[Len(text) - 1] = "%"               \* "C1CC%1": the tokenizer completes a one-digit %n at the end
IsoOK(s) == \A k \in 1..Len(s.atoms) : s.atoms[k].iso = 0 \/ \E q \in 1..Len(T.iso[s.atoms[k].z]) : T.iso[s.atoms[k].z][q] = s.atoms[k].iso

Verdict(r, s0) ==
  LET s == Finish(s0)
      acc == s.st = "ok" /\ IsoOK(s)
  IN If(r.out = "foreign", "foreign-exception")
     \cup (IF Unspecified(r.s) THEN {}
           ELSE If(r.out = "ok" /\ ~acc, "accepts-outside-language")
                \cup If(r.out = "valueerror" /\ acc, "rejects-valid")
                \cup (IF r.out = "ok" /\ acc
                      THEN GraphVerdict(r, s) \cup StereoVerdict(r, s) \cup NumberVerdict(r, s) \cup BracketH(r, s)
                      ELSE {}))

Init == c \in 0..(CH-1) /\ i = c + 1 /\ pos = 1 /\ ps = Init0
Next == \/ /\ i <= N /\ pos <= Len(R[i].s)
           /\ ps' = Step(ps, R[i].s[pos]) /\ pos' = pos + 1 /\ UNCHANGED <<c, i>>
        \/ /\ i <= N /\ pos > Len(R[i].s) /\ i + CH <= N
           /\ i' = i + CH /\ pos' = 1 /\ ps' = Init0 /\ c' = c
Report == ~(i <= N /\ pos > Len(R[i].s)) \/ Verdict(R[i], ps) = {} \/ PrintT(<<"VERDICT", i, Verdict(R[i], ps)>>)
=============================================================================
