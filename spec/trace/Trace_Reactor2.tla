------------------------------ MODULE Trace_Reactor2 ------------------------------
(* C16, multi-stage mode with two patterns: recorded runs of the real Reactor against the declarative reading of ReactorQueue2
   (states are a mixture and the pair last used; everything reachable within the limit is reported, once).  TLC has shown
   (MC_ReactorQueue2) that the work-list reports exactly that set when every product is larger than both of its reactants, and
   that it need not otherwise (MC_ReactorQueue2_any): the comparison is claimed inside that domain, evaluated here from the
   recorded sizes.
   record: [start (two molecule identifiers), limit, step2 (sequence of [a, b, res]: what one application makes of the ordered
            pair), size (heavy-atom count per identifier, position = identifier), outs / outs2 (mixtures yielded for the two orders
            of the reactants, each a sorted sequence of identifiers), exc] *)
EXTENDS Naturals, Sequences, FiniteSets, SequencesExt, TLC, Json
CONSTANT CH
R == JsonDeserialize("data.json")
N == Len(R)
VARIABLES c, i
vars == <<c, i>>
If(cond, name) == IF cond THEN {name} ELSE {}
SetOf(s) == { s[k] : k \in 1..Len(s) }
Sorted(s) == SortSeq(s, LAMBDA a, b : a < b)
Known(r) == { <<r.step2[k].a, r.step2[k].b>> : k \in 1..Len(r.step2) }
Step2(r, p) == IF p \in Known(r) THEN SetOf(r.step2[CHOOSE k \in 1..Len(r.step2) : r.step2[k].a = p[1] /\ r.step2[k].b = p[2]].res) ELSE {}
EntrySet(prod, ch) == { [ch |-> <<prod[k], x>>, rest |-> Sorted(RemoveAt(prod, k))] : k \in 1..Len(prod), x \in {ch[1], ch[2]} }
                      \cup { [ch |-> <<x, prod[k]>>, rest |-> Sorted(RemoveAt(prod, k))] : k \in 1..Len(prod), x \in {ch[1], ch[2]} }
RECURSIVE Entries(_, _)
Entries(r, k) == IF k = 0 THEN { [ch |-> <<r.start[1], r.start[2]>>, rest |-> <<>>], [ch |-> <<r.start[2], r.start[1]>>, rest |-> <<>>] }
                 ELSE UNION { UNION { EntrySet(<<new>> \o e.rest, e.ch) : new \in Step2(r, e.ch) } : e \in Entries(r, k - 1) }
Reported(r, k) == UNION { { Sorted(<<new>> \o e.rest) : new \in Step2(r, e.ch) } : e \in Entries(r, k - 1) }
Within(r) == UNION { Reported(r, k) : k \in 1..r.limit }
Used(r) == UNION { { e.ch : e \in Entries(r, k) } : k \in 0..(r.limit - 1) }
Growth(r) == \A k \in 1..Len(r.step2) : \A n \in SetOf(r.step2[k].res) : r.size[n] > r.size[r.step2[k].a] /\ r.size[n] > r.size[r.step2[k].b]

Verdict(r) ==
  If(r.exc # "", "exception:" \o r.exc)
  \cup (IF r.exc # "" THEN {} ELSE
        IF ~(Used(r) \subseteq Known(r)) THEN {"machinery:single-stage-relation-incomplete"} ELSE
        If(\E a, b \in 1..Len(r.outs) : a # b /\ r.outs[a] = r.outs[b], "yielded-twice")
        \cup If(~(SetOf(r.outs) \subseteq Within(r)), "yield-not-reachable-within-the-limit")
        \cup If(SetOf(r.outs) # SetOf(r.outs2), "product-set-depends-on-the-order-of-the-reactants")
        \cup (IF Growth(r) THEN If(Within(r) \ SetOf(r.outs) # {}, "reachable-mixture-not-yielded") ELSE {}))
Init == c \in 0..(CH-1) /\ i = c + 1
Next == i + CH <= N /\ i' = i + CH /\ c' = c
Report == i > N \/ (/\ (Verdict(R[i]) = {} \/ PrintT(<<"VERDICT", i, Verdict(R[i])>>))
                    /\ (R[i].exc # "" \/ Growth(R[i]) \/ PrintT(<<"INFO", i, "ood">>)))
=============================================================================
