------------------------------- MODULE Trace_Gen -------------------------------
(* spec -> code for the SMILES reader: texts produced by the generative grammar (SmilesGen.tla, `tlc -simulate`) are given to
   chython; record = [text, atoms, bonds (what the grammar built), out ("ok" | exception class), obs (what the library built:
   atoms [z, c, i], bonds <<a, b, order>> by position in reading order)] *)
EXTENDS Naturals, Integers, Sequences, FiniteSets, TLC, Json
CONSTANT CH
R == JsonDeserialize("data.json")
N == Len(R)
VARIABLES c, i
vars == <<c, i>>
If(cond, name) == IF cond THEN {name} ELSE {}
Pairs(bs) == { <<IF b[1] < b[2] THEN b[1] ELSE b[2], IF b[1] < b[2] THEN b[2] ELSE b[1], b[3]>> : b \in { bs[k] : k \in 1..Len(bs) } }
Verdict(r) ==
  IF r.out # "ok" THEN {"generated-text-rejected:" \o r.out}
  ELSE IF Len(r.obs.atoms) # Len(r.atoms) THEN {"number-of-atoms"}
  ELSE If(\E k \in 1..Len(r.atoms) : r.obs.atoms[k].z # r.atoms[k].z, "element")
       \cup If(\E k \in 1..Len(r.atoms) : r.obs.atoms[k].c # r.atoms[k].chg, "charge")
       \cup If(\E k \in 1..Len(r.atoms) : r.obs.atoms[k].i # r.atoms[k].iso, "isotope")
       \cup If(Pairs(r.obs.bonds) # Pairs(r.bonds), "bonds")
Init == c \in 0..(CH-1) /\ i = c + 1
Next == i + CH <= N /\ i' = i + CH /\ c' = c
Report == i > N \/ Verdict(R[i]) = {} \/ PrintT(<<"VERDICT", i, Verdict(R[i])>>)
=============================================================================
