------------------------------- MODULE Trace_C14 -------------------------------
(* C14: recorded histories of normalisation calls validated against Normalize.tla.
   kind "hist": [s0, steps : Seq([op, ft, ret, exc, st, forms]), eqv (1 when numbering independence is claimed for this history),
                 f, t0, tsteps (the same calls on a renumbered twin), dom (projection for the symmetry domain of C01: canonical strings
                 of molecules with only relatively defined ring configurations are outside that claim, and so is equivariance here)]
   kind "doc":  a documented spelling: [raw, want, got, same (1 when the standardised molecule == the documented one), hist fields] *)
EXTENDS Normalize, Json, Sym
CONSTANT CH
R == JsonDeserialize("data.json")
N == Len(R)
VARIABLES c, i
vars == <<c, i>>

Asymmetric(m) == LET cls == Classes(m) IN \A x, y \in Nodes(m) : x # y => cls[x] # cls[y]
ClassOfNumber(m) == LET cls == Classes(m) IN [n \in { m.atoms[k].n : k \in Nodes(m) } |-> cls[CHOOSE k \in Nodes(m) : m.atoms[k].n = n]]
Pre(r, k) == IF k = 1 THEN r.s0 ELSE r.steps[k - 1].st
HistVerdict(r) ==
  UNION { StepLaws(Pre(r, k), r.steps[k]) : k \in 1..Len(r.steps) }
  \cup UNION { Idempotence(Pre(r, k), r.steps[k], r.steps[k + 1]) \cup Inverse(Pre(r, k), r.steps[k], r.steps[k + 1]) : k \in 1..(Len(r.steps) - 1) }
  \cup UNION { IF r.steps[k].op = "tautomers" /\ r.steps[k].exc = "" THEN FormLaws(Pre(r, k), r.steps[k].forms) ELSE {} : k \in 1..Len(r.steps) }
  \cup (IF r.eqv = 1 /\ Valid(r.s0) /\ InDomainC01(r.dom)
        THEN UNION { IF r.steps[k].exc # "" \/ r.tsteps[k].exc # "" THEN If(r.steps[k].exc # r.tsteps[k].exc, r.steps[k].op \o ":outcome-depends-on-numbering")
                     ELSE IF r.steps[k].op = "tautomers"
                          THEN If({ r.steps[k].forms[j].s : j \in 1..Len(r.steps[k].forms) } # { r.tsteps[k].forms[j].s : j \in 1..Len(r.tsteps[k].forms) }, "tautomers:set-depends-on-numbering")
                          ELSE If(~Equivariant(r.f, r.steps[k].st, r.tsteps[k].st, Asymmetric(r.dom), ClassOfNumber(r.dom)), r.steps[k].op \o ":result-depends-on-numbering") : k \in 1..Len(r.steps) }
        ELSE {})
DocVerdict(r) == If(r.same # 1, "documented-spelling-is-not-produced")
Verdict(r) == IF r.kind = "doc" THEN DocVerdict(r) \cup HistVerdict(r) ELSE HistVerdict(r)
Init == c \in 0..(CH-1) /\ i = c + 1
Next == i + CH <= N /\ i' = i + CH /\ c' = c
Report == i > N \/ (/\ (Verdict(R[i]) = {} \/ PrintT(<<"VERDICT", i, Verdict(R[i])>>))
                    /\ (Valid(R[i].s0) \/ PrintT(<<"INFO", i, "ood">>)))
=============================================================================
