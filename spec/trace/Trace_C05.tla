------------------------------- MODULE Trace_C05 -------------------------------
(* C05: record [k0 (a Kekule form), a (thiele(k0)), k1 (kekule(a)), a2 (thiele(a) again), k2 (kekule(k0) again), forms (every enumerated
   Kekule form of a), back (thiele(form) for every form), ar (thiele of a renumbered / re-inserted copy of k0, mapped back to the
   positions of k0), exc ("" or the exception a conversion raised)] *)
EXTENDS Aromatic
CONSTANT CH
R == JsonDeserialize("data.json")
N == Len(R)
VARIABLES c, i
vars == <<c, i>>
If(cond, name) == IF cond THEN {name} ELSE {}
RECURSIVE SumH(_, _)
SumH(m, k) == IF k > Len(m.atoms) THEN 0 ELSE m.atoms[k].h + SumH(m, k + 1)
TautomerMove(g, h) == /\ SumH(g, 1) = SumH(h, 1)
                      /\ \A k \in 1..Len(g.atoms) : g.atoms[k].h # h.atoms[k].h => g.atoms[k].z = 7
Moved(r) == SameSkeleton(r.k0, r.a) /\ ~SameHydrogens(r.k0, r.a) /\ TautomerMove(r.k0, r.a)
\* an aromatic spelling the library's model is known to share (no exocyclic double bond on an aromatic atom, no Se / Te / As, no
\* unsaturated four-ring): every bond the text calls aromatic is aromatic again after kekule() and thiele()
Ar(m) == { {m.bonds[k][1], m.bonds[k][2]} : k \in { k \in 1..Len(m.bonds) : m.bonds[k][3] = 4 } }
ArAtoms(m) == UNION Ar(m)
PlainAromaticSpelling(m) == /\ Ar(m) # {}
                            /\ \A k \in 1..Len(m.bonds) : m.bonds[k][3] = 2 => {m.bonds[k][1], m.bonds[k][2]} \cap ArAtoms(m) = {}
                            /\ \A x \in ArAtoms(m) : m.atoms[x].z \notin {33, 34, 52}
Verdict(r) ==
  IF r.exc # "" THEN {"conversion-raised:" \o r.exc}
  ELSE
  \* thiele(fix_tautomers = TRUE), the default, deliberately moves a hydrogen between ring nitrogens of some hetero-arene
  \* tautomers (known finding C05-tautomer-fix): recognised as "same skeleton, same total, only N-H counts differ"
  If(~SameSkeleton(r.k0, r.a) \/ (~SameHydrogens(r.k0, r.a) /\ ~TautomerMove(r.k0, r.a)), "aromatisation-changes-the-molecule")
  \cup If(SameSkeleton(r.k0, r.a) /\ ~SameHydrogens(r.k0, r.a) /\ TautomerMove(r.k0, r.a), "aromatisation-moves-a-hydrogen-between-ring-nitrogens")
  \cup If(~Moved(r) /\ ~LocalisedFormOf(r.k0, r.a), "aromatisation-touched-a-non-aromatic-bond")
  \cup If(~LocalisedFormOf(r.k1, r.a) \/ ~SameHydrogens(r.k1, r.a), "kekulisation-changes-the-molecule")
  \cup If(~ValenceValid(r.k1), "kekule-form-with-valence-error")
  \cup If(r.rdh >= 0 /\ r.th # r.rdh, "kekule-form-has-other-hydrogens-than-the-text-denotes")
  \cup If(Len(r.a0.atoms) = Len(r.a.atoms) /\ PlainAromaticSpelling(r.a0) /\ ~Unsaturated4Ring(r.a) /\ ~(Ar(r.a0) \subseteq Ar(r.a)), "aromatic-spelling-loses-aromatic-bonds")
  \cup If(~Unsaturated4Ring(r.a) /\ ~BenzeneRingsAromatic(r.k0, r.a), "benzene-ring-not-aromatised")
  \cup If(r.a2.bonds # r.a.bonds \/ ~SameHydrogens(r.a2, r.a), "thiele-not-idempotent")
  \cup If(r.k2.bonds # r.k0.bonds \/ ~SameHydrogens(r.k2, r.k0), "kekule-not-idempotent")
  \cup If(r.ar.bonds # r.a.bonds, "aromatic-form-depends-on-numbering")
  \cup (IF Unsaturated4Ring(r.a) THEN {} ELSE
        If(\E q \in 1..Len(r.forms) : ~LocalisedFormOf(r.forms[q], r.a) \/ ~SameHydrogens(r.forms[q], r.a) \/ ~ValenceValid(r.forms[q]), "enumerated-form-is-not-a-kekule-form-of-the-molecule"))
  \cup If(\E p, q \in 1..Len(r.forms) : p # q /\ r.forms[p].bonds = r.forms[q].bonds, "enumerated-form-twice")
  \cup (IF Unsaturated4Ring(r.a) THEN {} ELSE If(\E q \in 1..Len(r.back) : r.back[q].bonds # r.a.bonds, "enumerated-form-aromatises-differently"))
Init == c \in 0..(CH-1) /\ i = c + 1
Next == i + CH <= N /\ i' = i + CH /\ c' = c
Report == i > N \/ (/\ (Verdict(R[i]) = {} \/ PrintT(<<"VERDICT", i, Verdict(R[i])>>))
                    /\ (R[i].exc # "" \/ ~Unsaturated4Ring(R[i].a) \/ PrintT(<<"INFO", i, "ood">>)))
=============================================================================
