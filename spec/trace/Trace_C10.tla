------------------------------- MODULE Trace_C10 -------------------------------
(* C10: the binary pack format.
   record "mol": [m (projection, see Pack), bytes (pack(compressed = FALSE) produced by the .pyx source), back (projection of
                  unpack(bytes)), plen (pack_len), dispatch (1 iff chython.unpack gave the same), shipped (bytes of a published pack
                  that decoded to m, or <<>>), dunder (bytes(m), decompressed), v0 (the same molecule in the earlier layout, header byte 0, transcoded by the harness), back0 / exc0 / dispatch0 (what the decoder makes of it), cs / cref (stereo-free canonical strings of the decoded pack and of the matching CSV row), exc]
   record "rxn": [r, a, p (molecule counts per role), packs (bytes of every molecule in order), bytes (reaction pack), plen (<<r counts,
                  a counts, p counts>> reported by pack_len), natoms (true atom counts in order), br, ba, bp (counts per role after
                  unpack), bpacks (bytes of the unpacked molecules re-packed, in reactants, reagents, products order), exc] *)
EXTENDS Pack
CONSTANT CH
R == JsonDeserialize("data.json")
N == Len(R)
VARIABLES c, i
vars == <<c, i>>
If(cond, name) == IF cond THEN {name} ELSE {}
SameAtom(a, b) == /\ a.num = b.num /\ a.z = b.z /\ a.iso = b.iso /\ a.chg = b.chg /\ a.rad = b.rad /\ a.h = b.h /\ a.st = b.st
                  /\ a.nbr = b.nbr /\ a.ord = b.ord /\ a.bst = b.bst
MolVerdict(r) ==
  If(r.exc # "", "exception:" \o r.exc)
  \cup (IF r.exc # "" \/ ~Representable(r.m) THEN {} ELSE
        If(r.bytes # Encode(r.m), "bytes-differ-from-the-published-layout")
        \cup If(Len(r.back.atoms) # Len(r.m.atoms), "unpack-atom-count")
        \cup (IF Len(r.back.atoms) # Len(r.m.atoms) THEN {} ELSE
              If(\E k \in 1..Len(r.m.atoms) : ~SameAtom(r.m.atoms[k], r.back.atoms[k]), "unpack-changes-the-molecule")
              \cup If(\E k \in 1..Len(r.m.atoms) : r.back.atoms[k].xh # HalfBits(r.m.atoms[k].x) \/ r.back.atoms[k].yh # HalfBits(r.m.atoms[k].y), "coordinates-not-half-precision"))
        \cup If(r.dunder # r.bytes, "bytes()-is-not-the-current-pack")
        \cup If(r.v0 # EncodeV0(r.m), "machinery:legacy-transcoder-differs-from-the-layout")
        \cup (IF r.v0 # EncodeV0(r.m) THEN {} ELSE
              If(r.exc0 # "", "legacy-layout-not-read:" \o r.exc0)
              \cup If(r.exc0 = "" /\ r.back0 # r.back, "legacy-layout-decodes-to-another-molecule")
              \cup If(r.exc0 = "" /\ r.dispatch0 # 1, "chython.unpack-dispatch-of-the-legacy-layout"))
        \cup If(r.plen # Len(r.m.atoms), "pack_len")
        \cup If(r.dispatch # 1, "chython.unpack-dispatch")
        \cup If(Len(r.shipped) > 0 /\ r.shipped # r.bytes, "published-pack-does-not-re-encode")
        \cup If(r.cs # r.cref, "published-pack-decodes-to-another-constitution"))
RECURSIVE Concat(_, _)
Concat(ss, k) == IF k > Len(ss) THEN <<>> ELSE ss[k] \o Concat(ss, k + 1)
RxnVerdict(r) ==
  If(r.exc # "", "exception:" \o r.exc)
  \cup (IF r.exc # "" THEN {} ELSE
        If(r.bytes # Frame(r.r, r.a, r.p, r.packs), "reaction-frame")
        \cup If(<<r.br, r.ba, r.bp>> # <<r.r, r.a, r.p>>, "unpack-roles")
        \cup If(r.bpacks # r.packs, "unpack-molecules")
        \cup If(r.plen # << SubSeq(r.natoms, 1, r.r), SubSeq(r.natoms, r.r + 1, r.r + r.a), SubSeq(r.natoms, r.r + r.a + 1, r.r + r.a + r.p) >>, "reaction-pack_len"))
Verdict(r) == IF r.kind = "mol" THEN MolVerdict(r) ELSE RxnVerdict(r)
Init == c \in 0..(CH-1) /\ i = c + 1
Next == i + CH <= N /\ i' = i + CH /\ c' = c
Report == i > N \/ (/\ (Verdict(R[i]) = {} \/ PrintT(<<"VERDICT", i, Verdict(R[i])>>))
                    /\ (R[i].kind # "mol" \/ Representable(R[i].m) \/ PrintT(<<"INFO", i, "ood">>)))
=============================================================================
