------------------------------- MODULE Trace_Canon -------------------------------
(* Exhaustive small-graph part of C01 / C02: every labelled graph on n <= 5 atoms (that is: every numbering of every small
   structure), with the canonical string chython gives it.
   record: [z (atomic numbers by atom number), b (<<a, b, order>>), s (canonical string), hash]
   TLC computes an isomorphism-class key of every graph itself (minimum, over all n! renumberings, of an integer code of
   the labelled graph) and checks, stepping through the records in key order, that
     same class   => same string, same hash          (structure only)
     classes and strings are in bijection            (no collision: two structures never share a string)            *)
EXTENDS Naturals, Integers, Sequences, FiniteSets, FiniteSetsExt, TLC, Json
CONSTANT CH
R == JsonDeserialize("data.json")
N == Len(R)
VARIABLES i, pk, k, nk
vars == <<i, pk, k, nk>>

Perms(n) == { f \in [1..n -> 1..n] : \A a, b \in 1..n : a # b => f[a] # f[b] }
Pow3(e) == CASE e = 0 -> 1 [] e = 1 -> 3 [] e = 2 -> 9 [] e = 3 -> 27 [] e = 4 -> 81 [] e = 5 -> 243 [] e = 6 -> 729 [] e = 7 -> 2187
             [] e = 8 -> 6561 [] e = 9 -> 19683 [] e = 10 -> 59049
\* position of the pair {a, b}, a < b, in the lexicographic list of pairs of 1..5 (fixed so that codes of different n differ by the atom part)
PairIdx(a, b) == CASE a = 1 -> b - 2 [] a = 2 -> 2 + b [] a = 3 -> 4 + b [] a = 4 -> 9
ZDigit(z) == CASE z = 6 -> 1 [] z = 7 -> 2 [] z = 8 -> 0 [] OTHER -> 0
Code(r, f) ==
  LET n == Len(r.z)
      AtomTerm(a) == ZDigit(r.z[a]) * Pow3(f[a] - 1)
      BondTerm(j) == LET a == f[r.b[j][1]] b == f[r.b[j][2]] IN r.b[j][3] * Pow3(PairIdx(IF a < b THEN a ELSE b, IF a < b THEN b ELSE a))
  IN n + 6 * (FoldSet(LAMBDA x, acc : acc + AtomTerm(x), 0, 1..n) + 243 * FoldSet(LAMBDA x, acc : acc + BondTerm(x), 0, 1..Len(r.b)))
\* oxygen has digit 0: the atom count n keeps graphs of different size apart
Key(r) == Min({ Code(r, f) : f \in Perms(Len(r.z)) })

Init == i = 1 /\ pk = -1 /\ k = Key(R[1]) /\ nk = 1
Next == i < N /\ i' = i + 1 /\ pk' = k /\ k' = Key(R[i + 1]) /\ nk' = IF Key(R[i + 1]) # k THEN nk + 1 ELSE nk
If(cond, name) == IF cond THEN {name} ELSE {}
Verdict == (IF i > 1 THEN If(k < pk, "harness-records-not-in-key-order")
                          \cup If(k = pk /\ R[i].s # R[i - 1].s, "numbering-dependent-string")
                          \cup If(k = pk /\ R[i].hash # R[i - 1].hash, "numbering-dependent-hash")
            ELSE {})
           \cup (IF i = N THEN If(Cardinality({ R[j].s : j \in 1..N }) < nk, "collision:two-structures-one-string")
                             \cup If(Cardinality({ R[j].s : j \in 1..N }) > nk, "more-strings-than-structures")
                 ELSE {})
Report == Verdict = {} \/ PrintT(<<"VERDICT", i, Verdict>>)
=============================================================================
