------------------------------- MODULE Trace_C16 -------------------------------
(* C16: recorded template applications validated against Template.tla.
   kind "apply":    S, T (pat, rep, del), mu (the k-th match), P (the k-th product, aromatic-ring fixing off), images (the atom sets of all
                    matches the matcher reports), nprod (number of products), bad (atoms of P in valence error, as the library reports),
                    rt (1 when reading the product's canonical text gives the product back; claimed inside the symmetry domain of C01, Pdom)
   kind "identity": S, P: a template whose replacement is its pattern
   kind "doc":      a documented template test of the deprotection collection: same = 1 when the product is the documented one
   kind "reactor":  ref / alt: canonical strings of the product sets of one Reactor on the same reactants given in two orders and numberings;
                    numbers: per reaction, the atom numbers of all product molecules (must be unique) *)
EXTENDS Template, Aromatic, Json, Sym
CONSTANT CH
R == JsonDeserialize("data.json")
N == Len(R)
VARIABLES c, i
vars == <<c, i>>

\* a configuration the replacement requests on a matched atom: the mark refers to the sequence `seq` (the replacement's own neighbour
\* order, then the neighbours kept from the structure); the product may drop it (centre not stereogenic) but not invert it
Inversions(q) == Cardinality({ <<a, b>> \in (1..Len(q)) \X (1..Len(q)) : a < b /\ q[a] > q[b] })
RequestedParity(x) == ((1 - x.raw) + Inversions(x.seq)) % 2      \* (a missing fourth neighbour - the implicit hydrogen - is last in every order)
\* the one mark of the product sits on an acyclic atom with two substituents of one class and nothing else is marked: not a relative
\* configuration (C01's gap concerns those) but a mark on a centre that is no stereocentre - it has to go, and the text shows it
DeadMark(m) == LET cls == Classes(m)
                   marks == { k \in Nodes(m) : m.atoms[k].p # 2 }
               IN /\ Cardinality(marks) = 1 /\ Len(m.ct) = 0
                  /\ \A k \in marks : AmbiguousCentre(m, cls, k) /\ ~\E q \in RingIds(m) : k \in RingAtoms(m, q)
ApplyV(r) ==
  ApplyVerdict(r.S, r.T, r.mu, r.P)
  \cup If(\E k \in 1..Len(r.req) : r.req[k].n \in Nums(r.P) /\ AtomAt(r.P, r.req[k].n).p \notin {2, RequestedParity(r.req[k])}, "requested-configuration-inverted")
  \cup If(r.nprod # Len(r.images), "number-of-products-is-not-the-number-of-matches")
  \cup If(r.filtered = 1 /\ \E a, b \in 1..Len(r.images) : a < b /\ Rng(r.images[a]) = Rng(r.images[b]), "two-products-for-one-set-of-matched-atoms")
  \cup If(r.valid = 1 /\ r.bad = 0 /\ ~LeavesOpenValence(r.S, r.T, r.mu) /\ r.rt # 1 /\ (InDomainC01(r.Pdom) \/ DeadMark(r.Pdom)), "product-is-not-the-molecule-its-own-text-denotes")
  \cup If(r.valid = 1 /\ ~LeavesOpenValence(r.S, r.T, r.mu) /\ (r.bad # 0 \/ ~ValenceValid(r.Pp)), "product-with-a-valence-error")
IdentityV(r) ==
  If({ Full(a) : a \in Rng(r.S.atoms) } # { Full(a) : a \in Rng(r.P.atoms) } \/ Rng(r.S.bonds) # Rng(r.P.bonds), "identity-template-changes-the-molecule")
  \cup If(\E a \in Rng(r.S.atoms) : a.n \in Nums(r.P) /\ AtomAt(r.P, a.n).p # a.p, "identity-template-changes-a-configuration")
  \cup If(r.sS # r.sP, "identity-template-changes-the-canonical-string")
ReactorV(r) ==
  If(Rng(r.ref) # Rng(r.alt), "products-depend-on-reactant-order-or-numbering")
  \cup If(\E k \in 1..Len(r.numbers) : Len(r.numbers[k]) # Cardinality(Rng(r.numbers[k])), "atom-number-twice-in-the-products-of-a-reaction")
  \cup If(r.bad # 0, "product-with-a-valence-error")
Verdict(r) == CASE r.exc # "" -> {"exception:" \o r.exc}
                [] r.kind = "apply" -> ApplyV(r)
                [] r.kind = "identity" -> IdentityV(r)
                [] r.kind = "doc" -> If(r.same # 1, "documented-product-is-not-produced")
                [] r.kind = "reactor" -> ReactorV(r)
Init == c \in 0..(CH-1) /\ i = c + 1
Next == i + CH <= N /\ i' = i + CH /\ c' = c
Report == i > N \/ Verdict(R[i]) = {} \/ PrintT(<<"VERDICT", i, Verdict(R[i])>>)
=============================================================================
