------------------------------- MODULE Trace_C04 -------------------------------
(* C04: implicit hydrogens, valence errors and the molecular sums.
   record kinds:
     "atom": [z, c, r, env (<<order, neighbour z>>), h (stored count, -1 = none), hc (count computed by calc_implicit), adm (list of [count, accepted]
             pairs: what check_implicit answers for that count)]
     "mol" : [atoms ([z, c, r, h, sym, mass (milli-dalton)]), cv (positions reported by check_valence), brutto ([z, count] pairs),
             charge, radical (0/1), mass (milli-dalton), hmass] *)
EXTENDS Valence
CONSTANT CH
R == JsonDeserialize("data.json")
N == Len(R)
VARIABLES c, i
vars == <<c, i>>
If(cond, name) == IF cond THEN {name} ELSE {}

AtomVerdict(a) ==
  \* a.hc: the count calc_implicit computes; a.h: the count the atom stores (a reader may keep another admitted count, [AlH3])
  If(FirstMatchH(a) # a.hc, "rule-interpreter")
  \cup If(a.h >= 0 /\ ~AdmitsH(a, a.h), "stored-count-not-admitted")
  \cup If(a.built = 1 /\ a.h # FirstMatchH(a), "stored-count-stale")      \* built / edited through the API: no reader choice involved
  \cup If(CoreSaysCount(a) /\ a.hc # CoreH(a), "core-model-count")
  \cup If(CoreSaysInvalid(a) /\ a.hc # -1, "core-model-invalid-state-accepted")
  \cup If(\E k \in 1..Len(a.adm) : (a.adm[k][2] = 1) # AdmitsH(a, a.adm[k][1]), "check-implicit")

RECURSIVE Sum(_, _, _)
Sum(seq, F(_), k) == IF k > Len(seq) THEN 0 ELSE F(seq[k]) + Sum(seq, F, k + 1)
Abs(x) == IF x < 0 THEN -x ELSE x
MolVerdict(m) ==
  LET n == Len(m.atoms)
      H(a) == IF a.h < 0 THEN 0 ELSE a.h
      count(z) == Cardinality({ k \in 1..n : m.atoms[k].z = z }) + (IF z = 1 THEN Sum(m.atoms, H, 1) ELSE 0)
      zs == { m.atoms[k].z : k \in 1..n } \cup (IF Sum(m.atoms, H, 1) > 0 THEN {1} ELSE {})
      valid == \A k \in 1..n : m.atoms[k].h >= 0
  IN If({ m.cv[k] : k \in 1..Len(m.cv) } # { k \in 1..n : m.atoms[k].h < 0 }, "check-valence-set")
     \cup If(m.charge # Sum(m.atoms, LAMBDA a : a.c, 1), "total-charge")
     \cup If((m.radical = 1) # (\E k \in 1..n : m.atoms[k].r = 1), "radical-flag")
     \cup (IF ~valid THEN {} ELSE
           If({ <<m.brutto[k][1], m.brutto[k][2]>> : k \in { j \in 1..Len(m.brutto) : m.brutto[j][2] # 0 } } # { <<z, count(z)>> : z \in zs }, "formula")
           \cup If(Abs(m.mass - Sum(m.atoms, LAMBDA a : a.mass + a.h * m.hmass, 1)) > n + 1, "mass"))
Verdict(r) == IF r.kind = "atom" THEN AtomVerdict(r) ELSE MolVerdict(r)

Init == c \in 0..(CH-1) /\ i = c + 1
Next == i + CH <= N /\ i' = i + CH /\ c' = c
Report == i > N \/ Verdict(R[i]) = {} \/ PrintT(<<"VERDICT", i, Verdict(R[i])>>)
=============================================================================
