------------------------------- MODULE Trace_Wedge -------------------------------
(* C11, other programs and configuration: a record with 2D coordinates and wedge bonds written by RDKit is read by chython, and the
   record chython writes for that molecule is read by RDKit.  Each side is judged through the reader's own canonical string.
   record: [dom (projection for the symmetry domain), fmt, exc,
            cs / cs0   canonical strings (with / without configuration) of the molecule chython read from RDKit's record,
            cr / cr0   the same for chython's own reading of the SMILES,
            rs / rs0   RDKit canonical strings of the molecule RDKit read from chython's record,
            rr / rr0   the same for RDKit's own reading of the SMILES] *)
EXTENDS Sym, Json
CONSTANT CH
R == JsonDeserialize("data.json")
N == Len(R)
VARIABLES c, i
vars == <<c, i>>
If(cond, name) == IF cond THEN {name} ELSE {}
Verdict(r) ==
  IF r.exc # "" THEN {"exception:" \o r.exc}
  ELSE If(r.cs0 # r.cr0, "record-of-another-program-read-as-another-constitution")
       \cup If(r.rs0 # r.rr0, "written-record-is-another-constitution-for-another-program")
       \cup (IF InDomainC01(r.dom)
             THEN If(r.cs # r.cr, "record-of-another-program-read-with-another-configuration")
                  \cup If(r.rs # r.rr, "written-record-has-another-configuration-for-another-program")
             ELSE {})
Init == c \in 0..(CH-1) /\ i = c + 1
Next == i + CH <= N /\ i' = i + CH /\ c' = c
Report == i > N \/ (/\ (Verdict(R[i]) = {} \/ PrintT(<<"VERDICT", i, Verdict(R[i])>>))
                    /\ (R[i].exc # "" \/ InDomainC01(R[i].dom) \/ PrintT(<<"INFO", i, "ood">>)))
=============================================================================
