------------------------------- MODULE Trace_C02 -------------------------------
(* C02: a molecule written by chython in some style, judged by the reference reader.
   record: [s (characters of the SMILES part), cx (characters of the CXSMILES block or <<>>),
            atoms / bonds / ct : projection of the *original* molecule permuted into the written atom order (see SmilesJudge),
            back : the same projection of chython.smiles(text) ("" fields as in C03), bout : outcome of reading back,
            maps (1 when the style writes atom maps), lossy (1 for the styles that drop information on purpose)]
   Clauses (w-* : the written text does not denote the original; r-* : the library's own reader does not restore it) *)
EXTENDS SmilesJudge, SmilesValence, Cx, Json
CONSTANT CH
R == JsonDeserialize("data.json")
N == Len(R)
VARIABLES c, i, pos, ps
vars == <<c, i, pos, ps>>

BondSum(s, k) == LET B == { j \in 1..Len(s.bonds) : k \in {s.bonds[j][1], s.bonds[j][2]} }
                     RECURSIVE Sum(_)
                     Sum(S) == IF S = {} THEN 0 ELSE LET j == CHOOSE j \in S : TRUE
                                                     IN (IF s.bonds[j][3] = 4 THEN 1 ELSE IF s.bonds[j][3] = 8 THEN 0 ELSE s.bonds[j][3]) + Sum(S \ {j})
                 IN Sum(B)
\* hydrogens the text gives atom k
TextH(s, k) == IF s.atoms[k].br THEN s.atoms[k].h
               ELSE IF s.atoms[k].arom \/ \E j \in 1..Len(s.bonds) : k \in {s.bonds[j][1], s.bonds[j][2]} /\ s.bonds[j][3] = 4
                    THEN AromaticH(s.atoms[k].z, BondSum(s, k)) ELSE OrganicH(s.atoms[k].z, BondSum(s, k))

Prefix(name, S) == { name \o x : x \in S }
HVerdict(r, s) ==
  IF Len(s.atoms) # Len(r.atoms) THEN {}
  ELSE If(\E k \in 1..Len(r.atoms) : r.atoms[k].h >= 0 /\ TextH(s, k) # r.atoms[k].h, "hydrogens")
RadVerdict(r, s) ==
  IF Len(s.atoms) # Len(r.atoms) THEN {}
  ELSE If({ k - 1 : k \in { k \in 1..Len(r.atoms) : r.atoms[k].r = 1 } } # Radicals(r.cx), "radicals")
LostStereo(r, s) ==
  IF Len(s.atoms) # Len(r.atoms) \/ ~BondsAgree(r, s) THEN {}
  ELSE If(\E k \in 1..Len(r.atoms) : r.atoms[k].p = 2 /\ TetParity(s, k) # 2, "invented-parity")

\* two recorded same-side relations of one double bond {a, b} agree: naming the other substituent on an end flips the relation
Oriented(q, a) == IF q[1] = a THEN q ELSE <<q[2], q[1], q[4], q[3], q[5]>>
CtAgree(q, p) == LET p2 == Oriented(p, q[1])
                 IN {q[1], q[2]} = {p[1], p[2]}
                    /\ ((q[5] = 1) = ((p2[5] = 1) = ((q[3] = p2[3]) = (q[4] = p2[4]))))
CtSame(A, B) == /\ Len(A) = Len(B)
                /\ \A k \in 1..Len(A) : \E j \in 1..Len(B) : CtAgree(A[k], B[j])

Same(a, b) == a.z = b.z /\ a.c = b.c /\ a.i = b.i /\ a.r = b.r /\ a.h = b.h /\ a.p = b.p
ReadBack(r) ==
  IF r.bout # "ok" THEN {"r-" \o r.bout}
  ELSE IF Len(r.back.atoms) # Len(r.atoms) THEN {"r-natoms"}
  ELSE If(\E k \in 1..Len(r.atoms) : r.back.atoms[k].z # r.atoms[k].z, "r-element")
       \cup If(\E k \in 1..Len(r.atoms) : r.back.atoms[k].c # r.atoms[k].c, "r-charge")
       \cup If(\E k \in 1..Len(r.atoms) : r.back.atoms[k].i # r.atoms[k].i, "r-isotope")
       \cup If(\E k \in 1..Len(r.atoms) : r.back.atoms[k].r # r.atoms[k].r, "r-radical")
       \cup If(\E k \in 1..Len(r.atoms) : r.back.atoms[k].h # r.atoms[k].h, "r-hydrogens")
       \cup If(\E k \in 1..Len(r.atoms) : r.back.atoms[k].p # r.atoms[k].p, "r-parity")
       \cup If(r.maps = 1 /\ \E k \in 1..Len(r.atoms) : r.back.atoms[k].n # r.atoms[k].n, "r-number")
       \cup If(ObsBonds(r.back) # ObsBonds(r), "r-bonds")
       \cup If(~CtSame(r.ct, r.back.ct), "r-cistrans")
       \cup If(~CtSame(r.ax, r.back.ax), "r-axis")      \* allene / cumulene marks: the same algebra (Stereo.tla)

\* the styles that drop information on purpose ("!s" configuration, "!b" bond symbols, "!z" charges) drop exactly that:
\* r.drop = [s, b, z] (0 / 1).  Hydrogen counts are not claimed (the reader derives them from what is left).
PairSet(B) == { {b[1], b[2]} : b \in B }
LossyVerdict(r, s) ==
  IF Len(s.atoms) # Len(r.atoms) THEN {"natoms"}
  ELSE If(\E k \in 1..Len(r.atoms) : s.atoms[k].z # r.atoms[k].z, "element")
       \cup If(\E k \in 1..Len(r.atoms) : s.atoms[k].iso # r.atoms[k].i, "isotope")
       \cup If(r.drop.z = 0 /\ \E k \in 1..Len(r.atoms) : s.atoms[k].chg # r.atoms[k].c, "charge")
       \cup If(r.drop.z = 1 /\ \E k \in 1..Len(r.atoms) : s.atoms[k].chg # 0, "charge-written-although-dropped")
       \cup If(r.drop.b = 0 /\ ~BondsAgree(r, s), "bonds")
       \cup If(r.drop.b = 1 /\ PairSet(BondSet(s)) # PairSet(ObsBonds(r)), "skeleton")
       \cup If(r.drop.b = 1 /\ \E k \in 1..Len(s.bonds) : s.bonds[k][3] \notin {1, 4}, "bond-symbol-written-although-dropped")
       \cup If(r.drop.s = 1 /\ \E k \in 1..Len(r.atoms) : TetParity(s, k) # 2, "configuration-written-although-dropped")
       \cup If(r.drop.s = 1 /\ \E k \in 1..Len(s.bonds) : s.bonds[k][4] # 0, "direction-written-although-dropped")
       \cup (IF r.drop.s = 0 /\ r.drop.b = 0 THEN StereoVerdict(r, s) ELSE {})

Verdict(r, s0) ==
  LET s == Finish(s0) IN
  IF s.st # "ok" THEN {"w-rejected-by-reference-reader"}
  ELSE IF r.lossy = 1 THEN Prefix("w-", LossyVerdict(r, s))
  ELSE Prefix("w-", GraphVerdict(r, s) \cup StereoVerdict(r, s) \cup HVerdict(r, s) \cup RadVerdict(r, s) \cup LostStereo(r, s)
                    \cup (IF r.maps = 1 THEN NumberVerdict(r, s) ELSE {}))
       \cup ReadBack(r)

Init == c \in 0..(CH-1) /\ i = c + 1 /\ pos = 1 /\ ps = Init0
Next == \/ /\ i <= N /\ pos <= Len(R[i].s)
           /\ ps' = Step(ps, R[i].s[pos]) /\ pos' = pos + 1 /\ UNCHANGED <<c, i>>
        \/ /\ i <= N /\ pos > Len(R[i].s) /\ i + CH <= N
           /\ i' = i + CH /\ pos' = 1 /\ ps' = Init0 /\ c' = c
Report == ~(i <= N /\ pos > Len(R[i].s)) \/ Verdict(R[i], ps) = {} \/ PrintT(<<"VERDICT", i, Verdict(R[i], ps)>>)
=============================================================================
