------------------------------- MODULE Trace_C03rx -------------------------------
(* C03, line level: reaction arrows, dots between molecules, the CXSMILES block (radicals, fragment grouping).
   record: [s (characters before the first blank), cx (characters of the block or <<>>), out ("ok"|"valueerror"|"foreign"),
            rx (1 when chython returned a reaction), roles (<<reactants, reagents, products>>: sequences of molecule projections,
            each [atoms, bonds] as in SmilesJudge; a plain molecule is reported as one "reactant")]
   The reference reading:  split at ">" (a reaction has exactly two), split every role at ".", contract the groups named by
   "f:", read every molecule text with SmilesRead, mark the atoms named by "^1:" (0-based, in reading order reactants,
   reagents, products) as radicals.
   Unspecified (leniencies of ignore=True, see DESIGN.md): empty pieces between dots, groups that span two roles or repeat
   an index, radical lists that repeat an index, radicals together with non-adjacent groups. *)
EXTENDS SmilesJudge, Cx, Json
CONSTANT CH
R == JsonDeserialize("data.json")
N == Len(R)
VARIABLES c, i
vars == <<c, i>>

Arrows(s) == Cardinality({ k \in 1..Len(s) : s[k] = ">" })
RoleTexts(s) == IF Arrows(s) = 0 THEN << <<s>>, <<>>, <<>> >>        \* a plain (possibly multi-component) molecule: one text
                ELSE LET p == Split(s, ">") IN
                     << IF p[1] = <<>> THEN <<>> ELSE Split(p[1], "."), IF p[2] = <<>> THEN <<>> ELSE Split(p[2], "."),
                        IF p[3] = <<>> THEN <<>> ELSE Split(p[3], ".") >>
\* molecule indices (0-based, written order) of role k
Base(rt, k) == IF k = 1 THEN 0 ELSE IF k = 2 THEN Len(rt[1]) ELSE Len(rt[1]) + Len(rt[2])
RoleIdx(rt, k) == { Base(rt, k) + q - 1 : q \in 1..Len(rt[k]) }
Total(rt) == Len(rt[1]) + Len(rt[2]) + Len(rt[3])
GroupsOK(rt, G) == /\ \A g \in 1..Len(G) : \E k \in 1..3 : G[g] \subseteq RoleIdx(rt, k)
                   /\ \A g, h \in 1..Len(G) : g # h => G[g] \cap G[h] = {}
GroupOf(G, x) == IF \E g \in 1..Len(G) : x \in G[g] THEN G[CHOOSE g \in 1..Len(G) : x \in G[g]] ELSE {x}
MinOf(S) == CHOOSE m \in S : \A x \in S : m <= x
RECURSIVE Ascending(_)
Ascending(S) == IF S = {} THEN <<>> ELSE <<MinOf(S)>> \o Ascending(S \ {MinOf(S)})
\* contracted molecule texts of role k: one per group leader, members joined by "."
Contracted(rt, G, k) ==
  LET leaders == Ascending({ x \in RoleIdx(rt, k) : x = MinOf(GroupOf(G, x)) })
      TextOf(x) == rt[k][x - Base(rt, k) + 1]
  IN [q \in 1..Len(leaders) |-> LET mem == Ascending(GroupOf(G, leaders[q])) IN JoinDot([j \in 1..Len(mem) |-> TextOf(mem[j])])]

Unspecified(r, rt, G) ==
  \/ \E k \in 1..3 : \E q \in 1..Len(rt[k]) : rt[k][q] = <<>>
  \/ ~GroupsOK(rt, G)
  \/ \E g \in 1..Len(G) : \E x \in G[g] : x >= Total(rt)
  \/ (G # <<>> /\ Radicals(r.cx) # {})
  \/ (Len(r.s) >= 1 /\ r.s[1] = "(")

If2(cond, name) == IF cond THEN {name} ELSE {}
MolVerdict(obs, s, offset, rads) ==
  GraphVerdict(obs, s)
  \cup (IF Len(s.atoms) # Len(obs.atoms) THEN {}
        ELSE \* an atom the block names is a radical; any other radical is a bracket atom whose written hydrogen count leaves a
             \* valence open ([CH3], C[O]): the reader's documented inference, judged by C04, not here
             If2(\E a \in 1..Len(obs.atoms) : (offset + a - 1) \in rads /\ obs.atoms[a].r # 1, "radical-not-set")
             \cup If2(\E a \in 1..Len(obs.atoms) : obs.atoms[a].r = 1 /\ (offset + a - 1) \notin rads /\ ~s.atoms[a].br, "radical-invented"))
RECURSIVE AtomCount(_)
AtomCount(seq) == IF Len(seq) = 0 THEN 0 ELSE Len(seq[1].atoms) + AtomCount(Tail(seq))

Verdict(r) ==
  LET rt == RoleTexts(r.s)
      G == IF Arrows(r.s) = 0 THEN <<>> ELSE Fragments(r.cx)       \* grouping only applies to reactions
      wellformed == Arrows(r.s) \in {0, 2}
  IN If2(r.out = "foreign", "foreign-exception")
     \cup (IF ~wellformed THEN If2(r.out = "ok", "accepts-outside-language")
           ELSE IF Unspecified(r, rt, G) THEN {}
           ELSE LET texts == [k \in 1..3 |-> Contracted(rt, G, k)]
                    reads == [k \in 1..3 |-> [q \in 1..Len(texts[k]) |-> Read(texts[k][q])]]
                    allok == \A k \in 1..3 : \A q \in 1..Len(reads[k]) : reads[k][q].st = "ok"
                    natoms == AtomCount(reads[1]) + AtomCount(reads[2]) + AtomCount(reads[3])
                    radok == \A x \in Radicals(r.cx) : x < natoms
                IN IF ~allok \/ ~radok \/ Total(rt) = 0 THEN If2(r.out = "ok", "accepts-outside-language")
                   ELSE If2(r.out = "valueerror", "rejects-valid")
                        \cup (IF r.out # "ok" THEN {}
                              ELSE If2((r.rx = 1) # (Arrows(r.s) = 2), "reaction-vs-molecule")
                                   \cup (IF \E k \in 1..3 : Len(r.roles[k]) # Len(reads[k]) THEN {"molecules-per-role"}
                                         ELSE UNION { UNION { MolVerdict(r.roles[k][q], reads[k][q],
                                                                         (IF k = 1 THEN 0 ELSE IF k = 2 THEN AtomCount(reads[1]) ELSE AtomCount(reads[1]) + AtomCount(reads[2]))
                                                                         + AtomCount(SubSeq(reads[k], 1, q - 1)), Radicals(r.cx))
                                                              : q \in 1..Len(reads[k]) } : k \in 1..3 })))

Init == c \in 0..(CH-1) /\ i = c + 1
Next == i + CH <= N /\ i' = i + CH /\ c' = c
Report == i > N \/ Verdict(R[i]) = {} \/ PrintT(<<"VERDICT", i, Verdict(R[i])>>)
=============================================================================
