------------------------------- MODULE Trace_C17 -------------------------------
(* C17: record [m (see Fingerprint), lo, hi, frags (sequence of [d (descriptor), paths (sequence of atom sequences)] as reported by _fragments),
   nbp (number_bit_pairs), lh (reported linear hash set, decimal strings), table (sequence of [d, cnt, h] : the hash of every (descriptor, count index)),
   mcol (per radius 1..hi the rank of every atom's Morgan identifier), mh (reported morgan hash set, strings), mtable (per radius the hash strings of the atoms),
   lh2 / mh2 (hash sets of a renumbered re-inserted copy), log, nactive, lbits / mbits (reported bit sets), lhb / mhb (the 64 bits of every
   reported linear / morgan hash)] *)
EXTENDS Fingerprint, Json
CONSTANT CH
R == JsonDeserialize("data.json")
N == Len(R)
VARIABLES c, i
vars == <<c, i>>
If(cond, name) == IF cond THEN {name} ELSE {}
SetOf(q) == { q[k] : k \in 1..Len(q) }
Verdict(r) ==
  LET m == r.m
      expected == Fragments(m, r.lo, r.hi)
      reported == UNION { { {r.frags[k].paths[j], Reverse(r.frags[k].paths[j])} : j \in 1..Len(r.frags[k].paths) } : k \in 1..Len(r.frags) }
      nrep == LET RECURSIVE S(_) S(k) == IF k > Len(r.frags) THEN 0 ELSE Len(r.frags[k].paths) + S(k + 1) IN S(1)
      cap(len) == IF r.nbp = 0 THEN len ELSE IF len < r.nbp THEN len ELSE r.nbp
      lenOf(d) == Len(r.frags[CHOOSE k \in 1..Len(r.frags) : r.frags[k].d = d].paths)
      expectedHashes == { r.table[k].h : k \in { j \in 1..Len(r.table) : r.table[j].cnt < cap(lenOf(r.table[j].d)) } }
      col(rad) == [a \in Nodes(m) |-> r.mcol[rad][a]]
  IN If(~IdentifierIsFunctionOfKey(m), "atom-identifier-is-not-a-function-of-the-atom")
     \cup If(reported # expected, "fragments-are-not-the-simple-paths")
     \cup If(nrep # Cardinality(expected), "fragment-listed-twice")
     \cup If(\E k \in 1..Len(r.frags) : \E j \in 1..Len(r.frags[k].paths) : CanonDesc(m, r.frags[k].paths[j]) # r.frags[k].d, "descriptor")
     \cup If(SetOf(r.lh) # expectedHashes, "linear-hash-set-vs-multiplicity-cap")
     \cup If(~SamePartition(m, col(1), [a \in Nodes(m) |-> m.atoms[a].id]), "morgan-radius-1")
     \cup If(\E rad \in 1..(Len(r.mcol) - 1) : ~RefinesCorrectly(m, col(rad), col(rad + 1)), "morgan-refinement")
     \cup If(SetOf(r.mh) # UNION { SetOf(r.mtable[rad]) : rad \in r.lo..r.hi }, "morgan-hash-set-vs-radii")
     \* iterated identifiers: the identifier of radius r+1 is a hash over the radius-r identifier and the neighbourhood, so (no collisions
     \* assumed) no identifier of one radius is an identifier of another, also for an atom without neighbours
     \cup If(\E r1, r2 \in 1..Len(r.mtable) : r1 < r2 /\ SetOf(r.mtable[r1]) \cap SetOf(r.mtable[r2]) # {}, "morgan-identifier-not-iterated")
     \cup If(SetOf(r.lh2) # SetOf(r.lh), "linear-depends-on-numbering")
     \cup If(SetOf(r.mh2) # SetOf(r.mh), "morgan-depends-on-numbering")
     \cup If(SetOf(r.lbits) # ActiveBits(r.lhb, r.log, r.nactive), "linear-folding")
     \cup If(SetOf(r.mbits) # ActiveBits(r.mhb, r.log, r.nactive), "morgan-folding")
     \cup If(\E x \in SetOf(r.lbits) \cup SetOf(r.mbits) : x >= 2 ^ r.log, "bit-index-out-of-range")
Init == c \in 0..(CH-1) /\ i = c + 1
Next == i + CH <= N /\ i' = i + CH /\ c' = c
Report == i > N \/ Verdict(R[i]) = {} \/ PrintT(<<"VERDICT", i, Verdict(R[i])>>)
=============================================================================
