------------------------------- MODULE Trace_C07 -------------------------------
(* C07: recorded substructure searches against the declarative set of embeddings.
   record: [p, t (pattern / target as in Match), scope (sequence of target positions or <<>> = everything), filter (0/1),
            maps (sequence of mappings: sequence pattern position -> target position), sub / lt / le / eq (0/1: is_substructure,
            p < t, p <= t, is_equal; 9 = not recorded), exc (optional: the exception class when the search raised)] *)
EXTENDS Match, Json
CONSTANT CH
R == JsonDeserialize("data.json")
N == Len(R)
VARIABLES c, i
vars == <<c, i>>
If(cond, name) == IF cond THEN {name} ELSE {}
Verdict(r) ==
  LET scope == IF Len(r.scope) = 0 THEN Nodes(r.t) ELSE { r.scope[k] : k \in 1..Len(r.scope) }
      E == Embeddings(r.p, r.t, scope)
      obs == { r.maps[k] : k \in 1..Len(r.maps) }
      images(S) == { RangeOf(f) : f \in S }
  IN If("exc" \in DOMAIN r /\ r.exc # "", "search-raised:" \o (IF "exc" \in DOMAIN r THEN r.exc ELSE ""))
     \cup If(~(obs \subseteq E), "returned-a-map-that-is-not-an-embedding")
     \cup If(Cardinality(obs) # Len(r.maps), "duplicate-mapping")
     \cup (IF r.filter = 0 THEN If(~(E \subseteq obs), "embedding-missed")
           ELSE If(images(obs) # images(E), "image-set-missed-or-invented") \cup If(Cardinality(images(obs)) # Len(r.maps), "filter-kept-two-maps-of-one-image-set"))
     \cup If(r.sub # 9 /\ (r.sub = 1) # (Embeddings(r.p, r.t, Nodes(r.t)) # {}), "is_substructure")
     \cup If(r.le # 9 /\ (r.le = 1) # (Embeddings(r.p, r.t, Nodes(r.t)) # {}), "operator<=")
     \cup If(r.lt # 9 /\ (r.lt = 1) # (Len(r.p.atoms) < Len(r.t.atoms) /\ Embeddings(r.p, r.t, Nodes(r.t)) # {}), "operator<")
     \cup If(r.eq # 9 /\ (r.eq = 1) # (Len(r.p.atoms) = Len(r.t.atoms) /\ Embeddings(r.p, r.t, Nodes(r.t)) # {}), "is_equal")
Init == c \in 0..(CH-1) /\ i = c + 1
Next == i + CH <= N /\ i' = i + CH /\ c' = c
Report == i > N \/ Verdict(R[i]) = {} \/ PrintT(<<"VERDICT", i, Verdict(R[i])>>)
=============================================================================
