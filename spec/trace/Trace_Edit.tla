------------------------------- MODULE Trace_Edit -------------------------------
(* C13: recorded edit histories of real MoleculeContainer objects against Edit.tla.

   data.json = sequence of histories  [key, init (sequence of object projections), ev (sequence of events)]
   event     = [op, o (object id), a (arguments), exc ("" or the exception class), post (projections of all live objects after
               the call), val / ref (for Read: the derived values reported by the object / by a molecule rebuilt from scratch)]
   projection = [id, ord, el, chg, rad, nbr, bonds (<<a,b,order>>), h (stored hydrogens), href (hydrogens of the rebuilt
               molecule), lab / labref (stored ring / hybridisation / neighbour marks and those of the rebuilt molecule),
               st / stref (configuration marks of the object / of the rebuilt molecule to which the marks the object carried
               before the call were re-applied through the public API; canonical spelling)]

   The spec state is advanced with the operators of Edit (the unlogged variables - cache, pending set, snapshot - are the
   spec's own); after every event the recorded projection must equal the spec state.  Clause names carry the step. *)
EXTENDS Edit, Json
CONSTANT CH
R == JsonDeserialize("data.json")
N == Len(R)
VARIABLES c, i, l, bad
tvars == <<c, i, l, bad, objs>>

Idx(seq, x) == CHOOSE k \in 1..Len(seq) : seq[k] = x
FromProj(p) ==
  [live |-> TRUE, ord |-> p.ord,
   el |-> TLCEval([n \in Range(p.ord) |-> p.el[Idx(p.ord, n)]]), chg |-> TLCEval([n \in Range(p.ord) |-> p.chg[Idx(p.ord, n)]]),
   rad |-> TLCEval([n \in Range(p.ord) |-> p.rad[Idx(p.ord, n)] = 1]),
   x |-> TLCEval([n \in Range(p.ord) |-> p.x[Idx(p.ord, n)]]),
   nbr |-> TLCEval([n \in Range(p.ord) |-> p.nbr[Idx(p.ord, n)]]),
   bo |-> TLCEval([q \in { {p.bonds[k][1], p.bonds[k][2]} : k \in 1..Len(p.bonds) } |->
             LET k == CHOOSE k \in 1..Len(p.bonds) : {p.bonds[k][1], p.bonds[k][2]} = q IN p.bonds[k][3]]),
   hfresh |-> Range(p.ord), cache |-> <<>>, changed |-> {}, tx |-> NoTx, usable |-> TRUE]
Shape(o) == <<o.ord, o.el, o.chg, o.rad, o.x, o.nbr, o.bo>>
InitObjs(h) == [id \in Objs |-> IF \E k \in 1..Len(h.init) : h.init[k].id = id
                                THEN FromProj(h.init[CHOOSE k \in 1..Len(h.init) : h.init[k].id = id]) ELSE Dead]

SetOf(seq) == { seq[k] : k \in 1..Len(seq) }
\* the event as a spec step; <<enabled, new object table>>
Step(S, e) ==
  LET o == S[e.o] IN
  CASE e.op = "AddAtom"  -> <<CanAddAtom(o, e.a[1]), [S EXCEPT ![e.o] = DoAddAtom(o, e.a[1], e.a[2])]>>
    [] e.op = "AddBond"  -> <<CanAddBond(o, e.a[1], e.a[2]), [S EXCEPT ![e.o] = DoAddBond(o, e.a[1], e.a[2], e.a[3])]>>
    [] e.op = "DelBond"  -> <<CanDelBond(o, e.a[1], e.a[2]), [S EXCEPT ![e.o] = DoDelBond(o, e.a[1], e.a[2])]>>
    [] e.op = "DelAtom"  -> <<CanDelAtom(o, e.a[1]), [S EXCEPT ![e.o] = DoDelAtom(o, e.a[1])]>>
    [] e.op = "Read"     -> <<CanRead(o, e.a[1]), [S EXCEPT ![e.o] = DoRead(o, e.a[1])]>>
    [] e.op = "Begin"    -> <<CanBegin(o), [S EXCEPT ![e.o] = DoBegin(o)]>>
    [] e.op = "SetCharge" -> <<CanSet(o, e.a[1]), [S EXCEPT ![e.o] = DoSetCharge(o, e.a[1], e.a[2])]>>
    [] e.op = "SetRadical" -> <<CanSet(o, e.a[1]), [S EXCEPT ![e.o] = DoSetRadical(o, e.a[1], ~o.rad[e.a[1]])]>>
    [] e.op = "Move"     -> <<CanMove(o, e.a[1]), [S EXCEPT ![e.o] = DoMove(o, e.a[1])]>>
    [] e.op = "Commit"   -> <<CanEnd(o), [S EXCEPT ![e.o] = DoCommit(o)]>>
    [] e.op = "Abort"    -> <<CanEnd(o), [S EXCEPT ![e.o] = DoAbort(o)]>>
    [] e.op = "Swap"     -> <<Ready(o) /\ ~InTx(o) /\ {e.a[1], e.a[2]} \subseteq Atoms(o),
                              [S EXCEPT ![e.o] = DoRemap(o, [x \in {e.a[1], e.a[2]} |-> IF x = e.a[1] THEN e.a[2] ELSE e.a[1]])]>>
    [] e.op = "Copy"     -> <<Ready(o) /\ ~InTx(o) /\ ~S[e.a[1]].live, [S EXCEPT ![e.a[1]] = DoCopy(o)]>>
    [] e.op = "Sub"      -> <<CanSub(o, SetOf(e.a[1])) /\ ~S[e.a[2]].live, [S EXCEPT ![e.a[2]] = DoSub(o, SetOf(e.a[1]))]>>
    [] e.op = "Union"    -> <<Ready(o) /\ Ready(S[e.a[1]]) /\ ~InTx(o) /\ ~InTx(S[e.a[1]]) /\ ~S[e.a[2]].live,
                              [S EXCEPT ![e.a[2]] = DoUnion(o, S[e.a[1]], FALSE)]>>
    [] e.op = "UnionInPlace" -> <<Ready(o) /\ Ready(S[e.a[1]]) /\ ~InTx(o) /\ ~InTx(S[e.a[1]]),
                              [S EXCEPT ![e.o] = DoUnion(o, S[e.a[1]], TRUE)]>>
    [] e.op = "Drop"     -> <<o.live, [S EXCEPT ![e.o] = Dead]>>

Post(e, id) == e.post[CHOOSE k \in 1..Len(e.post) : e.post[k].id = id]
Logged(e) == { e.post[k].id : k \in 1..Len(e.post) }
FreshObserved(p) == { p.ord[k] : k \in { k \in 1..Len(p.ord) : p.h[k] = p.href[k] } }

Tag(name, step) == name \o "@" \o ToString(step)
\* verdict of event e (the l-th of its history) given the object table before (S) -- evaluated after the step
Verdict(S, e, step) ==
  LET st == TLCEval(Step(S, e))
      T == TLCEval(st[2])
  IN IF e.exc # "" THEN {Tag("StaysUsable:" \o e.op \o ":" \o e.exc, step)}
     ELSE IF ~st[1] THEN {Tag("driver-step-not-enabled:" \o e.op, step)}
     ELSE (IF { id \in Objs : T[id].live } # Logged(e) THEN {Tag("objects", step)} ELSE
            UNION { (IF Shape(FromProj(Post(e, id))) # Shape(T[id])
                     THEN {Tag((IF id = e.o \/ ~S[id].live THEN "structure:" ELSE "Independent:") \o e.op, step)} ELSE {})
                    \cup (IF ~(T[id].hfresh \subseteq FreshObserved(Post(e, id))) THEN {Tag("HydrogensFresh:" \o e.op, step)} ELSE {})
                    \cup (IF ~InTx(T[id]) /\ Post(e, id).lab # Post(e, id).labref THEN {Tag("labels:" \o e.op, step)} ELSE {})
                    \cup (IF ~InTx(T[id]) /\ ~(SetOf(Post(e, id).stref) \subseteq SetOf(Post(e, id).st)) THEN {Tag("stereo:" \o e.op, step)} ELSE {})
                    : id \in Logged(e) })
          \cup (IF e.op = "Read" /\ e.val # e.ref THEN {Tag("CacheCoherent:" \o e.a[1], step)} ELSE {})

TInit == c \in 0..(CH-1) /\ i = c + 1 /\ l = 1 /\ bad = {} /\ objs = InitObjs(R[i])
TNext == \/ /\ i <= N /\ l <= Len(R[i].ev)
           /\ LET e == R[i].ev[l] st == TLCEval(Step(objs, e)) v == TLCEval(Verdict(objs, e, l)) IN
                /\ bad' = v
                /\ objs' = IF v = {} THEN st[2] ELSE objs          \* a rejected step ends the validation of this history
                /\ l' = IF v = {} THEN l + 1 ELSE Len(R[i].ev) + 1
           /\ UNCHANGED <<c, i>>
        \/ /\ i <= N /\ l > Len(R[i].ev) /\ i + CH <= N
           /\ i' = i + CH /\ l' = 1 /\ bad' = {} /\ objs' = InitObjs(R[i + CH]) /\ c' = c
Report == bad = {} \/ PrintT(<<"VERDICT", i, bad>>)
\* the design-level invariants also hold along every recorded history
TraceInv == CacheCoherent /\ AdjacencySymmetric
=============================================================================
