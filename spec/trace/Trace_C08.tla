------------------------------- MODULE Trace_C08 -------------------------------
(* C08, parsing side: one-atom SMARTS "[body]" and two-atom SMARTS "C<bond>C" against the documented subset (Smarts.tla).
   record "atom": [body (characters), cls ("subset" | "unsupported"), out ("ok" | "IncorrectSmarts" | "valueerror" | "foreign"),
                   q (projection of the parsed query atom, as in Match.tla, + masked, st, n (atom number))]
   record "bond": [tok (characters), cls, out, orders (sequence), inring (-1 / 0 / 1)]
   The matching side (a query atom matches exactly the atoms whose independently derived attributes satisfy it) is validated
   by Trace_C07 on one- and two-atom queries. *)
EXTENDS Smarts, Json
CONSTANT CH
R == JsonDeserialize("data.json")
N == Len(R)
VARIABLES c, i
vars == <<c, i>>
If(cond, name) == IF cond THEN {name} ELSE {}
AtomVerdict(r) ==
  LET p == ParseQueryAtom(r.body) IN
  If(r.out = "foreign", "foreign-exception")
  \cup (IF r.cls = "unsupported" THEN If(r.out # "IncorrectSmarts", "unsupported-smarts-not-rejected-with-IncorrectSmarts")
                                       \cup If(p.ok, "harness-unsupported-body-is-in-the-subset")
        ELSE IF ~p.ok THEN {"harness-generated-body-outside-the-subset"}
        ELSE IF r.out # "ok" THEN {"documented-smarts-rejected"}
        ELSE LET a == p.atom q == r.q IN
             If(q.kind # a.kind, "kind") \cup If(q.zs # a.zs, "elements") \cup If(q.i # a.i, "isotope") \cup If(q.c # a.c, "charge")
             \cup If(q.nb # a.nb, "neighbours-D") \cup If(q.hs # a.hs, "hydrogens-h") \cup If(q.het # a.het, "heteroatoms-x")
             \cup If(q.hyb # a.hyb, "hybridisation-z/a") \cup If(q.rs # a.rs, "rings-r/!R") \cup If(q.masked # a.masked, "masked-M")
             \cup If(q.st # a.st, "stereo-mark") \cup If(a.map # 0 /\ q.n # a.map, "map-number"))
BondVerdict(r) ==
  LET p == ParseBond(r.tok) IN
  If(r.out = "foreign", "foreign-exception")
  \cup (IF r.cls = "unsupported" THEN If(r.out # "IncorrectSmarts", "unsupported-smarts-not-rejected-with-IncorrectSmarts")
        ELSE IF ~p[1] THEN {"harness-generated-token-outside-the-subset"}
        ELSE IF r.out # "ok" THEN {"documented-smarts-rejected"}
        ELSE If(r.orders # p[2], "bond-orders") \cup If(r.inring # p[3], "ring-bond-mark"))
Verdict(r) == IF r.kind = "atom" THEN AtomVerdict(r) ELSE BondVerdict(r)
Init == c \in 0..(CH-1) /\ i = c + 1
Next == i + CH <= N /\ i' = i + CH /\ c' = c
Report == i > N \/ Verdict(R[i]) = {} \/ PrintT(<<"VERDICT", i, Verdict(R[i])>>)
=============================================================================
