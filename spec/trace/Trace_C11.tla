------------------------------- MODULE Trace_C11 -------------------------------
(* C11: write a molecule / reaction in a file format, read it back, compare.
   record: [fmt, exc ("" or the exception class), w / b (written / read back): sequences of roles (reactants, reagents, products; a molecule is
            one "reactant"), each role a sequence of molecules [atoms ([n (number), z, i, c, r, p (parity w.r.t. ascending position, 2 = none),
            x, y (coordinates * 10^4, integers)]), bonds (<<a, b, order>>), ct (<<a, b, x, y, cis>>), name (characters)],
            meta / bmeta (sequences of <<key, value>> character sequences, normalised by the documented per-line strip)] *)
EXTENDS Stereo, Json
CONSTANT CH
R == JsonDeserialize("data.json")
N == Len(R)
VARIABLES c, i
vars == <<c, i>>
If(cond, name) == IF cond THEN {name} ELSE {}
\* integer cross product sign: on which side of the axis a -> b the point x lies
Side(m, a, b, x) == LET ax == m.atoms[a].x ay == m.atoms[a].y IN
                    (m.atoms[b].x - ax) * (m.atoms[x].y - ay) - (m.atoms[b].y - ay) * (m.atoms[x].x - ax)
Sign(v) == IF v > 0 THEN 1 ELSE IF v < 0 THEN -1 ELSE 0
\* the written 2D geometry shows the stored configuration of the double bond (these formats carry it only through coordinates)
CoordsAgree(m, q) == LET s1 == Sign(Side(m, q[1], q[2], q[3])) s2 == Sign(Side(m, q[1], q[2], q[4])) IN
                     s1 # 0 /\ s2 # 0 /\ ((s1 = s2) = (q[5] = 1))
HasCoords(m) == \E k \in 1..Len(m.atoms) : m.atoms[k].x # 0 \/ m.atoms[k].y # 0
MolVerdict(g, h) ==
  IF Len(g.atoms) # Len(h.atoms) THEN {"atom-count"}
  ELSE If(\E k \in 1..Len(g.atoms) : g.atoms[k].n # h.atoms[k].n, "atom-numbers-or-order")
       \cup If(\E k \in 1..Len(g.atoms) : g.atoms[k].z # h.atoms[k].z, "element")
       \cup If(\E k \in 1..Len(g.atoms) : g.atoms[k].i # h.atoms[k].i, "isotope")
       \cup If(\E k \in 1..Len(g.atoms) : g.atoms[k].c # h.atoms[k].c, "charge")
       \cup If(\E k \in 1..Len(g.atoms) : g.atoms[k].r # h.atoms[k].r, "radical")
       \cup If({ <<g.bonds[j][1], g.bonds[j][2], g.bonds[j][3]>> : j \in 1..Len(g.bonds) } # { <<h.bonds[j][1], h.bonds[j][2], h.bonds[j][3]>> : j \in 1..Len(h.bonds) }, "bonds")
       \cup If(g.name # h.name, "title")
       \cup (IF ~HasCoords(g) THEN {} ELSE
             If(\E k \in 1..Len(g.atoms) : g.atoms[k].p # h.atoms[k].p, "tetrahedral-configuration")
             \cup If(\E j \in 1..Len(g.ct) : CoordsAgree(g, g.ct[j]) /\ ~\E q \in 1..Len(h.ct) : CtAgree(g.ct[j], h.ct[q]), "double-bond-configuration-lost")
             \cup If(\E q \in 1..Len(h.ct) : ~\E j \in 1..Len(g.ct) : {g.ct[j][1], g.ct[j][2]} = {h.ct[q][1], h.ct[q][2]}, "double-bond-configuration-invented"))
Verdict(r) ==
  IF r.exc # "" THEN {"exception:" \o r.exc}
  ELSE If(\E k \in 1..3 : Len(r.w[k]) # Len(r.b[k]), "roles")
       \cup (IF \E k \in 1..3 : Len(r.w[k]) # Len(r.b[k]) THEN {} ELSE
             UNION { UNION { MolVerdict(r.w[k][q], r.b[k][q]) : q \in 1..Len(r.w[k]) } : k \in 1..3 })
       \cup If({ r.meta[k] : k \in 1..Len(r.meta) } # { r.bmeta[k] : k \in 1..Len(r.bmeta) }, "metadata")
Init == c \in 0..(CH-1) /\ i = c + 1
Next == i + CH <= N /\ i' = i + CH /\ c' = c
Report == i > N \/ Verdict(R[i]) = {} \/ PrintT(<<"VERDICT", i, Verdict(R[i])>>)
=============================================================================
