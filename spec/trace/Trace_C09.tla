------------------------------- MODULE Trace_C09 -------------------------------
(* C09: the accelerated matcher (the .pyx source, executed through the pyx-lite translation) against the reference matcher.
   record: [p, t (as in Match), mc / mp (mappings returned with _cython=True / False), scope, filter,
            ea (per target atom <<w1, w2, w3, w4>> as sequences of set bit positions, from _cython_compiled_structure),
            eq (per query atom the same from _cython_compiled_query, plus back bond [orders, inring] or orders = <<>>),
            mdla / mdlq (reference isotope per target / query atom), small (1: complete enumeration affordable)] *)
EXTENDS Mask, Json
CONSTANT CH
R == JsonDeserialize("data.json")
N == Len(R)
VARIABLES c, i
vars == <<c, i>>
If(cond, name) == IF cond THEN {name} ELSE {}
SetOf(seq) == { seq[k] : k \in 1..Len(seq) }
OrderBit(o) == CASE o = 1 -> 59 [] o = 2 -> 60 [] o = 3 -> 61 [] o = 4 -> 62 [] OTHER -> 63
BondBits(b) == IF Len(b.orders) = 0 THEN {} ELSE { OrderBit(b.orders[k]) : k \in 1..Len(b.orders) } \cup (IF b.inring = -1 THEN {57, 58} ELSE IF b.inring = 1 THEN {58} ELSE {57})
InRange(r) == /\ \A a \in Nodes(r.t) : LayoutRange(Attr(r.t, a), r.mdla[a])
              /\ \A k \in 1..Len(r.p.atoms) : QueryRange(r.p.atoms[k], r.mdlq[k])
Verdict(r) ==
  LET at == Attrs(r.t)
      scope == IF Len(r.scope) = 0 THEN Nodes(r.t) ELSE SetOf(r.scope)
      \* documented limitation of the layout: Lv, Ts and Og share one bit (known finding C09-lv-ts-og)
      merged == (\E a \in Nodes(r.t) : r.t.atoms[a].z \in {117, 118}) \/ (\E k \in 1..Len(r.p.atoms) : \E j \in 1..Len(r.p.atoms[k].zs) : r.p.atoms[k].zs[j] \in {116, 117, 118})
      \* documented limitation of the layout: the ring-size word has bits for rings of 3..65 atoms; an atom whose rings all have more
      \* than 65 atoms is packed as ring-free, so a ring primitive of the query sees it differently (known finding C09-ring-larger-than-65)
      bigring == (\E a \in Nodes(r.t) : Len(at[a].rsz) > 0 /\ \A j \in 1..Len(at[a].rsz) : at[a].rsz[j] > 65)
                 /\ (\E k \in 1..Len(r.p.atoms) : Len(r.p.atoms[k].rs) > 0)
  IN If(SetOf(r.mc) # SetOf(r.mp) /\ ~merged /\ ~bigring, "compiled-and-reference-mappings-differ")
     \cup If(SetOf(r.mc) # SetOf(r.mp) /\ merged, "compiled-and-reference-mappings-differ-Lv-Ts-Og-share-a-bit")
     \cup If(SetOf(r.mc) # SetOf(r.mp) /\ ~merged /\ bigring, "compiled-and-reference-mappings-differ-ring-larger-than-65-packed-as-ring-free")
     \cup If(Len(r.mc) # Cardinality(SetOf(r.mc)), "compiled-duplicate-mapping")
     \* the element bits of every packed atom, also of elements 117 / 118, which the layout folds onto the bit of 116 (claimed outside InRange too)
     \cup If(\E a \in Nodes(r.t) : LET z == r.t.atoms[a].z IN
               {b \in SetOf(r.ea[a][1]) : b <= 56} # ZBits1(z) \/ {b \in SetOf(r.ea[a][2]) : b >= 4} # ZBits2(z), "element-bits-differ-from-layout")
     \cup (IF ~InRange(r) THEN {} ELSE
           If(\E a \in Nodes(r.t) : LET e == EncA(at[a], r.mdla[a]) IN
                 SetOf(r.ea[a][1]) # e.w1 \/ SetOf(r.ea[a][2]) # e.w2 \/ SetOf(r.ea[a][3]) # e.w3 \/ SetOf(r.ea[a][4]) # e.w4, "atom-words-differ-from-layout")
           \cup If(\E k \in 1..Len(r.p.atoms) : LET m == EncQ(r.p.atoms[k], r.mdlq[k]) IN
                 SetOf(r.eq[k].w[1]) # (m.w1 \cup BondBits(r.eq[k])) \/ SetOf(r.eq[k].w[2]) # m.w2 \/ SetOf(r.eq[k].w[3]) # m.w3 \/ SetOf(r.eq[k].w[4]) # m.w4, "query-masks-differ-from-layout")
           \cup (IF r.small = 1 /\ r.filter = 0 THEN If(SetOf(r.mc) # Embeddings(r.p, r.t, scope), "compiled-mappings-are-not-the-embeddings") ELSE {}))
Init == c \in 0..(CH-1) /\ i = c + 1
Next == i + CH <= N /\ i' = i + CH /\ c' = c
Report == i > N \/ (/\ (Verdict(R[i]) = {} \/ PrintT(<<"VERDICT", i, Verdict(R[i])>>))
                    /\ (InRange(R[i]) \/ PrintT(<<"INFO", i, "ood">>)))
=============================================================================
