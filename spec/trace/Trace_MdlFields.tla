------------------------------- MODULE Trace_MdlFields -------------------------------
(* C11, the V2000 fields: one record = one connection table as columns (f), the molecule on the other side of the codec (m), and the
   direction: "w" the library wrote f for m (f must be well formed and denote m), "r" the block f was rendered from generated fields
   and the library read m from it (m must be what f denotes; f is well formed by construction, which TLC re-checks). *)
EXTENDS MdlFields, Json, TLC
CONSTANT CH
R == JsonDeserialize("data.json")
N == Len(R)
VARIABLES c, i
vars == <<c, i>>
Verdict(r) ==
  IF r.exc # "" THEN {"exception:" \o r.exc}
  ELSE LET form == FormClauses(r.f) IN
       IF form # {} THEN {r.dir \o ":" \o x : x \in form}
       ELSE {r.dir \o ":" \o x : x \in Agree(r.f, r.m)}
Init == c \in 0..(CH-1) /\ i = c + 1
Next == i + CH <= N /\ i' = i + CH /\ c' = c
Report == i > N \/ (/\ (Verdict(R[i]) = {} \/ PrintT(<<"VERDICT", i, Verdict(R[i])>>))
                    /\ (R[i].exc # "" \/ FormClauses(R[i].f) # {} \/ ~StrictDiffers(R[i].f) \/ PrintT(<<"INFO", i, "strict">>)))
=============================================================================
