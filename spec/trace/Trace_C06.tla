------------------------------- MODULE Trace_C06 -------------------------------
(* C06: ring perception against the declarative definition.
   record: [atoms, bonds (<<a,b,order>>), rings (reported sssr, sequences of positions), rc (rings_count), ncomp,
            comps (connected components as sequences), ainr (per atom in_ring 0/1), asz (per atom sorted ring sizes),
            binr (per bond <<a,b,in_ring>>), sizes2 (sorted ring sizes reported for a renumbered / re-inserted rebuild),
            exc (optional: ring perception raised on this graph - the other fields then only describe the graph)] *)
EXTENDS Rings, Json
CONSTANT CH
R == JsonDeserialize("data.json")
N == Len(R)
VARIABLES c, i
vars == <<c, i>>
If(cond, name) == IF cond THEN {name} ELSE {}
SeqSet(q) == { q[k] : k \in 1..Len(q) }
Bag(q) == [x \in SeqSet(q) |-> Cardinality({ k \in 1..Len(q) : q[k] = x })]
RingsOf(m, a) == { k \in 1..Len(m.rings) : a \in RingSet(m.rings[k]) }
InDomainMin(m) == ~ThetaGap(m) /\ ~DenseCage(m)

Raised(m) == "exc" \in DOMAIN m /\ m.exc # ""
Verdict(m) ==
  IF Raised(m) THEN (IF InDomainMin(m) THEN {"ring-perception-raised:" \o m.exc} ELSE {}) ELSE
  LET wellformed == \A k \in 1..Len(m.rings) : IsSimpleCycle(m, m.rings[k]) IN
  If(Len(m.rings) # Cyclomatic(m), "ring-count")
  \cup If(m.rc # Cyclomatic(m), "rings_count")
  \cup If(~wellformed, "not-a-simple-cycle")
  \cup (IF ~wellformed THEN {} ELSE
        If(~Independent(m.rings), "dependent")
        \cup If(InDomainMin(m) /\ Len(m.rings) = Cyclomatic(m) /\ Cyclomatic(m) > 0 /\ SumLen(m.rings, 1) # MinimumBasisWeight(m), "not-minimum")
        \cup If(InDomainMin(m) /\ Bag([k \in 1..Len(m.rings) |-> Len(m.rings[k])]) # Bag(m.sizes2), "sizes-depend-on-numbering")
        \cup If(\E a \in Nodes(m) : (m.ainr[a] = 1) # (RingsOf(m, a) # {}), "atom-in-ring-mark")
        \cup If(\E a \in Nodes(m) : SeqSet(m.asz[a]) # { Len(m.rings[k]) : k \in RingsOf(m, a) }, "atom-ring-sizes-mark")
        \cup If(\E j \in 1..Len(m.binr) : (m.binr[j][3] = 1) # (RingsOf(m, m.binr[j][1]) \cap RingsOf(m, m.binr[j][2]) # {}), "bond-in-ring-mark"))
  \cup If(m.ncomp # CompCount(EdgesAll(m), Nodes(m)), "components-count")
  \cup If({ SeqSet(m.comps[k]) : k \in 1..Len(m.comps) } # CompSets(EdgesAll(m), Nodes(m)), "components")
OutOfDomain(m) == ~InDomainMin(m)

Init == c \in 0..(CH-1) /\ i = c + 1
Next == i + CH <= N /\ i' = i + CH /\ c' = c
Report == i > N \/ (/\ (Verdict(R[i]) = {} \/ PrintT(<<"VERDICT", i, Verdict(R[i])>>))
                    /\ (~OutOfDomain(R[i]) \/ PrintT(<<"INFO", i, "ood">>)))
=============================================================================
