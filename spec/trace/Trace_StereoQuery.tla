--------------------------- MODULE Trace_StereoQuery ---------------------------
(* C08, stereo marks of queries: a query with chirality / direction marks matches exactly the embeddings of its unmarked pattern
   under which the target has the configuration the query text denotes.  The query text is SMILES-shaped (primitives are added
   after the element only); the reference reader (SmilesRead.tla) reads its atoms, bonds and direction marks, the chirality marks are
   interpreted by the dialect's convention stated below;
   the target's configuration is its parity / same-side projection (validated against the same reader by C02 / C03).
   record: [sp (characters of the SMILES-shaped pattern text), p (pattern as in Match, positions = reading order), t (target as in
            Match plus  par : parity per atom (2 none), ct : same-side relations <<a, b, x, y, cis>>), maps (observed mappings)] *)
EXTENDS Match, Json
S == INSTANCE SmilesRead
CtA == INSTANCE Stereo
CONSTANT CH
R == JsonDeserialize("data.json")
N == Len(R)
VARIABLES c, i
vars == <<c, i>>
If(cond, name) == IF cond THEN {name} ELSE {}

TNbrs(t, a) == { IF b[1] = a THEN b[2] ELSE b[1] : b \in { t.bonds[k] : k \in { j \in 1..Len(t.bonds) : t.bonds[j][1] = a \/ t.bonds[j][2] = a } } }
Heavy(t, a) == { x \in TNbrs(t, a) : t.atoms[x].z # 1 }
InvOf(q) == Cardinality({ <<x, y>> \in (1..Len(q)) \X (1..Len(q)) : x < y /\ q[x] > q[y] })
(* The chirality convention of the SMARTS dialect (the repository's reactor tests depend on it, so it is the dialect's definition and
   not SMILES's): the mark of a query centre refers to its neighbours in the order in which its bonds are made while reading - a chain
   bond when the next atom is read, a ring-closure bond at the closing digit - and the hydrogen (h1) or a missing fourth neighbour
   always comes last.  It differs from SMILES for a first atom with a hydrogen and for a centre that carries a ring-closure digit. *)
RECURSIVE BondNbrs(_, _, _)
BondNbrs(s, k, j) == IF j > Len(s.bonds) THEN <<>>
                     ELSE (IF s.bonds[j][1] = k THEN <<s.bonds[j][2]>> ELSE IF s.bonds[j][2] = k THEN <<s.bonds[j][1]>> ELSE <<>>) \o BondNbrs(s, k, j + 1)
Slots(s, k) == LET q == BondNbrs(s, k, 1) IN IF Len(q) = 3 THEN Append(q, 0) ELSE q
Big == 1000000
CentreOK(s, t, f, k) ==
  LET sl == Slots(s, k)
      img == [q \in 1..4 |-> IF sl[q] = 0 THEN 0 ELSE f[sl[q]]]
      used == { img[q] : q \in 1..4 } \ {0}
      rest == Heavy(t, f[k]) \ used                           \* the target neighbour that stands for the hydrogen / missing slot
      val(x) == IF x = 0 THEN (IF rest = {} THEN Big ELSE CHOOSE y \in rest : TRUE) ELSE IF t.atoms[x].z = 1 THEN Big ELSE x
      seq == [q \in 1..4 |-> val(img[q])]
  IN /\ Len(sl) = 4 /\ Cardinality(rest) <= 1
     /\ t.par[f[k]] # 2
     /\ t.par[f[k]] = ((s.atoms[k].chir - 1) + InvOf(seq)) % 2
\* a marked double bond a=b of the pattern: the text says whether x (on a) and y (on b) are on one side
BondOK(s, t, f, a, b) ==
  \A x \in S!Subst(s, a, b), y \in S!Subst(s, b, a) :
     (S!HasDir(s, a, x) /\ S!HasDir(s, b, y)) =>
        \E q \in 1..Len(t.ct) : CtA!CtAgree(<<f[a], f[b], f[x], f[y], IF S!Cis(s, a, b, x, y) THEN 1 ELSE 0>>, t.ct[q])
StereoOK(s, t, f) ==
  /\ \A k \in 1..Len(s.atoms) : s.atoms[k].chir # 0 => CentreOK(s, t, f, k)
  /\ \A k \in 1..Len(s.bonds) : (s.bonds[k][3] = 2 /\ S!CisDefined(s, s.bonds[k][1], s.bonds[k][2])) => BondOK(s, t, f, s.bonds[k][1], s.bonds[k][2])
Verdict(r) ==
  LET s == S!Read(r.sp)
      E == IF s.st # "ok" THEN {} ELSE { f \in Embeddings(r.p, r.t, Nodes(r.t)) : StereoOK(s, r.t, f) }
      obs == { r.maps[k] : k \in 1..Len(r.maps) }
  IN If(r.exc # "", "search-raised:" \o r.exc)
     \cup If(s.st # "ok", "MACHINERY:pattern-text-not-readable")
     \cup If(~(obs \subseteq E), "stereo-query-matched-another-configuration")
     \cup If(~(E \subseteq obs), "stereo-query-missed-its-configuration")
     \cup If(Cardinality(obs) # Len(r.maps), "duplicate-mapping")
Init == c \in 0..(CH-1) /\ i = c + 1
Next == i + CH <= N /\ i' = i + CH /\ c' = c
Report == i > N \/ Verdict(R[i]) = {} \/ PrintT(<<"VERDICT", i, Verdict(R[i])>>)
=============================================================================
