------------------------------- MODULE Trace_C01 -------------------------------
(* C01: canonical SMILES, equality and hash depend on the structure only.
   record: [g, h : projections of base and variant (+ rings of g), f : bijection (position in g |-> position in h),
            kind : "same" (structure-preserving action) | "bump" (one attribute changed) | "mirror" (one centre inverted),
            sg, sh : canonical strings, eq : (base == variant), heq : (hash(base) = hash(variant)), act : name of the action]
   TLC first checks that the recorded pair really is what the action claims (h is the image of g under f, parities and
   double-bond relations included; or differs in exactly one place), then the property clauses. *)
EXTENDS Sym, Stereo, Json
CONSTANT CH
R == JsonDeserialize("data.json")
N == Len(R)
VARIABLES c, i
vars == <<c, i>>
If(cond, name) == IF cond THEN {name} ELSE {}

Image(r) == IsConstitutionIso(r.f, r.g, r.h) /\ ParityPreserved(r.g, r.h, r.f) /\ CtPreserved(r.g, r.h, r.f)
\* respellings go through a writer and the reader: when the text read back is not the same structure, the premise of C01
\* ("another valid spelling of it") fails - that is a write/read failure, judged (and reported) by C02/C03, counted here
Respelling(r) == r.act \in {"respell-random", "respell-canonical-mapped", "respell-aromatic-bonds", "respell-kekule",
                            "respell-rdkit-random", "respell-rdkit-canonical", "respell-rdkit-kekule",
                            "canonicalized-copy"}     \* canonicalize() rewrites non-canonical functional groups: then it is no image (counted)
\* the other toolkit's spellings of the molecule are valid spellings of it by the language definition; when the library reads one of
\* them as the same constitution with the same double-bond configuration but another configuration of a carbon centre, two valid
\* spellings of one structure got different identities (reader and writer share their sign translation, so C02 cannot see this)
ToolkitRespelling(r) == r.act \in {"respell-rdkit-random", "respell-rdkit-canonical", "respell-rdkit-kekule"}
Mismatch(r) == { k \in Nodes(r.g) : r.h.atoms[r.f[k]].p # (IF r.g.atoms[k].p = 2 THEN 2 ELSE ImageParity(r.g, r.f, k)) }
CarbonCentreRead(r) == /\ ToolkitRespelling(r) /\ IsConstitutionIso(r.f, r.g, r.h) /\ CtPreserved(r.g, r.h, r.f) /\ InDomainC01(r.g)
                       /\ Mismatch(r) # {} /\ \A k \in Mismatch(r) : r.g.atoms[k].z = 6 /\ r.g.atoms[k].p # 2 /\ r.h.atoms[r.f[k]].p # 2
SameVerdict(r) ==
  IF ~Image(r) THEN (IF CarbonCentreRead(r) THEN {"another-toolkit-s-spelling-read-as-another-configuration"}
                     ELSE IF Respelling(r) THEN {} ELSE {"harness-variant-is-not-an-image:" \o r.act})   \* the driver claimed a preservation that is not one
  ELSE IF ~InDomainC01(r.g) THEN If((r.sg = r.sh) # (r.eq = 1), "eq-iff-same-string")
  ELSE If(r.sg # r.sh, "string-differs:" \o r.act) \cup If(r.eq # 1, "not-equal:" \o r.act) \cup If(r.heq # 1, "hash-differs:" \o r.act)
\* a changed attribute multiset makes the molecules non-isomorphic whatever the numbering
BumpVerdict(r) ==
  IF AtomBag(r.g) = AtomBag(r.h) /\ BondBag(r.g) = BondBag(r.h) THEN {"harness-bump-changed-nothing:" \o r.act}
  ELSE If(r.sg = r.sh, "collision:" \o r.act) \cup If(r.eq = 1, "equal-but-different:" \o r.act)
\* exactly one marked centre inverted - or exactly one axis (allene / cumulene record) -, everything else is the image under f
MirrorVerdict(r) ==
  LET Expected(k) == IF r.g.atoms[k].p = 2 THEN 2 ELSE ImageParity(r.g, r.f, k)
      D == { k \in Nodes(r.g) : r.h.atoms[r.f[k]].p # Expected(k) }
      F == { j \in 1..Len(r.g.ct) : ~\E q \in 1..Len(r.h.ct) : CtAgree(CtImage(r.g.ct[j], r.f), r.h.ct[q]) }
      cls == Classes(r.g)
      centreFlip == CtPreserved(r.g, r.h, r.f) /\ Cardinality(D) = 1 /\ \A k \in D : r.g.atoms[k].p # 2 /\ r.h.atoms[r.f[k]].p # 2
      axisFlip == D = {} /\ Len(r.g.ct) = Len(r.h.ct) /\ Cardinality(F) = 1
                  /\ \A j \in F : \E q \in 1..Len(r.h.ct) : {r.h.ct[q][1], r.h.ct[q][2]} = {r.f[r.g.ct[j][1]], r.f[r.g.ct[j][2]]}
  IN IF ~(IsConstitutionIso(r.f, r.g, r.h) /\ (centreFlip \/ axisFlip)) THEN {"harness-mirror-not-a-single-inversion"}
     ELSE IF centreFlip /\ \E k \in D : AmbiguousCentre(r.g, cls, k) THEN {}
     ELSE IF axisFlip /\ ~InDomainC01(r.g) THEN {}
     ELSE If(r.sg = r.sh, "mirror-image-same-string") \cup If(r.eq = 1, "mirror-image-equal")
Verdict(r) == If((r.sg = r.sh) # (r.eq = 1), "eq-iff-same-string")
              \cup (CASE r.kind = "same" -> SameVerdict(r) [] r.kind = "bump" -> BumpVerdict(r) [] r.kind = "mirror" -> MirrorVerdict(r))
OutOfDomain(r) == r.kind = "same" /\ Image(r) /\ ~InDomainC01(r.g)
NotASpelling(r) == r.kind = "same" /\ Respelling(r) /\ ~Image(r)

Init == c \in 0..(CH-1) /\ i = c + 1
Next == i + CH <= N /\ i' = i + CH /\ c' = c
Report == i > N \/ (/\ (Verdict(R[i]) = {} \/ PrintT(<<"VERDICT", i, Verdict(R[i])>>))
                    /\ (~OutOfDomain(R[i]) \/ PrintT(<<"INFO", i, "ood">>))
                    /\ (~NotASpelling(R[i]) \/ PrintT(<<"INFO", i, "notspelling">>)))
=============================================================================
