---------------------------- MODULE Trace_RecordReader ----------------------------
(* recorded call sequences on a real multi-record file against RecordReader.tla.
   data: sequence of [file (sequence of [ok, mend] as 0/1), calls (sequence of [op, a (argument or 0), k (outcome kind), v (value), tell])] *)
EXTENDS RecordReader, Json
CONSTANT CH
R == JsonDeserialize("data.json")
NR == Len(R)
VARIABLES c, i, l, bad
tvars == <<c, i, l, bad, file, pos, buf, tell, ret, hist>>
FileOf(r) == [k \in 1..Len(r.file) |-> [ok |-> r.file[k].ok = 1, mend |-> r.file[k].mend = 1]]
Call(e) == CASE e.op = "ReadStructure" -> ReadStructure(e.a = 1)
             [] e.op = "ReadMetadata" -> ReadMetadata(e.a = 1)
             [] e.op = "NextItem" -> NextItem
             [] e.op = "Seek" -> Seek(e.a)
             [] e.op = "GetItem" -> GetItem(e.a)
             [] e.op = "Tell" -> Tell
TInit == /\ c \in 0..(CH-1) /\ i = c + 1 /\ l = 1 /\ bad = {}
         /\ file = FileOf(R[i]) /\ pos = 0 /\ buf = 0 /\ tell = 0 /\ ret = Ret("ok", 0) /\ hist = <<>>
Tag(name, step) == name \o "@" \o ToString(step)
TNext == \/ /\ i <= NR /\ l <= Len(R[i].calls)
            /\ LET e == R[i].calls[l] IN
                 /\ Call(e)
                 /\ bad' = (IF ret'.k # e.k \/ (e.k \in {"rec", "meta", "tell"} /\ ret'.v # e.v) THEN {Tag("result:" \o e.op, l)} ELSE {})
                           \cup (IF tell' # e.tell THEN {Tag("tell:" \o e.op, l)} ELSE {})
                 /\ l' = l + 1
            /\ UNCHANGED <<c, i>>
         \/ /\ i <= NR /\ l > Len(R[i].calls) /\ i + CH <= NR
            /\ i' = i + CH /\ l' = 1 /\ bad' = {} /\ c' = c
            /\ file' = FileOf(R[i + CH]) /\ pos' = 0 /\ buf' = 0 /\ tell' = 0 /\ ret' = Ret("ok", 0) /\ hist' = <<>>
Report == bad = {} \/ PrintT(<<"VERDICT", i, bad>>)
TraceInv == TypeOK /\ IterationExact /\ ReturnIsCurrent
=============================================================================
