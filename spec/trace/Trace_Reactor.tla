------------------------------ MODULE Trace_Reactor ------------------------------
(* C16, multi-stage mode: recorded runs of the real Reactor (one pattern, one product) against the statements model checked in
   ReactorQueue for every small relation.
   record: [start (molecule identifiers of the input mixture), limit (polymerise_limit),
            step (sequence of [m, res]: what one application of the template makes of molecule m - recorded with a one-shot
                  Reactor on that molecule alone), outs (the mixtures yielded by Reactor(one_shot = False), in yield order, each a
            sorted sequence of identifiers), oneshot (the mixtures yielded by Reactor(one_shot = True) on the same input), exc]
   Molecules are identified by their canonical string (the harness numbers the distinct strings). *)
EXTENDS Naturals, Sequences, FiniteSets, SequencesExt, TLC, Json
CONSTANT CH
R == JsonDeserialize("data.json")
N == Len(R)
VARIABLES c, i
vars == <<c, i>>
If(cond, name) == IF cond THEN {name} ELSE {}
SetOf(s) == { s[k] : k \in 1..Len(s) }

Sorted(s) == SortSeq(s, LAMBDA a, b : a < b)
Known(r) == { r.step[k].m : k \in 1..Len(r.step) }
StepOf(r, m) == IF m \in Known(r) THEN SetOf(r.step[CHOOSE k \in 1..Len(r.step) : r.step[k].m = m].res) ELSE {}
Expand(r, mix) == UNION { { Sorted(<<n>> \o RemoveAt(mix, k)) : n \in StepOf(r, mix[k]) } : k \in 1..Len(mix) }
RECURSIVE Level(_, _)
Level(r, k) == IF k = 0 THEN {Sorted(r.start)} ELSE UNION { Expand(r, x) : x \in Level(r, k - 1) }
Within(r) == UNION { Level(r, k) : k \in 1..r.limit }
Dist(r, mix) == IF \E k \in 1..r.limit : mix \in Level(r, k) THEN CHOOSE k \in 1..r.limit : mix \in Level(r, k) /\ \A j \in 1..(k - 1) : mix \notin Level(r, j) ELSE 0
\* every molecule that the closure expands must have a recorded single-stage result (otherwise the record is unusable)
Expanded(r) == UNION { UNION { SetOf(x) : x \in Level(r, k) } : k \in 0..(r.limit - 1) }

Verdict(r) ==
  If(r.exc # "", "exception:" \o r.exc)
  \cup (IF r.exc # "" THEN {} ELSE
        IF ~(Expanded(r) \subseteq Known(r)) THEN {"machinery:single-stage-relation-incomplete"} ELSE
        If(\E a, b \in 1..Len(r.outs) : a # b /\ r.outs[a] = r.outs[b], "yielded-twice")
        \cup If(\E a \in 1..Len(r.outs) : r.outs[a] \notin Within(r), "yield-not-reachable-within-the-limit")
        \cup If(Within(r) \ SetOf(r.outs) # {}, "reachable-mixture-not-yielded")
        \cup If(\E a \in 1..(Len(r.outs) - 1) : Dist(r, r.outs[a]) > Dist(r, r.outs[a + 1]), "not-breadth-first")
        \cup If(SetOf(r.oneshot) # Level(r, 1), "one-shot-is-not-the-first-level")
        \cup If(\E a, b \in 1..Len(r.oneshot) : a # b /\ r.oneshot[a] = r.oneshot[b], "one-shot-yielded-twice"))
Init == c \in 0..(CH-1) /\ i = c + 1
Next == i + CH <= N /\ i' = i + CH /\ c' = c
Report == i > N \/ Verdict(R[i]) = {} \/ PrintT(<<"VERDICT", i, Verdict(R[i])>>)
=============================================================================
