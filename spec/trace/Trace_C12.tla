------------------------------- MODULE Trace_C12 -------------------------------
(* C12: stereo signs are permutation-consistent and agree with an independent toolkit.
   record kinds
     "tetra" : [rows : sequence of [env (neighbour numbers as passed to the sign function; an implicit hydrogen is absent), s (0/1 answer)],
                hyd (number of the explicit hydrogen atom or 0)]      one centre, every neighbour order
               clause: two orders get the same sign iff they differ by an even permutation (a missing / hydrogen neighbour counts as last)
     "ends"  : [rows : sequence of [x, y, s], ends : <<substituents of end 1, substituents of end 2>> as sequences]
               one double bond / allene: every admissible pair; the sign changes iff the substituent at exactly one end is exchanged
     "toolkit": [g (projection of the molecule chython read from text t), rd1, rd2, ok]   rd1 = RDKit canonical SMILES of t,
               rd2 = RDKit canonical SMILES of chython's canonical string of t: the independent toolkit must see the same molecule
     "isomers": [g (projection of one member), strings : canonical strings of all 2^k label combinations, k]
     "kept"  : [g (projection incl. parity marks), text marks : positions (text order) that carry @/@@ in the text]   *)
EXTENDS Sym, Stereo, Json
CONSTANT CH
R == JsonDeserialize("data.json")
N == Len(R)
VARIABLES c, i
vars == <<c, i>>
If(cond, name) == IF cond THEN {name} ELSE {}

Big == 1000000
\* the env completed to four entries: an absent (implicit) hydrogen is appended; an explicit hydrogen keeps its place
Completed(env) == IF Len(env) = 3 THEN Append(env, Big) ELSE env
\* parity of the permutation that takes sequence a to sequence b (same elements)
PosIn(a, x) == CHOOSE k \in 1..Len(a) : a[k] = x
RelParity(a, b) == Parity([k \in 1..Len(b) |-> PosIn(a, b[k])])
TetraVerdict(r) ==
  LET rows == r.rows
      norm(env) == [k \in 1..4 |-> IF Completed(env)[k] = r.hyd /\ r.hyd # 0 THEN Big ELSE Completed(env)[k]]
  IN If(\E a, b \in 1..Len(rows) : (rows[a].s = rows[b].s) # (RelParity(norm(rows[a].env), norm(rows[b].env)) = 0), "tetrahedral-sign-not-permutation-consistent")
\* s = 9: the call raised (the ends cannot be told apart when both carry an explicit hydrogen and the arguments are given in
\* the other orientation); the call in the documented orientation (canon = 1) must always answer
EndsVerdict(r) ==
  LET rows == r.rows
      A == { a \in 1..Len(rows) : rows[a].s # 9 }
  IN If(\E a, b \in A : (rows[a].s = rows[b].s) # ((rows[a].x = rows[b].x) = (rows[a].y = rows[b].y)), "double-bond-sign-not-end-swap-consistent")
     \cup If(\E a \in 1..Len(rows) : rows[a].canon = 1 /\ rows[a].s = 9, "double-bond-sign-no-answer")

ToolkitVerdict(r) == IF r.ok = 0 \/ ~InDomainC01(r.g) THEN {} ELSE If(r.rd1 # r.rd2, "independent-toolkit-sees-another-configuration")
Asymmetric(g) == NCls(g, Classes(g)) = Len(g.atoms)
Pow2(k) == CASE k = 0 -> 1 [] k = 1 -> 2 [] k = 2 -> 4 [] k = 3 -> 8 [] k = 4 -> 16 [] k = 5 -> 32
IsomersVerdict(r) == IF ~Asymmetric(r.g) THEN {} ELSE
                     If(Cardinality({ r.strings[k] : k \in 1..Len(r.strings) }) # Pow2(r.k) \/ Len(r.strings) # Pow2(r.k), "stereoisomers-share-a-string")
\* two neighbours that are leaves with identical attributes are certainly equivalent; four neighbours in pairwise distinct
\* refinement classes on a neutral sp3 carbon are certainly different
Leaf(g, x) == Cardinality(Nbrs(g, x)) = 1
TwinLeaves(g, k) == \E x, y \in Nbrs(g, k) : x # y /\ Leaf(g, x) /\ Leaf(g, y) /\ AtomKey(g, x) = AtomKey(g, y)
CertainCentre(g, cls, k) == /\ g.atoms[k].z = 6 /\ g.atoms[k].c = 0 /\ g.atoms[k].r = 0
                            /\ Cardinality(Nbrs(g, k)) + (IF g.atoms[k].h = 1 THEN 1 ELSE 0) = 4 /\ g.atoms[k].h \in {0, 1}
                            /\ \A j \in Incident(g, k) : g.bonds[j][3] = 1
                            /\ \A x, y \in Nbrs(g, k) : x # y => cls[x] # cls[y]
                            /\ (g.atoms[k].h = 1 => \A x \in Nbrs(g, k) : g.atoms[x].z # 1)
KeptVerdict(r) ==
  LET g == r.g cls == Classes(g) IN
  If(\E k \in Nodes(g) : g.atoms[k].p # 2 /\ TwinLeaves(g, k), "label-kept-on-non-stereogenic-centre")
  \cup If(\E q \in 1..Len(r.marks) : CertainCentre(g, cls, r.marks[q]) /\ g.atoms[r.marks[q]].p = 2, "label-lost-on-stereogenic-centre")
Verdict(r) == CASE r.kind = "tetra" -> TetraVerdict(r) [] r.kind = "ends" -> EndsVerdict(r) [] r.kind = "toolkit" -> ToolkitVerdict(r)
                [] r.kind = "isomers" -> IsomersVerdict(r) [] r.kind = "kept" -> KeptVerdict(r)
Info(r) == CASE r.kind = "toolkit" -> r.ok = 1 /\ ~InDomainC01(r.g) [] r.kind = "isomers" -> ~Asymmetric(r.g) [] OTHER -> FALSE
Init == c \in 0..(CH-1) /\ i = c + 1
Next == i + CH <= N /\ i' = i + CH /\ c' = c
Report == i > N \/ (/\ (Verdict(R[i]) = {} \/ PrintT(<<"VERDICT", i, Verdict(R[i])>>))
                    /\ (~Info(R[i]) \/ PrintT(<<"INFO", i, "ood">>)))
=============================================================================
