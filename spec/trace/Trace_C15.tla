------------------------------- MODULE Trace_C15 -------------------------------
(* C15: recorded observations of reactions validated against Reaction.tla.
   kind "sig":  roles (text molecules in the order given to the constructor), txt = str(reaction), txtc = format(reaction, "!c"),
                ref = str of the first ordering of the same reaction, eq = 1 when == and hash agree with the first ordering
   kind "io":   orig / backm / back: roles of numbered molecules (with t = characters of the canonical string) of the reaction,
                of smiles(format(reaction, "m")) and of smiles(str(reaction)); selfok = every molecule survives its own text
   kind "cgr":  rs, ps (numbered molecules of the reactant side incl. reagents, and of the product side), edits (ground truth),
                obs (condensed graph of ~reaction), obsx (of union(reactant side) ^ union(product side)), centre, s = str(cgr),
                f / s2 / centre2: a consistent renumbering of both sides, the string and centre it gives
   kind "refuse": composing sides that disagree on an element or isotope; out = "valueerror" is the contract *)
EXTENDS Reaction, Json
CONSTANT CH
R == JsonDeserialize("data.json")
N == Len(R)
VARIABLES c, i
vars == <<c, i>>
If(cond, name) == IF cond THEN {name} ELSE {}

SigVerdict(r) ==
  If(r.txt # ExpectedText(r.roles, TRUE), "signature-is-not-the-specified-text")
  \cup If(r.txtc # ExpectedText(r.roles, FALSE), "kept-order-signature-is-not-the-specified-text")
  \cup If(r.txt # r.ref, "signature-depends-on-the-order-inside-a-role")
  \cup If(r.eq # 1, "equality-or-hash-depends-on-the-order-inside-a-role")

Graph(m) == [atoms |-> m.atoms, bonds |-> m.bonds]
Texts(role) == LET s == SortMols(role) IN [k \in 1..Len(s) |-> s[k].t]
IoVerdict(r) ==
  IF ~r.selfok THEN {}
  ELSE If(\E k \in 1..3 : Len(r.orig[k]) # Len(r.backm[k]) \/ Len(r.orig[k]) # Len(r.back[k]), "read-back:number-of-molecules-in-a-role")
       \cup If(\E k \in 1..3 : { Graph(r.orig[k][q]) : q \in 1..Len(r.orig[k]) } # { Graph(r.backm[k][q]) : q \in 1..Len(r.backm[k]) }, "read-back(mapped):molecule-changed-or-changed-role")
       \cup If(\E k \in 1..3 : Texts(r.orig[k]) # Texts(r.backm[k]), "read-back(mapped):canonical-strings-of-a-role")
       \cup If(\E k \in 1..3 : Texts(r.orig[k]) # Texts(r.back[k]), "read-back:canonical-strings-of-a-role")

ObsGraph(o) == [atoms |-> SeqRange(o.atoms), bonds |-> SeqRange(o.bonds)]
Image(f, S) == { (CHOOSE p \in SeqRange(f) : p[1] = n)[2] : n \in S }
CgrVerdict(r) ==
  LET exp == TLCEval(ExpectedCGR(r.rs, r.ps))
      ed == Edited(r.rs, r.edits)
  IN If(ed.atoms # { Strip(a) : a \in SideAtoms(r.ps) } \/ ed.bonds # SideBonds(r.ps), "MACHINERY:ground-truth-is-not-the-product-side")
     \cup If(ObsGraph(r.obs) # exp, "condensed-graph-is-not-the-superposition")
     \cup If(ObsGraph(r.obsx) # exp, "xor-of-the-sides-is-not-the-superposition")
     \cup If(SeqRange(r.centre) # Centre(exp), "centre-is-not-where-the-sides-differ")
     \cup If(Centre(exp) # Touched(r.rs, r.edits), "MACHINERY:model-centre-is-not-the-ground-truth")
     \cup If(SeqRange(r.centre) # Touched(r.rs, r.edits), "centre-is-not-the-ground-truth")
     \cup If(Len(r.edits) = 0 /\ Len(r.centre) # 0, "identical-sides-have-a-centre")
     \cup If(Len(r.centre) # Cardinality(SeqRange(r.centre)), "centre-lists-an-atom-twice")
     \cup If(r.s # r.s2, "string-depends-on-consistent-renumbering")
     \cup If(~SpellsTheGraph(r.s, exp), "string-does-not-spell-the-condensed-graph")
     \cup If(SeqRange(r.centre2) # Image(r.f, SeqRange(r.centre)), "centre-is-not-renumbered-with-the-sides")

Verdict(r) == CASE r.exc # "" -> {"exception:" \o r.exc}
                [] r.kind = "sig" -> SigVerdict(r)
                [] r.kind = "io" -> IoVerdict(r)
                [] r.kind = "cgr" -> CgrVerdict(r)
                [] r.kind = "refuse" -> If(r.out # "valueerror", "sides-that-disagree-on-an-element-are-composed")
Init == c \in 0..(CH-1) /\ i = c + 1
Next == i + CH <= N /\ i' = i + CH /\ c' = c
Report == i > N \/ (/\ (Verdict(R[i]) = {} \/ PrintT(<<"VERDICT", i, Verdict(R[i])>>))
                    /\ (R[i].kind # "io" \/ R[i].exc # "" \/ R[i].selfok \/ PrintT(<<"INFO", i, "ood">>)))
=============================================================================
