---------------------------------- MODULE MC_Mask ----------------------------------
(* design-level check of the matcher bit layout: for every value of every attribute (and all pairs of constrained fields of a
   query) the bit test equals the declarative predicate, no word overflows, and no two attributes share a bit. *)
EXTENDS Mask
VARIABLES dim, q, a
vars == <<dim, q, a>>
Mdl == 12
A0 == [z |-> 6, i |-> 0, c |-> 0, r |-> 0, h |-> 0, nb |-> 2, het |-> 0, hyb |-> 1, rsz |-> <<>>]
Q0 == [kind |-> "elem", zs |-> <<6>>, i |-> 0, c |-> 0, r |-> 0, nb |-> <<>>, hyb |-> <<>>, rs |-> <<>>, hs |-> <<>>, het |-> <<>>]
Seqs(S) == {<<>>} \cup { <<x>> : x \in S } \cup { <<x, y>> : x \in S, y \in S }
Small(S) == {<<>>} \cup { <<x>> : x \in S }
Dims == {"element", "list", "any", "metal", "charge", "radical", "isotope", "hydrogens", "neighbours", "heteroatoms", "hybridisation", "rings", "pairs"}
Cases(d) ==
  CASE d = "element"  -> { <<[Q0 EXCEPT !.zs = <<zq>>], [A0 EXCEPT !.z = za]>> : zq \in 1..116, za \in 1..116 }
    [] d = "list"     -> { <<[Q0 EXCEPT !.kind = "list", !.zs = <<z1, z2>>], [A0 EXCEPT !.z = za]>> : z1 \in {1, 6, 56, 57, 80, 116}, z2 \in {7, 55, 58, 103, 115}, za \in 1..116 }
    [] d = "any"      -> { <<[Q0 EXCEPT !.kind = "any", !.zs = <<>>], [A0 EXCEPT !.z = za, !.c = ca]>> : za \in 1..116, ca \in {-1, 0} }
    [] d = "metal"    -> { <<[Q0 EXCEPT !.kind = "metal", !.zs = <<>>, !.nb = n, !.hyb = hy], [A0 EXCEPT !.z = za, !.c = ca, !.h = ha, !.i = ia, !.hyb = hb, !.nb = na, !.rsz = ra]>> :
                             n \in Small({0, 2}), hy \in Small({1, 4}), za \in 1..116, ca \in {-2, 0}, ha \in {0, 3}, ia \in {0, 13}, hb \in {1, 4}, na \in {0, 2}, ra \in {<<>>, <<5>>} }
    [] d = "charge"   -> { <<[Q0 EXCEPT !.c = cq], [A0 EXCEPT !.c = ca]>> : cq \in -4..4, ca \in -4..4 }
    [] d = "radical"  -> { <<[Q0 EXCEPT !.r = rq], [A0 EXCEPT !.r = ra]>> : rq \in {0, 1}, ra \in {0, 1} }
    [] d = "isotope"  -> { <<[Q0 EXCEPT !.i = iq, !.r = rq], [A0 EXCEPT !.i = ia, !.r = ra]>> : iq \in {0} \cup (4..20), ia \in {0} \cup (4..20), rq \in {0, 1}, ra \in {0, 1} }
    [] d = "hydrogens" -> { <<[Q0 EXCEPT !.hs = hq], [A0 EXCEPT !.h = ha]>> : hq \in Seqs(0..4), ha \in 0..4 }
    [] d = "neighbours" -> { <<[Q0 EXCEPT !.nb = nq], [A0 EXCEPT !.nb = na]>> : nq \in Seqs(0..14), na \in 0..14 }
    [] d = "heteroatoms" -> { <<[Q0 EXCEPT !.het = nq], [A0 EXCEPT !.het = na]>> : nq \in Seqs(0..14), na \in 0..14 }
    [] d = "hybridisation" -> { <<[Q0 EXCEPT !.hyb = hq], [A0 EXCEPT !.hyb = ha]>> : hq \in Seqs(1..4), ha \in 1..4 }
    [] d = "rings"    -> { <<[Q0 EXCEPT !.rs = rq], [A0 EXCEPT !.rsz = ra]>> : rq \in {<<>>, <<0>>} \cup { <<x>> : x \in 3..65 } \cup { <<x, y>> : x \in {3, 5, 6}, y \in {7, 12, 65} },
                                                                              ra \in {<<>>} \cup { <<x>> : x \in 3..65 } \cup { <<x, y>> : x \in {3, 6, 64}, y \in {5, 12, 65} } }
    [] d = "pairs"    -> { <<[Q0 EXCEPT !.c = cq, !.hs = hq, !.nb = nq, !.het = xq, !.hyb = yq, !.rs = rq], [A0 EXCEPT !.c = ca, !.h = ha, !.nb = na, !.het = xa, !.hyb = ya, !.rsz = ra]>> :
                             cq \in {0, 1}, hq \in Small({0, 1}), nq \in Small({1, 2}), xq \in Small({0, 1}), yq \in Small({1, 2}), rq \in {<<>>, <<0>>, <<6>>},
                             ca \in {0, 1}, ha \in {0, 1}, na \in {1, 2}, xa \in {0, 1}, ya \in {1, 2}, ra \in {<<>>, <<6>>, <<5>>} }
Init == \E d \in Dims : dim = d /\ \E p \in Cases(d) : q = p[1] /\ a = p[2]
Next == UNCHANGED vars
Spec == Init /\ [][Next]_vars
Equivalent == (LayoutRange(a, Mdl) /\ QueryRange(q, Mdl)) => (MaskAtomMatch(EncQ(q, Mdl), EncA(a, Mdl)) <=> AtomMatches(q, a))
NoOverflow == LET e == EncA(a, Mdl) m == EncQ(q, Mdl) IN
              (LayoutRange(a, Mdl) /\ QueryRange(q, Mdl)) => (WordOK(e.w1) /\ WordOK(e.w2) /\ WordOK(e.w3) /\ WordOK(e.w4) /\ WordOK(m.w1) /\ WordOK(m.w2) /\ WordOK(m.w3) /\ WordOK(m.w4))
\* every attribute of an atom sets exactly one bit of its own in word 3: 6 bits in all
FieldsDisjoint == LayoutRange(a, Mdl) => Cardinality(EncA(a, Mdl).w3) = 6
=============================================================================
