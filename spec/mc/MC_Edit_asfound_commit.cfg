CONSTANTS MaxAtom = 2
 Objs = {o1}
 Depth = 100
 FlushOnDelete = TRUE
 FlushOnCommit = FALSE
 ResetChangedOnAbort = TRUE
 DiscardOnDelete = TRUE
 RecalcAllOnCommit = TRUE
 InitSlotsOnCopy = TRUE
 RestoreCacheOnAbort = TRUE
 FullFlushOnSpecialDelete = TRUE
 PackMemoised = FALSE
 Elems <- SmallElems
 Orders <- SmallOrders
 Charges <- SmallCharges

SPECIFICATION Spec
CONSTRAINT Bound
INVARIANT CacheCoherent
INVARIANT HydrogensFresh
INVARIANT StaysUsable
INVARIANT AdjacencySymmetric
INVARIANT NoPendingOutsideTx
PROPERTY Atomic
PROPERTY Independent
CHECK_DEADLOCK FALSE
