CONSTANTS Mols = {1, 2, 3}
 MaxStart = 2
 MaxLimit = 3
 Fifo = TRUE
 Dedup = TRUE
 StrictLimit = TRUE
SPECIFICATION Spec
INVARIANT NoDuplicates
INVARIANT BreadthFirst
INVARIANT DepthMonotone
INVARIANT DoneComplete
INVARIANT FirstLevelIsOneShot
INVARIANT SeenIsOut
PROPERTY Terminates
CHECK_DEADLOCK FALSE
