CONSTANT MaxRecords = 3
SPECIFICATION Spec
INVARIANT TypeOK
INVARIANT IterationExact
INVARIANT ReturnIsCurrent
PROPERTY GetItemExact
CONSTRAINT Bound
CHECK_DEADLOCK FALSE
