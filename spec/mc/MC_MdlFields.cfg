CONSTANT NA = 2
SPECIFICATION Spec
INVARIANT WellFormed
INVARIANT Denotes
CHECK_DEADLOCK FALSE
