---------------------------- MODULE MC_ReactorQueue2 ----------------------------
(* bounded instances of ReactorQueue2: every two-pattern single-stage relation over Mols (all of them, or only those whose products
   are larger than both reactants), both orders of every start pair, every limit *)
EXTENDS ReactorQueue2
=============================================================================
