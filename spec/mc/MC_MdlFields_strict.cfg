CONSTANT NA = 2
SPECIFICATION Spec
INVARIANT StrictAgrees
CHECK_DEADLOCK FALSE
