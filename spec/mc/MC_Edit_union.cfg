CONSTANTS MaxAtom = 2
 Objs = {o1, o2, o3}
 Depth = 6
 FlushOnDelete = TRUE
 FlushOnCommit = TRUE
 ResetChangedOnAbort = TRUE
 DiscardOnDelete = TRUE
 RecalcAllOnCommit = TRUE
 InitSlotsOnCopy = TRUE
 RestoreCacheOnAbort = TRUE
 FullFlushOnSpecialDelete = TRUE
 PackMemoised = FALSE
 Elems <- SmallElems
 Orders <- SmallOrders
 Charges <- SmallCharges
 Views <- OneView
SPECIFICATION Spec
CONSTRAINT Bound
INVARIANT CacheCoherent
INVARIANT HydrogensFresh
INVARIANT StaysUsable
INVARIANT AdjacencySymmetric
INVARIANT NoPendingOutsideTx
PROPERTY Atomic
PROPERTY Independent
CHECK_DEADLOCK FALSE
