CONSTANTS MaxAtom = 3
 Objs = {o1}
 Depth = 100
 FlushOnDelete = TRUE
 FlushOnCommit = TRUE
 ResetChangedOnAbort = TRUE
 DiscardOnDelete = TRUE
 RecalcAllOnCommit = FALSE
 InitSlotsOnCopy = TRUE
 RestoreCacheOnAbort = TRUE
 FullFlushOnSpecialDelete = TRUE
 PackMemoised = FALSE
 Elems <- SmallElems
 Orders <- SmallOrders
 Charges <- SmallCharges

SPECIFICATION Spec
CONSTRAINT Bound
INVARIANT CacheCoherent
INVARIANT HydrogensFresh
INVARIANT StaysUsable
INVARIANT AdjacencySymmetric
INVARIANT NoPendingOutsideTx
PROPERTY Atomic
PROPERTY Independent
CHECK_DEADLOCK FALSE
