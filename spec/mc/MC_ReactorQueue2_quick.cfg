CONSTANTS Mols = {1, 2, 3}
 MaxLimit = 3
 Growth = TRUE
SPECIFICATION Spec
INVARIANT NoDuplicates
INVARIANT Sound
INVARIANT OrderFree
PROPERTY Terminates
CHECK_DEADLOCK FALSE
