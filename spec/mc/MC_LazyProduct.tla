------------------------------ MODULE MC_LazyProduct ------------------------------
(* chython._functions.lazy_product (used to combine the per-component generators of a multi-component substructure search),
   transcribed step by step: NGen generators of unknown length (0..MaxLen each, chosen in Init) are pulled in rounds
   ("diagonal" phase: one new item from every generator that is not yet exhausted, exhausted ones repeat their last item),
   then the remaining index combinations are yielded.  Items of one generator are distinct, so a yielded tuple is
   identified with its index tuple.  Checked for every combination of lengths: nothing is yielded twice, only members of
   the Cartesian product are yielded, an empty generator yields nothing at all, and on termination the whole product was
   yielded; the first min(len) results are the diagonal. *)
EXTENDS Naturals, Sequences, FiniteSets, TLC
CONSTANTS MaxLen, NGen
Gens == 1..NGen
VARIABLES len, pool, emp, reached, ind, out, pc
vars == <<len, pool, emp, reached, ind, out, pc>>

\* one pass of the for-loop over the generators; st = [pool, emp, reached, idx, stop ("" | "return" | "break")]
RECURSIVE Pass(_, _)
Pass(g, st) ==
  IF g > NGen \/ st.stop # "" THEN st
  ELSE IF st.emp[g] THEN Pass(g + 1, [st EXCEPT !.idx = Append(@, st.pool[g])])
  ELSE IF st.pool[g] < len[g] THEN Pass(g + 1, [st EXCEPT !.pool[g] = @ + 1, !.idx = Append(@, st.pool[g] + 1)])
  ELSE IF st.pool[g] = 0 THEN [st EXCEPT !.stop = "return"]                     \* one of the generators is empty
  ELSE IF st.reached + 1 = NGen THEN [st EXCEPT !.reached = @ + 1, !.stop = "break"]
  ELSE Pass(g + 1, [st EXCEPT !.reached = @ + 1, !.emp[g] = TRUE, !.idx = Append(@, st.pool[g])])

Round == /\ pc = "diagonal"
         /\ LET st == Pass(1, [pool |-> pool, emp |-> emp, reached |-> reached, idx |-> <<>>, stop |-> ""]) IN
              /\ pool' = st.pool /\ emp' = st.emp /\ reached' = st.reached
              /\ IF st.stop = "return" THEN pc' = "done" /\ UNCHANGED <<ind, out>>
                 ELSE IF st.stop = "break" THEN pc' = "rest" /\ UNCHANGED <<ind, out>>
                 ELSE pc' = "diagonal" /\ out' = Append(out, st.idx) /\ ind' = ind \cup {st.idx}
         /\ UNCHANGED len
Product == { t \in [Gens -> 1..MaxLen] : \A g \in Gens : t[g] <= pool[g] }
AsSeq(t) == [g \in Gens |-> t[g]]
\* the remaining combinations, one per step in some fixed order (the order of itertools.product is irrelevant for the properties)
Rest == /\ pc = "rest"
        /\ LET todo == { AsSeq(t) : t \in Product } \ (ind \cup { out[k] : k \in 1..Len(out) }) IN
             IF todo = {} THEN pc' = "done" /\ UNCHANGED out
             ELSE LET t == CHOOSE t \in todo : TRUE IN out' = Append(out, t) /\ pc' = "rest"
        /\ UNCHANGED <<len, pool, emp, reached, ind>>
Single == /\ NGen = 1 /\ pc = "diagonal" /\ FALSE        \* (the one-generator shortcut of the code is the trivial case)
Init == /\ len \in [Gens -> 0..MaxLen] /\ pool = [g \in Gens |-> 0] /\ emp = [g \in Gens |-> FALSE]
        /\ reached = 0 /\ ind = {} /\ out = <<>> /\ pc = "diagonal"
Next == Round \/ Rest
Spec == Init /\ [][Next]_vars /\ WF_vars(Next)

Full == { [g \in Gens |-> t[g]] : t \in { u \in [Gens -> 1..MaxLen] : \A g \in Gens : u[g] <= len[g] } }
TypeOK == pc \in {"diagonal", "rest", "done"} /\ \A g \in Gens : pool[g] <= len[g]
NoDuplicates == \A a, b \in 1..Len(out) : a # b => out[a] # out[b]
OnlyProductMembers == \A a \in 1..Len(out) : out[a] \in Full
DoneComplete == pc = "done" => IF \E g \in Gens : len[g] = 0 THEN out = <<>> ELSE { out[k] : k \in 1..Len(out) } = Full
DiagonalFirst == \A a \in 1..Len(out) : (\A g \in Gens : a <= len[g]) => out[a] = [g \in Gens |-> a]
EventuallyComplete == <>(pc = "done")
=============================================================================
