--------------------------------- MODULE MC_Edit ---------------------------------
(* bounded instances of Edit: the alphabets are narrowed by definition overrides in the cfg files *)
EXTENDS Edit
CONSTANT Depth
SmallElems == {6, 8}
SmallOrders == {1, 8}
SmallCharges == {0, -1}
OneView == {"full", "rings"}
Bound == TLCGet("level") <= Depth
=============================================================================
