---------------------------------- MODULE MC_MdlFields ----------------------------------
(* design-level check of the V2000 field codec: the block the writer design produces for a molecule (charge code for -3..3, an
   "M  CHG" entry for +-4, "M  ISO" / "M  RAD" entries, one entry per line) is well formed and denotes that molecule - for EVERY
   assignment of charge -4..4, isotope label and radical state to NA atoms; and the same with the entries of one kind packed eight
   to a line.  StrictAgrees is the question put to TLC about the CTfile text's own reading ("M  CHG" zeroes the atoms it does not
   list): it fails as soon as a +-4 atom stands next to another charged atom (MC_MdlFields_strict.cfg expects the counterexample). *)
EXTENDS MdlFields
CONSTANT NA
VARIABLES m, packed
vars == <<m, packed>>
AtomStates == [s : {"Fe"}, c : -4..4, i : {0, 57}, r : {0, 1}]
Seq1(S, n) == [1..n -> S]
Pick(k, a) == (IF a.i # 0 THEN <<[kind |-> "ISO", nn |-> 1, ents |-> <<<<k, a.i>>>>]>> ELSE <<>>)
           \o (IF a.r = 1 THEN <<[kind |-> "RAD", nn |-> 1, ents |-> <<<<k, 2>>>>]>> ELSE <<>>)
           \o (IF a.c \in {-4, 4} THEN <<[kind |-> "CHG", nn |-> 1, ents |-> <<<<k, a.c>>>>]>> ELSE <<>>)
RECURSIVE Lines(_, _)
Lines(as, k) == IF k > Len(as) THEN <<>> ELSE Pick(k, as[k]) \o Lines(as, k + 1)
\* the same entries, one line per kind (at most eight atoms in the model, so one line holds them)
RECURSIVE Ents(_, _, _)
Ents(ls, kind, j) == IF j > Len(ls) THEN <<>> ELSE (IF ls[j].kind = kind THEN ls[j].ents ELSE <<>>) \o Ents(ls, kind, j + 1)
Pack8(ls) == LET L(kind) == LET e == Ents(ls, kind, 1) IN IF e = <<>> THEN <<>> ELSE <<[kind |-> kind, nn |-> Len(e), ents |-> e]>>
             IN L("CHG") \o L("ISO") \o L("RAD")
Encode(as, pk) == [na |-> Len(as), nb |-> 0, bonds |-> <<>>,
                   atoms |-> [k \in 1..Len(as) |-> [s |-> as[k].s, dd |-> 0, ccc |-> CodeOfCharge(as[k].c)]],
                   props |-> IF pk THEN Pack8(Lines(as, 1)) ELSE Lines(as, 1)]
Mol(as) == [atoms |-> as, bonds |-> <<>>]
Init == m \in Seq1(AtomStates, NA) /\ packed \in BOOLEAN
Next == UNCHANGED vars
Spec == Init /\ [][Next]_vars
WellFormed == FormClauses(Encode(m, packed)) = {}
Denotes == Agree(Encode(m, packed), Mol(m)) = {}
StrictAgrees == ~StrictDiffers(Encode(m, packed))
=============================================================================
