CONSTANTS Mols = {1, 2}
 MaxLimit = 3
 Growth = FALSE
SPECIFICATION Spec
INVARIANT NoDuplicates
INVARIANT Sound
INVARIANT OrderFree
CHECK_DEADLOCK FALSE
