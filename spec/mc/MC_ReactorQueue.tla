---------------------------- MODULE MC_ReactorQueue ----------------------------
(* bounded instance of ReactorQueue: every single-stage relation over Mols, every start mixture up to MaxStart molecules, every limit *)
EXTENDS ReactorQueue
=============================================================================
