CONSTANTS MaxAtoms = 3
 MaxLen = 9
 MaxDepth = 2
SPECIFICATION GSpec
INVARIANT GenReadAgree
CHECK_DEADLOCK FALSE
