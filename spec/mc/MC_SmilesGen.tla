------------------------------ MODULE MC_SmilesGen ------------------------------
(* instances of the generative grammar: MC_SmilesGen.cfg (exhaustive, reader o writer = identity at the design level) and the
   simulation used to produce texts for the library (GenReport prints every complete text with the molecule it denotes) *)
EXTENDS SmilesGen, Json
Complete == cur # 0 /\ pend = 0 /\ stack = <<>> /\ (\A d \in 1..3 : open[d][1] = 0) /\ ~fin
GenReport == ~Complete \/ PrintT(<<"GEN", ToJson([text |-> text, atoms |-> atoms, bonds |-> bonds])>>)
=============================================================================
