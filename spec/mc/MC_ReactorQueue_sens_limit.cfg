CONSTANTS Mols = {1, 2, 3}
 MaxStart = 2
 MaxLimit = 2
 Fifo = TRUE
 Dedup = TRUE
 StrictLimit = FALSE
SPECIFICATION Spec
INVARIANT NoDuplicates
INVARIANT BreadthFirst
INVARIANT DepthMonotone
INVARIANT DoneComplete
INVARIANT FirstLevelIsOneShot
INVARIANT SeenIsOut
PROPERTY Terminates
CHECK_DEADLOCK FALSE
