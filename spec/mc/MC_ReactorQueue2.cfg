CONSTANTS Mols = {1, 2, 3, 4}
 MaxLimit = 2
 Growth = TRUE
SPECIFICATION Spec
INVARIANT NoDuplicates
INVARIANT Sound
INVARIANT OrderFree
PROPERTY Terminates
CHECK_DEADLOCK FALSE
