------------------------------- MODULE SmilesRead -------------------------------
(* Reference reader for the supported SMILES language, one character per step.

   Written from the language definition (OpenSMILES, restricted to the subset chython documents: organic-subset and
   bracket atoms, isotopes, @ / @@, H counts 1-4, charges, atom maps, branches, one and two digit closures with bond
   symbols on either end, dots, / and \ on chain and closure bonds).  It shares no code and no table with chython.

   State `s`:  st ("ok"|"reject"), mode (top | br | C | B | p1 | p2), buf (bracket body), atoms, bonds (<<a,b,ord,dir>>;
   dir 1 = "/" 2 = "\" as written when going from a to b), nbr (per atom: neighbour slots in *text* order; 0 = the
   implicit hydrogen of a chiral [X@H] atom, a negative number = an open ring closure), prev, stack, pb/pd (pending bond
   order / direction), dot, open closures, justopen.
   Step is total on (state, character); Finish gives the accepted molecule or "reject".  *)
EXTENDS Naturals, Integers, Sequences, FiniteSets, TLC

Digits == {"0","1","2","3","4","5","6","7","8","9"}
DigitVal(c) == CASE c = "0" -> 0 [] c = "1" -> 1 [] c = "2" -> 2 [] c = "3" -> 3 [] c = "4" -> 4
                 [] c = "5" -> 5 [] c = "6" -> 6 [] c = "7" -> 7 [] c = "8" -> 8 [] c = "9" -> 9
Upper == {"A","B","C","D","E","F","G","H","I","J","K","L","M","N","O","P","Q","R","S","T","U","V","W","X","Y","Z"}
Lower == {"a","b","c","d","e","f","g","h","i","j","k","l","m","n","o","p","q","r","s","t","u","v","w","x","y","z"}

Symbols == <<"H","He","Li","Be","B","C","N","O","F","Ne","Na","Mg","Al","Si","P","S","Cl","Ar","K","Ca","Sc","Ti","V","Cr",
  "Mn","Fe","Co","Ni","Cu","Zn","Ga","Ge","As","Se","Br","Kr","Rb","Sr","Y","Zr","Nb","Mo","Tc","Ru","Rh","Pd","Ag","Cd",
  "In","Sn","Sb","Te","I","Xe","Cs","Ba","La","Ce","Pr","Nd","Pm","Sm","Eu","Gd","Tb","Dy","Ho","Er","Tm","Yb","Lu","Hf",
  "Ta","W","Re","Os","Ir","Pt","Au","Hg","Tl","Pb","Bi","Po","At","Rn","Fr","Ra","Ac","Th","Pa","U","Np","Pu","Am","Cm",
  "Bk","Cf","Es","Fm","Md","No","Lr","Rf","Db","Sg","Bh","Hs","Mt","Ds","Rg","Cn","Nh","Fl","Mc","Lv","Ts","Og">>
SymbolSet == {Symbols[i] : i \in 1..118}
ZOf(sym) == CHOOSE i \in 1..118 : Symbols[i] = sym
AromBracket == {"c","n","o","p","s","b","as","se","te"}
Cap(s) == CASE s = "c" -> "C" [] s = "n" -> "N" [] s = "o" -> "O" [] s = "p" -> "P" [] s = "s" -> "S" [] s = "b" -> "B"
            [] s = "as" -> "As" [] s = "se" -> "Se" [] s = "te" -> "Te"

NoAtom == 0
Atom(sym, arom, iso, chir, h, chg, map, br) ==
  [z |-> ZOf(sym), arom |-> arom, iso |-> iso, chir |-> chir, h |-> h, chg |-> chg, map |-> map, br |-> br]

(* ---- bracket atom: [iso] sym [@|@@] [H[n]] [charge] [:map] ---- *)
RECURSIVE NumAt(_, _, _, _)
\* read up to maxd digits from position i; returns <<value, next, count>>
NumAt(b, i, acc, cnt) ==
  IF i <= Len(b) /\ b[i] \in Digits THEN NumAt(b, i + 1, acc * 10 + DigitVal(b[i]), cnt + 1) ELSE <<acc, i, cnt>>

ParseBracket(b) ==
  LET iso3 == NumAt(b, 1, 0, 0)
      isoOk == iso3[3] = 0 \/ (iso3[3] <= 3 /\ b[1] # "0")
      i1 == iso3[2]
      \* symbol
      two == IF i1 + 1 <= Len(b) /\ b[i1 + 1] \in Lower THEN b[i1] \o b[i1 + 1] ELSE ""
      hasSym == i1 <= Len(b)
      sym2ok == two # "" /\ (two \in SymbolSet \/ two \in AromBracket)
      \* careful: "[nH]" is n + H, "[cH-]" ; two-letter only if it is a real symbol
      one == IF hasSym THEN b[i1] ELSE ""
      useTwo == sym2ok
      sym == IF useTwo THEN two ELSE one
      symOk == hasSym /\ (sym \in SymbolSet \/ sym \in AromBracket)
      arom == sym \in AromBracket
      i2 == IF useTwo THEN i1 + 2 ELSE i1 + 1
      \* chirality
      chir == IF i2 <= Len(b) /\ b[i2] = "@" THEN (IF i2 + 1 <= Len(b) /\ b[i2 + 1] = "@" THEN 2 ELSE 1) ELSE 0
      i3 == i2 + chir
      \* hydrogens
      hasH == i3 <= Len(b) /\ b[i3] = "H"
      hnum == IF hasH /\ i3 + 1 <= Len(b) /\ b[i3 + 1] \in Digits THEN DigitVal(b[i3 + 1]) ELSE 1
      hOk == ~hasH \/ hnum \in 1..4
      h == IF hasH THEN hnum ELSE 0
      i4 == IF ~hasH THEN i3 ELSE IF i3 + 1 <= Len(b) /\ b[i3 + 1] \in Digits THEN i3 + 2 ELSE i3 + 1
      \* charge
      hasC == i4 <= Len(b) /\ b[i4] \in {"+", "-"}
      sgn == IF hasC /\ b[i4] = "-" THEN -1 ELSE 1
      c2 == IF hasC /\ i4 + 1 <= Len(b) THEN b[i4 + 1] ELSE ""
      cmag == IF ~hasC THEN 0
              ELSE IF c2 \in {"1","2","3","4"} THEN DigitVal(c2)
              ELSE IF c2 = b[i4] THEN 2
              ELSE 1
      cBad == hasC /\ c2 \in {"+","-"} /\ c2 # b[i4]
      i5 == IF ~hasC THEN i4 ELSE IF c2 \in {"1","2","3","4","+","-"} THEN i4 + 2 ELSE i4 + 1
      \* map
      hasM == i5 <= Len(b) /\ b[i5] = ":"
      m3 == IF hasM THEN NumAt(b, i5 + 1, 0, 0) ELSE <<0, i5, 0>>
      mOk == ~hasM \/ (m3[3] \in 1..4)
      i6 == m3[2]
      ok == isoOk /\ symOk /\ hOk /\ ~cBad /\ mOk /\ i6 = Len(b) + 1
  IN IF ~ok THEN [ok |-> FALSE]
     ELSE [ok |-> TRUE, atom |-> Atom(IF arom THEN Cap(sym) ELSE sym, arom, iso3[1], chir, h, sgn * cmag, m3[1], TRUE)]

(* ---- parser state ---- *)
Init0 == [st |-> "ok", mode |-> "top", buf |-> <<>>, atoms |-> <<>>, bonds |-> <<>>, nbr |-> <<>>,
          prev |-> 0, stack |-> <<>>, pb |-> 0, pd |-> 0, dot |-> FALSE, open |-> <<>>, pct |-> 0, justopen |-> FALSE]
\* open: sequence of records [num, atom, ord, dir, slot]
Reject(s) == [s EXCEPT !.st = "reject"]

BondOrd(c) == CASE c = "-" -> 1 [] c = "=" -> 2 [] c = "#" -> 3 [] c = ":" -> 4 [] c = "~" -> 8

ImplicitOrd(s, a, b) == IF s.atoms[a].arom /\ s.atoms[b].arom THEN 4 ELSE 1

AddAtom(s, at) ==
  LET n == Len(s.atoms) + 1
      hTok == IF at.chir # 0 /\ at.h = 1 THEN <<0>> ELSE <<>>
      s1 == [s EXCEPT !.atoms = Append(@, at), !.nbr = Append(@, <<>>)]
  IN IF s.prev = 0 \/ s.dot
     THEN IF s.prev = 0 /\ (s.pb # 0 \/ s.pd # 0) THEN Reject(s)
          ELSE [s1 EXCEPT !.prev = n, !.dot = FALSE, !.justopen = FALSE, !.nbr[n] = hTok]
     ELSE LET ord == IF s.pb # 0 THEN s.pb ELSE IF s.pd # 0 THEN ImplicitOrd(s1, s.prev, n) ELSE ImplicitOrd(s1, s.prev, n)
          IN [s1 EXCEPT !.bonds = Append(@, <<s.prev, n, ord, s.pd, 0>>),
                        !.nbr[s.prev] = Append(@, n), !.nbr[n] = <<s.prev>> \o hTok,
                        !.prev = n, !.pb = 0, !.pd = 0, !.justopen = FALSE]

OpenIdx(s, num) == {i \in 1..Len(s.open) : s.open[i].num = num}

Closure(s, num) ==
  IF s.prev = 0 \/ s.dot \/ s.justopen THEN Reject(s)
  ELSE LET idx == OpenIdx(s, num) IN
    IF idx = {} THEN
      [s EXCEPT !.open = Append(@, [num |-> num, atom |-> s.prev, ord |-> s.pb, dir |-> s.pd, slot |-> Len(s.nbr[s.prev]) + 1]),
                !.nbr[s.prev] = Append(@, 0 - num), !.pb = 0, !.pd = 0]
    ELSE LET i == CHOOSE x \in idx : TRUE
             o == s.open[i]
             a == o.atom
             b == s.prev
             \* the bond symbols of the two digits must agree; a direction mark is a single bond ("C=1CCC/1" contradicts itself)
             eo == IF o.ord # 0 THEN o.ord ELSE IF o.dir # 0 THEN 1 ELSE 0
             ec == IF s.pb # 0 THEN s.pb ELSE IF s.pd # 0 THEN 1 ELSE 0
             ordOk == eo = 0 \/ ec = 0 \/ eo = ec
             ord0 == IF o.ord # 0 THEN o.ord ELSE s.pb
             ord == IF ord0 # 0 THEN ord0 ELSE ImplicitOrd(s, a, b)
             dup == \E k \in 1..Len(s.bonds) : {s.bonds[k][1], s.bonds[k][2]} = {a, b}
         IN IF a = b \/ dup \/ ~ordOk THEN Reject(s)
            ELSE [s EXCEPT !.bonds = Append(@, IF o.dir # 0 THEN <<a, b, ord, o.dir, 1>> ELSE IF s.pd # 0 THEN <<b, a, ord, s.pd, 1>> ELSE <<a, b, ord, 0, 1>>),
                           !.nbr[a][o.slot] = b, !.nbr[b] = Append(@, a),
                           !.open = SubSeq(@, 1, i - 1) \o SubSeq(@, i + 1, Len(@)),
                           !.pb = 0, !.pd = 0]

Organic1 == {"N","O","P","S","F","I"}
AromOrganic == {"c","n","o","p","s","b"}

StepTop(s, c) ==
  IF c = "[" THEN [s EXCEPT !.mode = "br", !.buf = <<>>]
  ELSE IF c \in Organic1 THEN AddAtom(s, Atom(c, FALSE, 0, 0, -1, 0, 0, FALSE))
  ELSE IF c \in AromOrganic THEN AddAtom(s, Atom(Cap(c), TRUE, 0, 0, -1, 0, 0, FALSE))
  ELSE IF c = "C" THEN [s EXCEPT !.mode = "C"]
  ELSE IF c = "B" THEN [s EXCEPT !.mode = "B"]
  ELSE IF c \in {"-","=","#",":","~"} THEN
        IF s.pb # 0 \/ s.pd # 0 \/ s.dot \/ s.prev = 0 THEN Reject(s) ELSE [s EXCEPT !.pb = BondOrd(c)]
  ELSE IF c \in {"/","\\"} THEN
        IF s.pb # 0 \/ s.pd # 0 \/ s.dot \/ s.prev = 0 THEN Reject(s) ELSE [s EXCEPT !.pd = IF c = "/" THEN 1 ELSE 2]
  ELSE IF c = "." THEN
        IF s.pb # 0 \/ s.pd # 0 \/ s.dot \/ s.prev = 0 THEN Reject(s) ELSE [s EXCEPT !.dot = TRUE]
  ELSE IF c = "(" THEN
        IF s.prev = 0 \/ s.justopen \/ s.pb # 0 \/ s.pd # 0 \/ s.dot THEN Reject(s)
        ELSE [s EXCEPT !.stack = Append(@, s.prev), !.justopen = TRUE]
  ELSE IF c = ")" THEN
        IF s.stack = <<>> \/ s.justopen \/ s.pb # 0 \/ s.pd # 0 \/ s.dot THEN Reject(s)
        ELSE [s EXCEPT !.prev = s.stack[Len(s.stack)], !.stack = SubSeq(@, 1, Len(@) - 1)]
  ELSE IF c \in Digits THEN (IF c = "0" THEN Reject(s) ELSE Closure(s, DigitVal(c)))
  ELSE IF c = "%" THEN [s EXCEPT !.mode = "p1"]
  ELSE Reject(s)

Step(s, c) ==
  IF s.st = "reject" THEN s
  ELSE CASE s.mode = "br" ->
            IF c = "]" THEN
               (IF s.buf = <<>> THEN Reject(s)
                ELSE LET r == ParseBracket(s.buf) IN
                     IF r.ok THEN AddAtom([s EXCEPT !.mode = "top", !.buf = <<>>], r.atom) ELSE Reject(s))
            ELSE IF c = "[" THEN Reject(s)
            ELSE [s EXCEPT !.buf = Append(@, c)]
       [] s.mode = "C" ->
            IF c = "l" THEN AddAtom([s EXCEPT !.mode = "top"], Atom("Cl", FALSE, 0, 0, -1, 0, 0, FALSE))
            ELSE LET s1 == AddAtom([s EXCEPT !.mode = "top"], Atom("C", FALSE, 0, 0, -1, 0, 0, FALSE))
                 IN IF s1.st = "reject" THEN s1 ELSE StepTop(s1, c)
       [] s.mode = "B" ->
            IF c = "r" THEN AddAtom([s EXCEPT !.mode = "top"], Atom("Br", FALSE, 0, 0, -1, 0, 0, FALSE))
            ELSE LET s1 == AddAtom([s EXCEPT !.mode = "top"], Atom("B", FALSE, 0, 0, -1, 0, 0, FALSE))
                 IN IF s1.st = "reject" THEN s1 ELSE StepTop(s1, c)
       [] s.mode = "p1" -> IF c \in Digits \ {"0"} THEN [s EXCEPT !.mode = "p2", !.pct = DigitVal(c)] ELSE Reject(s)
       [] s.mode = "p2" -> IF c \in Digits THEN Closure([s EXCEPT !.mode = "top"], s.pct * 10 + DigitVal(c)) ELSE Reject(s)
       [] OTHER -> StepTop(s, c)

RECURSIVE RunFrom(_, _, _)
RunFrom(s, text, i) == IF i > Len(text) THEN s ELSE RunFrom(Step(s, text[i]), text, i + 1)

Finish(s) ==
  IF s.st = "reject" THEN s
  ELSE LET s1 == CASE s.mode = "C" -> AddAtom([s EXCEPT !.mode = "top"], Atom("C", FALSE, 0, 0, -1, 0, 0, FALSE))
                   [] s.mode = "B" -> AddAtom([s EXCEPT !.mode = "top"], Atom("B", FALSE, 0, 0, -1, 0, 0, FALSE))
                   [] s.mode = "top" -> s
                   [] OTHER -> Reject(s)
       IN IF s1.st = "reject" THEN s1
          ELSE IF s1.atoms = <<>> \/ s1.stack # <<>> \/ s1.open # <<>> \/ s1.pb # 0 \/ s1.pd # 0 \/ s1.dot THEN Reject(s1)
          ELSE s1

\* ---- chirality as parity with respect to ascending position (implicit H token 0 sorts last) ----
\* a hydrogen neighbour (the implicit one of [X@H], token 0, or an explicit [H] atom) is listed last
Key(s, x) == IF x = 0 THEN 1000000 ELSE IF s.atoms[x].z = 1 THEN 1000000 ELSE x
Inversions(s, q) == Cardinality({ <<i, j>> \in (1..Len(q)) \X (1..Len(q)) : i < j /\ Key(s, q[i]) > Key(s, q[j]) })
\* 0 = '@' listed in ascending order, 1 = '@@' listed in ascending order, 2 = no/unsupported mark
TetParity(s, a) == IF s.atoms[a].chir = 0 \/ Len(s.nbr[a]) # 4 THEN 2
                   ELSE ((s.atoms[a].chir - 1) + Inversions(s, s.nbr[a])) % 2
\* ---- cis/trans: same-side relation of substituents x (on a) and y (on b) of the double bond a=b ----
BondIdx(s, a, x) == CHOOSE k \in 1..Len(s.bonds) : {s.bonds[k][1], s.bonds[k][2]} = {a, x}
HasDir(s, a, x) == s.bonds[BondIdx(s, a, x)][4] # 0
\* x is 'up' relative to a
Up(s, a, x) == LET bd == s.bonds[BondIdx(s, a, x)] IN IF bd[1] = a THEN bd[4] = 1 ELSE bd[4] = 2
Subst(s, a, b) == { x \in 1..Len(s.atoms) : x # b /\ \E k \in 1..Len(s.bonds) : {s.bonds[k][1], s.bonds[k][2]} = {a, x} }
DirKnown(s, a, b) == \E x \in Subst(s, a, b) : HasDir(s, a, x)
UpAt(s, a, b, x) == IF HasDir(s, a, x) THEN Up(s, a, x)
                    ELSE LET y == CHOOSE z \in Subst(s, a, b) : HasDir(s, a, z) IN ~Up(s, a, y)
CisDefined(s, a, b) == DirKnown(s, a, b) /\ DirKnown(s, b, a)
Cis(s, a, b, x, y) == UpAt(s, a, b, x) = UpAt(s, b, a, y)
IsClosureBond(s, a, b) == s.bonds[BondIdx(s, a, b)][5] = 1
IsDouble(s, a, b) == \E k \in 1..Len(s.bonds) : {s.bonds[k][1], s.bonds[k][2]} = {a, b} /\ s.bonds[k][3] = 2
Read(text) == Finish(RunFrom(Init0, text, 1))

(* ---- atom numbers: an atom with a map keeps it (first use), all others continue from max(map)+1 in text order ---- *)
MaxMap(s) == LET S == {s.atoms[k].map : k \in 1..Len(s.atoms)} IN CHOOSE m \in S \cup {0} : \A x \in S \cup {0} : x <= m
KeepsMap(s, k) == s.atoms[k].map # 0 /\ \A j \in 1..(k-1) : s.atoms[j].map # s.atoms[k].map
NumberOf(s, k) == IF KeepsMap(s, k) THEN s.atoms[k].map
                  ELSE MaxMap(s) + Cardinality({j \in 1..k : ~KeepsMap(s, j)})

(* ---- well-formedness of an accepted result (checked in MC_SmilesRead for every string up to the bound) ---- *)
WellFormed(s) ==
  /\ \A k \in 1..Len(s.bonds) : s.bonds[k][1] # s.bonds[k][2] /\ s.bonds[k][1] \in 1..Len(s.atoms) /\ s.bonds[k][2] \in 1..Len(s.atoms)
  /\ \A k, j \in 1..Len(s.bonds) : k # j => {s.bonds[k][1], s.bonds[k][2]} # {s.bonds[j][1], s.bonds[j][2]}
  /\ \A a \in 1..Len(s.atoms) : \A q \in 1..Len(s.nbr[a]) : s.nbr[a][q] >= 0
  /\ \A a \in 1..Len(s.atoms) : {x \in 1..Len(s.atoms) : \E q \in 1..Len(s.nbr[a]) : s.nbr[a][q] = x}
                                   = {x \in 1..Len(s.atoms) : \E k \in 1..Len(s.bonds) : {s.bonds[k][1], s.bonds[k][2]} = {a, x}}
  /\ s.open = <<>> /\ s.stack = <<>>
=============================================================================
