------------------------------- MODULE SmilesGen -------------------------------
(* A generative grammar of the SMILES subset: every action emits characters and extends the molecule the text denotes.
   Used in two ways: (1) design level - TLC explores all texts up to a bound and checks that the reference reader of
   SmilesRead.tla reads every finished text back to the generated molecule (reader o writer = identity, GenReadAgree);
   (2) spec -> code - behaviours produced by `tlc -simulate` are replayed into chython's reader and the molecule it
   builds is compared with the generated one (Trace_Gen).
   State: text, atoms (Seq [z, chg, iso]), bonds (set <<a, b, order>>, a < b), cur (atom new bonds start from, 0 after
   a dot), pend (bond symbol written and not yet used, 0 none), stack (open branches), open (ring digit -> <<atom, order>>,
   <<0, 0>> = free), fin. *)
EXTENDS SmilesRead
CONSTANTS MaxAtoms, MaxLen, MaxDepth
VARIABLES text, atoms, bonds, cur, pend, stack, open, fin
gvars == <<text, atoms, bonds, cur, pend, stack, open, fin>>

\* atom tokens: characters, element number, charge, isotope
Tokens == { [t |-> <<"C">>, z |-> 6, c |-> 0, i |-> 0], [t |-> <<"N">>, z |-> 7, c |-> 0, i |-> 0], [t |-> <<"O">>, z |-> 8, c |-> 0, i |-> 0],
            [t |-> <<"C", "l">>, z |-> 17, c |-> 0, i |-> 0], [t |-> <<"[", "N", "H", "4", "+", "]">>, z |-> 7, c |-> 1, i |-> 0],
            [t |-> <<"[", "O", "-", "]">>, z |-> 8, c |-> -1, i |-> 0], [t |-> <<"[", "1", "3", "C", "H", "4", "]">>, z |-> 6, c |-> 0, i |-> 13],
            [t |-> <<"[", "F", "e", "+", "2", "]">>, z |-> 26, c |-> 2, i |-> 0], [t |-> <<"[", "S", "i", "]">>, z |-> 14, c |-> 0, i |-> 0] }
BondCh(o) == CASE o = 1 -> "-" [] o = 2 -> "=" [] o = 3 -> "#"
DigitCh == <<"1", "2", "3">>
Pair(a, b, o) == IF a < b THEN <<a, b, o>> ELSE <<b, a, o>>
Bonded(a, b) == \E e \in bonds : {e[1], e[2]} = {a, b}
Last == IF text = <<>> THEN "" ELSE text[Len(text)]
\* a ring-closure digit belongs to the atom before it: it cannot open a branch
BranchStart == Last = "(" \/ (pend # 0 /\ Len(text) >= 2 /\ text[Len(text) - 1] = "(")

GInit == text = <<>> /\ atoms = <<>> /\ bonds = {} /\ cur = 0 /\ pend = 0 /\ stack = <<>> /\ open = [d \in 1..3 |-> <<0, 0>>] /\ fin = FALSE
PutAtom(tok) ==
  /\ ~fin /\ Len(atoms) < MaxAtoms /\ Len(text) + Len(tok.t) <= MaxLen
  /\ text' = text \o tok.t
  /\ atoms' = Append(atoms, [z |-> tok.z, chg |-> tok.c, iso |-> tok.i])
  /\ bonds' = IF cur = 0 THEN bonds ELSE bonds \cup {Pair(cur, Len(atoms) + 1, IF pend = 0 THEN 1 ELSE pend)}
  /\ cur' = Len(atoms) + 1 /\ pend' = 0 /\ UNCHANGED <<stack, open, fin>>
PutBond(o) ==
  /\ ~fin /\ cur # 0 /\ pend = 0 /\ Len(text) + 2 <= MaxLen
  /\ text' = Append(text, BondCh(o)) /\ pend' = o /\ UNCHANGED <<atoms, bonds, cur, stack, open, fin>>
OpenBranch ==
  /\ ~fin /\ cur # 0 /\ pend = 0 /\ Len(stack) < MaxDepth /\ Len(text) + 3 <= MaxLen /\ Last # "("
  /\ text' = Append(text, "(") /\ stack' = Append(stack, cur) /\ UNCHANGED <<atoms, bonds, cur, pend, open, fin>>
CloseBranch ==
  /\ ~fin /\ stack # <<>> /\ pend = 0 /\ Last # "(" /\ cur # stack[Len(stack)]
  /\ text' = Append(text, ")") /\ cur' = stack[Len(stack)] /\ stack' = SubSeq(stack, 1, Len(stack) - 1)
  /\ UNCHANGED <<atoms, bonds, pend, open, fin>>
RingOpen(d) ==
  /\ ~fin /\ cur # 0 /\ ~BranchStart /\ open[d][1] = 0 /\ Len(text) + 2 <= MaxLen
  /\ text' = Append(text, DigitCh[d]) /\ open' = [open EXCEPT ![d] = <<cur, pend>>] /\ pend' = 0
  /\ UNCHANGED <<atoms, bonds, cur, stack, fin>>
RingClose(d) ==
  /\ ~fin /\ cur # 0 /\ ~BranchStart /\ open[d][1] # 0 /\ open[d][1] # cur /\ ~Bonded(open[d][1], cur)
  /\ (pend = 0 \/ open[d][2] = 0 \/ pend = open[d][2]) /\ Len(text) + 1 <= MaxLen
  /\ text' = Append(text, DigitCh[d])
  /\ bonds' = bonds \cup {Pair(open[d][1], cur, IF pend # 0 THEN pend ELSE IF open[d][2] # 0 THEN open[d][2] ELSE 1)}
  /\ open' = [open EXCEPT ![d] = <<0, 0>>] /\ pend' = 0 /\ UNCHANGED <<atoms, cur, stack, fin>>
Dot ==
  /\ ~fin /\ cur # 0 /\ pend = 0 /\ stack = <<>> /\ Len(text) + 2 <= MaxLen /\ Last # "("
  /\ text' = Append(text, ".") /\ cur' = 0 /\ UNCHANGED <<atoms, bonds, pend, stack, open, fin>>
Finish0 ==
  /\ ~fin /\ cur # 0 /\ pend = 0 /\ stack = <<>> /\ \A d \in 1..3 : open[d][1] = 0
  /\ fin' = TRUE /\ UNCHANGED <<text, atoms, bonds, cur, pend, stack, open>>
GNext == \/ \E tok \in Tokens : PutAtom(tok)
         \/ \E o \in 1..3 : PutBond(o)
         \/ OpenBranch \/ CloseBranch \/ Dot \/ Finish0
         \/ \E d \in 1..3 : RingOpen(d) \/ RingClose(d)
GSpec == GInit /\ [][GNext]_gvars

(* ---- design-level property: the reference reader reads a finished text back to the generated molecule ---- *)
ReadBonds(s) == { Pair(s.bonds[k][1], s.bonds[k][2], s.bonds[k][3]) : k \in 1..Len(s.bonds) }
GenReadAgree == fin => LET s == Read(text) IN
                       /\ s.st = "ok" /\ Len(s.atoms) = Len(atoms)
                       /\ \A k \in 1..Len(atoms) : s.atoms[k].z = atoms[k].z /\ s.atoms[k].chg = atoms[k].chg /\ s.atoms[k].iso = atoms[k].iso
                       /\ ReadBonds(s) = bonds
\* a text that cannot be finished any more is never produced twice by different molecules: texts determine the molecule
=============================================================================
