---------------------------------- MODULE Smarts ----------------------------------
(* The documented SMARTS subset for one bracket atom and for bond tokens (C08):
     [ isotope? elements (; primitive)* (:map)? ]
     elements  = item (, item)*      item = element symbol | #number | A (any atom) | M (any metal)
     primitive = a (aromatic: z4) | A (ignored) | !R (not in a ring) | M (masked) | @ | @@ | charge (+ - ++ -- +n -n)
                 | Dn(,Dn)* | hn(,hn)* | rn(,rn)* | xn(,xn)* | zn(,zn)*
     a charge / stereo mark may also follow the elements directly ([O-], [C@])
   ParseQueryAtom(body) gives [ok, atom] with the atom in the form of Match.tla pattern atoms (+ masked, st, map).
   Bond tokens:  -  =  #  :  ~ ;  a,b (two orders) ;  !x (every order but x, of 1 2 3 4) ;  x;@ / x;!@ (ring / chain bond). *)
EXTENDS SmilesRead, Cx

IsDigit(ch) == ch \in Digits
RECURSIVE ToInt(_, _, _)
ToInt(b, k, acc) == IF k > Len(b) THEN acc ELSE ToInt(b, k + 1, acc * 10 + DigitVal(b[k]))
AllDigits(b) == Len(b) >= 1 /\ \A k \in 1..Len(b) : IsDigit(b[k])
RECURSIVE SortedInsert(_, _)
SortedInsert(seq, x) == IF Len(seq) = 0 THEN <<x>> ELSE IF x <= seq[1] THEN <<x>> \o seq ELSE <<seq[1]>> \o SortedInsert(Tail(seq), x)
RECURSIVE SortInts(_)
SortInts(seq) == IF Len(seq) = 0 THEN <<>> ELSE SortedInsert(SortInts(Tail(seq)), seq[1])
Join(b) == IF Len(b) = 0 THEN "" ELSE IF Len(b) = 1 THEN b[1] ELSE b[1] \o b[2]     \* one or two characters -> string

\* an item of the element list -> [ok, kind ("sym" | "any" | "metal"), z]
Item(b) == IF Len(b) = 1 /\ b[1] = "A" THEN [ok |-> TRUE, kind |-> "any", z |-> 0]
           ELSE IF Len(b) = 1 /\ b[1] = "M" THEN [ok |-> TRUE, kind |-> "metal", z |-> 0]
           ELSE IF Len(b) >= 2 /\ b[1] = "#" /\ AllDigits(Tail(b)) /\ ToInt(Tail(b), 1, 0) \in 1..118 THEN [ok |-> TRUE, kind |-> "sym", z |-> ToInt(Tail(b), 1, 0)]
           ELSE IF Len(b) \in {1, 2} /\ b[1] \in Upper /\ (Len(b) = 1 \/ b[2] \in Lower) /\ Join(b) \in SymbolSet THEN [ok |-> TRUE, kind |-> "sym", z |-> ZOf(Join(b))]
           ELSE [ok |-> FALSE, kind |-> "", z |-> 0]
\* "D1,D2" -> <<1, 2>> ; fails (<<-1>>) when malformed or letters differ
NumList(part, letter) == LET items == Split(part, ",") IN
                         IF \A k \in 1..Len(items) : Len(items[k]) >= 2 /\ items[k][1] = letter /\ AllDigits(Tail(items[k]))
                         THEN [k \in 1..Len(items) |-> ToInt(Tail(items[k]), 1, 0)] ELSE <<-1>>
ChargeOf(b) == IF Len(b) = 1 /\ b[1] = "+" THEN 1 ELSE IF Len(b) = 1 /\ b[1] = "-" THEN -1
               ELSE IF Len(b) = 2 /\ b[1] = "+" /\ b[2] = "+" THEN 2 ELSE IF Len(b) = 2 /\ b[1] = "-" /\ b[2] = "-" THEN -2
               ELSE IF Len(b) = 2 /\ b[1] = "+" /\ b[2] \in {"1","2","3","4"} THEN DigitVal(b[2])
               ELSE IF Len(b) = 2 /\ b[1] = "-" /\ b[2] \in {"1","2","3","4"} THEN 0 - DigitVal(b[2]) ELSE 99
Blank == [kind |-> "", zs |-> <<>>, i |-> 0, c |-> 0, r |-> 0, nb |-> <<>>, hyb |-> <<>>, rs |-> <<>>, hs |-> <<>>, het |-> <<>>,
          masked |-> 0, st |-> 0, map |-> 0, bad |-> FALSE]
\* apply one primitive to the atom under construction
Prim(q, p) ==
  IF Len(p) = 0 THEN q
  ELSE IF Len(p) = 1 /\ p[1] = "a" THEN [q EXCEPT !.hyb = <<4>>]
  ELSE IF Len(p) = 1 /\ p[1] = "A" THEN q
  ELSE IF Len(p) = 1 /\ p[1] = "M" THEN [q EXCEPT !.masked = 1]
  ELSE IF Len(p) = 2 /\ p[1] = "!" /\ p[2] = "R" THEN [q EXCEPT !.rs = <<0>>]
  ELSE IF Len(p) = 1 /\ p[1] = "@" THEN [q EXCEPT !.st = 1]
  ELSE IF Len(p) = 2 /\ p[1] = "@" /\ p[2] = "@" THEN [q EXCEPT !.st = 2]
  ELSE IF ChargeOf(p) # 99 THEN [q EXCEPT !.c = ChargeOf(p)]
  ELSE IF p[1] \in {"D", "h", "r", "x", "z"}
       THEN LET v == NumList(p, p[1]) IN
            IF v = <<-1>> THEN [q EXCEPT !.bad = TRUE]
            ELSE CASE p[1] = "D" -> [q EXCEPT !.nb = SortInts(v)] [] p[1] = "h" -> [q EXCEPT !.hs = SortInts(v)]
                   [] p[1] = "r" -> [q EXCEPT !.rs = SortInts(v)] [] p[1] = "x" -> [q EXCEPT !.het = SortInts(v)]
                   [] p[1] = "z" -> [q EXCEPT !.hyb = SortInts(v)]
  ELSE [q EXCEPT !.bad = TRUE]
RECURSIVE Prims(_, _, _)
Prims(q, parts, k) == IF k > Len(parts) THEN q ELSE Prims(Prim(q, parts[k]), parts, k + 1)

\* strip ":map" at the end
MapSplit(b) == LET pos == { k \in 1..Len(b) : b[k] = ":" /\ k < Len(b) /\ AllDigits(SubSeq(b, k + 1, Len(b))) /\ b[k + 1] # "0" } IN
               IF pos = {} THEN <<b, 0>> ELSE LET k == CHOOSE k \in pos : \A j \in pos : k <= j IN <<SubSeq(b, 1, k - 1), ToInt(SubSeq(b, k + 1, Len(b)), 1, 0)>>
\* leading isotope digits
RECURSIVE LeadDigits(_, _)
LeadDigits(b, k) == IF k <= Len(b) /\ IsDigit(b[k]) THEN LeadDigits(b, k + 1) ELSE k - 1
\* trailing "@", "@@" and charge directly after the element list
ElemTail(b) == \* <<element part, stereo (0/1/2), charge (99 none)>>
  LET n == Len(b)
      cl == IF n >= 2 /\ ChargeOf(SubSeq(b, n - 1, n)) # 99 /\ b[n - 1] \in {"+", "-"} THEN 2
            ELSE IF n >= 1 /\ ChargeOf(SubSeq(b, n, n)) # 99 THEN 1 ELSE 0
      ch == IF cl = 0 THEN 99 ELSE ChargeOf(SubSeq(b, n - cl + 1, n))
      b1 == SubSeq(b, 1, n - cl)
      m == Len(b1)
      sl == IF m >= 2 /\ b1[m] = "@" /\ b1[m - 1] = "@" THEN 2 ELSE IF m >= 1 /\ b1[m] = "@" THEN 1 ELSE 0
  IN <<SubSeq(b1, 1, m - sl), sl, ch>>

ParseQueryAtom(body) ==
  LET ms == MapSplit(body)
      parts == Split(ms[1], ";")
      first == parts[1]
      nd == LeadDigits(first, 1)
      iso == IF nd = 0 THEN 0 ELSE ToInt(SubSeq(first, 1, nd), 1, 0)
      et == ElemTail(SubSeq(first, nd + 1, Len(first)))
      items == Split(et[1], ",")
      its == [k \in 1..Len(items) |-> Item(items[k])]
      okItems == Len(et[1]) >= 1 /\ \A k \in 1..Len(its) : its[k].ok
      single == Len(its) = 1
      kind == IF ~okItems THEN "" ELSE IF single /\ its[1].kind = "any" THEN "any" ELSE IF single /\ its[1].kind = "metal" THEN "metal"
              ELSE IF single THEN "elem" ELSE IF \A k \in 1..Len(its) : its[k].kind = "sym" THEN "list" ELSE ""
      q0 == [Blank EXCEPT !.kind = kind, !.zs = IF kind \in {"elem", "list"} THEN SortInts([k \in 1..Len(its) |-> its[k].z]) ELSE <<>>,
                          !.i = iso, !.map = ms[2], !.st = et[2], !.c = IF et[3] = 99 THEN 0 ELSE et[3]]
      q == Prims(q0, parts, 2)
      \* any-metal atoms take only D / z / M primitives (charge, hydrogens, heteroatoms, rings and marks are not part of them)
      metalOK == kind # "metal" \/ (q.c = 0 /\ q.hs = <<>> /\ q.het = <<>> /\ q.rs = <<>> /\ q.st = 0)
  IN [ok |-> kind # "" /\ ~q.bad /\ (iso = 0 \/ kind = "elem") /\ metalOK, atom |-> q]

(* ---- bond tokens ---- *)
OrderOfSym(ch) == CASE ch = "-" -> 1 [] ch = "=" -> 2 [] ch = "#" -> 3 [] ch = ":" -> 4 [] ch = "~" -> 8 [] OTHER -> 0
\* <<ok, orders (sorted), inring (-1 / 0 / 1)>>
ParseBond(b) ==
  LET semi == { k \in 1..Len(b) : b[k] = ";" }
      core == IF semi = {} THEN b ELSE SubSeq(b, 1, (CHOOSE k \in semi : TRUE) - 1)
      ringpart == IF semi = {} THEN <<>> ELSE SubSeq(b, (CHOOSE k \in semi : TRUE) + 1, Len(b))
      inring == IF semi = {} THEN -1 ELSE IF ringpart = <<"@">> THEN 1 ELSE IF ringpart = <<"!", "@">> THEN 0 ELSE -2
      orders == IF Len(core) = 1 /\ OrderOfSym(core[1]) # 0 THEN <<OrderOfSym(core[1])>>
                ELSE IF Len(core) = 3 /\ core[2] = "," /\ OrderOfSym(core[1]) # 0 /\ OrderOfSym(core[3]) # 0 /\ core[1] # core[3]
                     THEN SortInts(<<OrderOfSym(core[1]), OrderOfSym(core[3])>>)
                ELSE IF Len(core) = 2 /\ core[1] = "!" /\ OrderOfSym(core[2]) \in {1, 2, 3, 4}
                     THEN SortInts(SelectSeq(<<1, 2, 3, 4>>, LAMBDA o : o # OrderOfSym(core[2])))
                ELSE <<>>
  IN <<Cardinality(semi) <= 1 /\ inring # -2 /\ orders # <<>>, orders, inring>>
=============================================================================
