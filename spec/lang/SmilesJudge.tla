------------------------------- MODULE SmilesJudge -------------------------------
(* Comparison of what the reference reader (SmilesRead) says a text denotes with a recorded observation of chython.
   An observation `r` lists atoms in *text order* (position k = k-th atom of the text):
     r.atoms[k] = [n (atom number), z, c (charge), i (isotope, 0 = unset), h (stored hydrogens, -1 unknown), r (radical 0/1),
                   p (parity of the stored tetrahedral mark w.r.t. ascending position, hydrogen last; 2 = no mark)]
     r.bonds    = <<a, b, order>> with a < b (positions)
     r.ct[k]    = <<a, b, x, y, cis>> stored double-bond mark as same-side relation of x (on a) and y (on b)
                hm = 1 iff the code reported that it could not keep the hydrogen count written for this atom (the count
                contradicts the valence model; such an atom's hydrogens and chirality mark are Unspecified)
   Every clause returns the set of violations so that a verdict names what failed. *)
EXTENDS SmilesRead

BondSet(s) == { <<IF s.bonds[k][1] < s.bonds[k][2] THEN s.bonds[k][1] ELSE s.bonds[k][2],
                  IF s.bonds[k][1] < s.bonds[k][2] THEN s.bonds[k][2] ELSE s.bonds[k][1], s.bonds[k][3]>> : k \in 1..Len(s.bonds) }
ObsBonds(r) == { <<r.bonds[k][1], r.bonds[k][2], r.bonds[k][3]>> : k \in 1..Len(r.bonds) }
\* A direction mark between two aromatic-symbol atoms ("c/c") is outside what the language settles: "/" is a single bond by
\* definition, an unmarked bond between aromatic symbols is aromatic.  Both readings (1 or 4) are admitted for such a bond.
AmbiguousDir(s) == { k \in 1..Len(s.bonds) : s.bonds[k][4] # 0 /\ s.atoms[s.bonds[k][1]].arom /\ s.atoms[s.bonds[k][2]].arom }
Norm(a, b, o) == <<IF a < b THEN a ELSE b, IF a < b THEN b ELSE a, o>>
BondsAgree(r, s) ==
  /\ Len(r.bonds) = Len(s.bonds)
  /\ \A k \in 1..Len(s.bonds) :
        IF k \in AmbiguousDir(s)
        THEN Norm(s.bonds[k][1], s.bonds[k][2], 1) \in ObsBonds(r) \/ Norm(s.bonds[k][1], s.bonds[k][2], 4) \in ObsBonds(r)
        ELSE Norm(s.bonds[k][1], s.bonds[k][2], s.bonds[k][3]) \in ObsBonds(r)

If(cond, name) == IF cond THEN {name} ELSE {}

\* graph clauses for an accepted text s against observation r (both sides accepted)
GraphVerdict(r, s) ==
  IF Len(s.atoms) # Len(r.atoms) THEN {"natoms"}
  ELSE If(\E k \in 1..Len(r.atoms) : s.atoms[k].z # r.atoms[k].z, "element")
       \cup If(\E k \in 1..Len(r.atoms) : s.atoms[k].chg # r.atoms[k].c, "charge")
       \cup If(\E k \in 1..Len(r.atoms) : s.atoms[k].iso # r.atoms[k].i, "isotope")
       \cup If(~BondsAgree(r, s), "bonds")

\* the k-th recorded double-bond relation is what the text says
CtOK(r, s, k) == CisDefined(s, r.ct[k][1], r.ct[k][2]) /\ (Cis(s, r.ct[k][1], r.ct[k][2], r.ct[k][3], r.ct[k][4]) = (r.ct[k][5] = 1))
\* situation of known finding C02-ctmap: the double bond is written as a ring-closure bond and one of its substituent
\* bonds is shared with another double bond that carries configuration (conjugated polyene)
PolyeneClosure(r, s, k) ==
  LET a == r.ct[k][1] b == r.ct[k][2] IN
  /\ IsClosureBond(s, a, b)
  /\ \E j \in 1..Len(r.ct) : j # k /\ ({r.ct[j][1], r.ct[j][2]} \cap (Subst(s, a, b) \cup Subst(s, b, a)) # {})

StereoVerdict(r, s) ==
  IF Len(s.atoms) # Len(r.atoms) \/ ~BondsAgree(r, s) THEN {}
  ELSE If(\E k \in 1..Len(r.atoms) : r.atoms[k].p # 2 /\ r.atoms[k].hm = 0 /\ TetParity(s, k) # r.atoms[k].p, "parity")
       \cup If(\E k \in 1..Len(r.ct) : ~CtOK(r, s, k) /\ ~PolyeneClosure(r, s, k), "cistrans")
       \cup If(\E k \in 1..Len(r.ct) : ~CtOK(r, s, k) /\ PolyeneClosure(r, s, k), "cistrans-closure-double-bond-in-polyene")

NumberVerdict(r, s) ==
  IF Len(s.atoms) # Len(r.atoms) THEN {}
  ELSE If(\E k \in 1..Len(r.atoms) : NumberOf(s, k) # r.atoms[k].n, "number")

\* hydrogens written in brackets: a count the code kept must be the written one; the code may only replace a written count
\* when it flags the mismatch (r.atoms[k].hm = 1: listed in the parsing log) -- see Trace_C03 for the use
BracketH(r, s) ==
  IF Len(s.atoms) # Len(r.atoms) THEN {}
  ELSE If(\E k \in 1..Len(r.atoms) : s.atoms[k].br /\ r.atoms[k].hm = 0 /\ r.atoms[k].h # s.atoms[k].h, "bracket-hydrogens")
=============================================================================
