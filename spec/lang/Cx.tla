---------------------------------- MODULE Cx ----------------------------------
(* The CXSMILES extension block the library writes and reads:  |^1:i,j,...|  radicals by 0-based atom index in text order,
   f:a.b,c.d  fragment grouping (0-based molecule indices of a reaction).  A block is a sequence of characters. *)
EXTENDS Naturals, Sequences, FiniteSets

CxDigits == {"0","1","2","3","4","5","6","7","8","9"}
CxVal(c) == CASE c = "0" -> 0 [] c = "1" -> 1 [] c = "2" -> 2 [] c = "3" -> 3 [] c = "4" -> 4
              [] c = "5" -> 5 [] c = "6" -> 6 [] c = "7" -> 7 [] c = "8" -> 8 [] c = "9" -> 9

\* numbers of a comma separated list starting at position i; stops at the first character that is neither digit nor comma
RECURSIVE CxList(_, _, _, _, _)
CxList(b, i, cur, have, acc) ==
  IF i <= Len(b) /\ b[i] \in CxDigits THEN CxList(b, i + 1, cur * 10 + CxVal(b[i]), TRUE, acc)
  ELSE IF i <= Len(b) /\ b[i] = "," /\ have THEN CxList(b, i + 1, 0, FALSE, acc \cup {cur})
  ELSE IF have THEN acc \cup {cur} ELSE acc

\* all positions where "^d:" starts (d in 1..7)
RadicalStarts(b) == { i \in 1..Len(b) : i + 2 <= Len(b) /\ b[i] = "^" /\ b[i + 1] \in {"1","2","3","4","5","6","7"} /\ b[i + 2] = ":" }
\* 0-based indices of radical atoms named by the block (empty block -> {})
Radicals(b) == IF Len(b) >= 2 /\ b[1] = "|" /\ b[Len(b)] = "|"
               THEN UNION { CxList(b, i + 3, 0, FALSE, {}) : i \in RadicalStarts(b) }
               ELSE {}

\* ---- fragment grouping  f:0.1,3.4  -> sequence of sets of 0-based molecule indices ----
RECURSIVE CxGroups(_, _, _, _, _, _)
\* cur: number being read, have: a digit was seen, grp: current group, acc: finished groups
CxGroups(b, i, cur, have, grp, acc) ==
  IF i <= Len(b) /\ b[i] \in CxDigits THEN CxGroups(b, i + 1, cur * 10 + CxVal(b[i]), TRUE, grp, acc)
  ELSE IF i <= Len(b) /\ b[i] = "." /\ have THEN CxGroups(b, i + 1, 0, FALSE, grp \cup {cur}, acc)
  ELSE IF i <= Len(b) /\ b[i] = "," /\ have THEN CxGroups(b, i + 1, 0, FALSE, {}, Append(acc, grp \cup {cur}))
  ELSE IF have THEN Append(acc, grp \cup {cur}) ELSE acc
FragStarts(b) == { i \in 1..Len(b) : i + 1 <= Len(b) /\ b[i] = "f" /\ b[i + 1] = ":" }
Fragments(b) == IF Len(b) >= 2 /\ b[1] = "|" /\ b[Len(b)] = "|" /\ FragStarts(b) # {}
                THEN CxGroups(b, (CHOOSE i \in FragStarts(b) : \A j \in FragStarts(b) : i <= j) + 2, 0, FALSE, {}, <<>>)
                ELSE <<>>

\* ---- splitting a character sequence ----
RECURSIVE SplitAt(_, _, _, _, _)
SplitAt(b, ch, i, cur, acc) == IF i > Len(b) THEN Append(acc, cur)
                               ELSE IF b[i] = ch THEN SplitAt(b, ch, i + 1, <<>>, Append(acc, cur))
                               ELSE SplitAt(b, ch, i + 1, Append(cur, b[i]), acc)
Split(b, ch) == SplitAt(b, ch, 1, <<>>, <<>>)
RECURSIVE JoinDot(_)
JoinDot(seqs) == IF Len(seqs) = 0 THEN <<>> ELSE IF Len(seqs) = 1 THEN seqs[1] ELSE seqs[1] \o <<".">> \o JoinDot(Tail(seqs))
=============================================================================
