---------------------------------- MODULE Cx ----------------------------------
(* The CXSMILES extension block the library writes and reads:  |^1:i,j,...|  radicals by 0-based atom index in text order,
   f:a.b,c.d  fragment grouping (0-based molecule indices of a reaction).  A block is a sequence of characters. *)
EXTENDS Naturals, Sequences, FiniteSets

CxDigits == {"0","1","2","3","4","5","6","7","8","9"}
CxVal(c) == CASE c = "0" -> 0 [] c = "1" -> 1 [] c = "2" -> 2 [] c = "3" -> 3 [] c = "4" -> 4
              [] c = "5" -> 5 [] c = "6" -> 6 [] c = "7" -> 7 [] c = "8" -> 8 [] c = "9" -> 9

\* numbers of a comma separated list starting at position i; stops at the first character that is neither digit nor comma
RECURSIVE CxList(_, _, _, _, _)
CxList(b, i, cur, have, acc) ==
  IF i <= Len(b) /\ b[i] \in CxDigits THEN CxList(b, i + 1, cur * 10 + CxVal(b[i]), TRUE, acc)
  ELSE IF i <= Len(b) /\ b[i] = "," /\ have THEN CxList(b, i + 1, 0, FALSE, acc \cup {cur})
  ELSE IF have THEN acc \cup {cur} ELSE acc

\* all positions where "^d:" starts (d in 1..7)
RadicalStarts(b) == { i \in 1..Len(b) : i + 2 <= Len(b) /\ b[i] = "^" /\ b[i + 1] \in {"1","2","3","4","5","6","7"} /\ b[i + 2] = ":" }
\* 0-based indices of radical atoms named by the block (empty block -> {})
Radicals(b) == IF Len(b) >= 2 /\ b[1] = "|" /\ b[Len(b)] = "|"
               THEN UNION { CxList(b, i + 3, 0, FALSE, {}) : i \in RadicalStarts(b) }
               ELSE {}
=============================================================================
