"""chython-side helpers used by the observers: corpus, projection of stored fields (DESIGN 3.3), generators.

The projection reads stored fields only (`_atoms`, `_bonds` in iteration order; per atom atomic_number, _isotope, _charge,
_is_radical, _implicit_hydrogens, _stereo, x, y; per bond _order, _stereo).  Everything derived is an observation.
"""
import csv
import os
import random

REPO = os.environ.get('VERIF_REPO', '/repo')
_corpus = None


def corpus():
    global _corpus
    if _corpus is None:
        with open(os.path.join(REPO, 'pach', 'lipophilicity.csv')) as f:
            _corpus = [r[2] for r in list(csv.reader(f))[1:]]
    return _corpus


def pick(seq, n, seed, salt=0):
    """seed-selected slice (deterministic)"""
    seq = list(seq)
    if n >= len(seq):
        return seq
    rnd = random.Random(seed * 1000003 + salt)
    return rnd.sample(seq, n)


def ival(x):
    return -1 if x is None else int(x)


def stereo_val(x):
    """stored mark: 0 none, 1 True, 2 False"""
    return 0 if x is None else (1 if x else 2)


def project(m, order=None, coords=False):
    """stored-field projection; positions 1..n follow `order` (default: _atoms iteration order)"""
    order = list(m._atoms) if order is None else list(order)
    idx = {n: i + 1 for i, n in enumerate(order)}
    atoms = []
    for n in order:
        a = m._atoms[n]
        d = {'n': n, 'z': a.atomic_number, 'i': a._isotope or 0, 'c': a._charge, 'r': 1 if a._is_radical else 0,
             'h': ival(a._implicit_hydrogens), 's': stereo_val(a._stereo),
             'nb': [idx[k] for k in m._bonds[n]]}
        if coords:
            d['x'] = int(round(a.x * 10000))
            d['y'] = int(round(a.y * 10000))
        atoms.append(d)
    bonds = []
    seen = set()
    for n in order:
        for k, b in m._bonds[n].items():
            if k in seen:
                continue
            bonds.append([idx[n], idx[k], int(b._order), stereo_val(b._stereo)])
        seen.add(n)
    return {'atoms': atoms, 'bonds': bonds}


def parity(m, n, idx):
    """parity of a stored tetrahedral mark w.r.t. ascending position `idx` (hydrogen last); 2 = no tetrahedral mark.
    Meaning of the stored sign (DESIGN app. A): True <=> '@' for the non-hydrogen neighbours in _bonds order, H last."""
    a = m._atoms[n]
    if a._stereo is None:
        return 2
    env = [idx[x] for x in m._bonds[n] if m._atoms[x].atomic_number != 1]
    if len(env) not in (3, 4) or any(b._order != 1 for b in m._bonds[n].values()):
        return 2
    exh = [idx[x] for x in m._bonds[n] if m._atoms[x].atomic_number == 1]
    if len(env) == 3:
        env.append(10 ** 6)
    inv = sum(1 for i in range(4) for j in range(i + 1, 4) if env[i] > env[j])
    return ((0 if a._stereo else 1) + inv) % 2


def cistrans(m, idx):
    """same-side relations of stored double-bond marks for simple alkenes: [a, b, x, y, cis]"""
    res = []
    for n, k, b in m.bonds():
        if b._stereo is None or b._order != 2:
            continue
        if any(bx._order == 2 and x != k for x, bx in m._bonds[n].items()) or \
                any(bx._order == 2 and x != n for x, bx in m._bonds[k].items()):
            continue

        def ref(a, partner):
            for x, bx in m._bonds[a].items():
                if x != partner and m._atoms[x].atomic_number != 1 and bx._order != 8:
                    return x
        x, y = ref(n, k), ref(k, n)
        if x is None or y is None:
            continue
        res.append([idx[n], idx[k], idx[x], idx[y], 1 if b._stereo else 0])
    return res


def axial(m, idx):
    """stored marks of cumulenes, in the same form as cistrans(): [t1, t2, x, y, sign] for the two chain ends t1, t2, the first
    non-hydrogen, non-coordinate substituent x of t1 and y of t2 in _bonds order.  Odd chains (allenes) carry the mark on the central
    atom, even chains with three or more double bonds on the central bond.  Naming the other substituent of an end inverts the sign,
    exchanging the ends does not (the sign algebra itself is decided by C12)."""
    res = []

    def walk(prev, cur):
        # follow double bonds away from prev
        while True:
            nxt = [x for x, b in m._bonds[cur].items() if x != prev and b._order == 2]
            if len(nxt) != 1:
                return cur
            prev, cur = cur, nxt[0]

    def ref(a, chain):
        for x, bx in m._bonds[a].items():
            if x not in chain and m._atoms[x].atomic_number != 1 and bx._order != 8:
                return x

    def chain_nb(a):
        return {x for x, b in m._bonds[a].items() if b._order == 2}

    for c, a in m._atoms.items():      # allenes
        dbl = [x for x, b in m._bonds[c].items() if b._order == 2]
        if a._stereo is None or len(dbl) != 2 or len(m._bonds[c]) != 2:
            continue
        t1, t2 = walk(c, dbl[0]), walk(c, dbl[1])
        x, y = ref(t1, chain_nb(t1)), ref(t2, chain_nb(t2))
        if x is None or y is None:
            continue
        res.append([idx[t1], idx[t2], idx[x], idx[y], 1 if a._stereo else 0])
    for n, k, b in m.bonds():          # even cumulenes longer than one double bond
        if b._stereo is None or b._order != 2:
            continue
        on = [x for x, bx in m._bonds[n].items() if x != k and bx._order == 2]
        ok = [x for x, bx in m._bonds[k].items() if x != n and bx._order == 2]
        if not on and not ok:
            continue      # a simple alkene: cistrans()
        t1 = walk(k, n) if on else n
        t2 = walk(n, k) if ok else k
        x, y = ref(t1, chain_nb(t1)), ref(t2, chain_nb(t2))
        if x is None or y is None:
            continue
        res.append([idx[t1], idx[t2], idx[x], idx[y], 1 if b._stereo else 0])
    return res


def outcome(fn, *a, **kw):
    """call fn; classify the outcome: ('ok', value) | ('valueerror', name) | ('foreign', name)"""
    try:
        return 'ok', fn(*a, **kw)
    except ValueError as e:
        return 'valueerror', type(e).__name__
    except RecursionError:
        return 'foreign', 'RecursionError'
    except Exception as e:
        return 'foreign', type(e).__name__


def renumbered(m, rnd):
    """a copy of m rebuilt from scratch with permuted atom numbers and shuffled insertion order of atoms and bonds"""
    from chython import MoleculeContainer
    nums = list(m._atoms)
    new = nums[:]
    rnd.shuffle(new)
    mp = dict(zip(nums, new))
    r = MoleculeContainer()
    order = nums[:]
    rnd.shuffle(order)
    for n in order:
        a = m._atoms[n]
        r.add_atom(a.copy(hydrogens=True, stereo=True), mp[n])
    bl = [(n, k, b) for n, k, b in m.bonds()]
    rnd.shuffle(bl)
    for n, k, b in bl:
        if rnd.random() < .5:
            n, k = k, n
        r.add_bond(mp[n], mp[k], b.copy(stereo=True))
    return r, mp
