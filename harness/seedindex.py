"""regenerate seeded/INDEX.md from the meta.json files"""
import json, os
root = '/verif/seeded'
rows = []
def key(x):
    p = x.split('-')
    return (p[0], int(p[1][1:]) if len(p) > 1 and p[1][1:].isdigit() else 0)


for d in sorted(os.listdir(root), key=key):
    p = os.path.join(root, d, 'meta.json')
    if os.path.exists(p):
        m = json.load(open(p))
        rows.append((d, m.get('caught_by', ''), m.get('note', '')))
missed = sum(1 for r in rows if r[2].startswith('missed') or ', but the check ended' in r[2])
with open(os.path.join(root, 'INDEX.md'), 'w') as f:
    f.write('# Seeded changes kept under seeded/ (generated from the meta.json files)\n\n')
    f.write(f'{len(rows)} changes; {missed} were missed by the version of the check that existed when they were written (the note says what was strengthened).\n\n')
    f.write('| change | reported by (quick tier) | history |\n|---|---|---|\n')
    for r in rows:
        f.write('| ' + ' | '.join(x.replace('|', '/').replace('\n', ' ') for x in r) + ' |\n')
print(len(rows), missed)
