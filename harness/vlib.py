"""Shared plumbing of the checks: parts, TLC runner, verdict parsing, findings, evidence.

A check (harness/checks/cNN.py) is a list of *parts*.  Three kinds:

  TracePart  code -> spec.  `cases(tier, seed)` yields JSON-able cases (each with a unique 'key'); `observe(case)` runs
             chython (in a worker process) and returns the recorded observation (a JSON record); TLC evaluates the
             trace spec `module` over all records and reports, per record, the set of violated clauses through PrintT
             lines `<<"VERDICT", i, {...}>>`.  Nothing is decided in Python.
  ModelPart  design-level model checking of a bounded instance (spec + cfg); must finish without error.
  ReplayPart spec -> code.  TLC generates behaviours (simulate / dump), a python replayer steps the real code along
             them and records the projected state after each action; TLC validates the recorded trace.

Exit codes: 0 held, 1 violation (VIOLATION line), 2 machinery failure.
"""
import json
import multiprocessing as mp
import os
import re
import shutil
import subprocess
import sys
import tempfile
import time
import traceback

VERIF = os.path.dirname(os.path.dirname(os.path.abspath(__file__)))
REPO = os.environ.get('VERIF_REPO', '/repo')
SPEC = os.path.join(VERIF, 'spec')
WORKERS = int(os.environ.get('VERIF_WORKERS', '16'))


class Machinery(Exception):
    pass


# ------------------------------------------------------------------------------------------------ TLC
_scratch = None


def scratch():
    global _scratch
    if _scratch is None:
        _scratch = tempfile.mkdtemp(prefix='verif-')
        import atexit
        atexit.register(shutil.rmtree, _scratch, True)
    return _scratch


def _spec_files():
    out = []
    for root, _, files in os.walk(SPEC):
        for f in files:
            if f.endswith('.tla'):
                out.append(os.path.join(root, f))
    return out


_TLC_STATS = re.compile(r'(\d+) states generated, (\d+) distinct states found')
_VERDICT = re.compile(r'<<\s*"VERDICT",\s*(-?\d+),\s*(\{[^{}]*\}|"[^"]*")\s*>>', re.S)
_INFO = re.compile(r'<<\s*"INFO",\s*(-?\d+),\s*(.*?)>>\s*$', re.M)


def run_tlc(module, cfg_text, data=None, workers=None, extra_args=(), timeout=3600, tag=None, files=None, depth_first=False):
    """run TLC on spec module `module` with the given cfg text; `data` is written as data.json beside it.
    returns dict(out, generated, distinct, verdicts=[(i, [clauses])], infos, wall)"""
    d = tempfile.mkdtemp(prefix=(tag or module) + '-', dir=scratch())
    for f in _spec_files():
        shutil.copy(f, d)
    if data is not None:
        with open(os.path.join(d, 'data.json'), 'w') as f:
            json.dump(data, f, separators=(',', ':'))
    for name, content in (files or {}).items():
        with open(os.path.join(d, name), 'w') as f:
            f.write(content)
    with open(os.path.join(d, module + '.cfg'), 'w') as f:
        f.write(cfg_text)
    keep = os.environ.get('VERIF_KEEP_DATA')
    if keep and data is not None:       # self-test of the binding (harness/selftest.py): keep a sample of what TLC was given
        k = os.path.join(keep, (tag or module) + '-' + os.path.basename(d)[-6:])
        os.makedirs(k, exist_ok=True)
        with open(os.path.join(k, 'data.json'), 'w') as f:
            json.dump(data[:200], f, separators=(',', ':'))
        with open(os.path.join(k, 'meta.json'), 'w') as f:
            json.dump({'module': module, 'cfg': cfg_text, 'files': files or {}, 'n': len(data[:200])}, f)
    cmd = ['tlc', '-workers', str(workers or WORKERS), '-metadir', os.path.join(d, 'meta'), '-noGenerateSpecTE',
           '-config', module + '.cfg', *extra_args, module + '.tla']
    env = dict(os.environ)
    jto = '-Xss64m -Xmx24g'
    if depth_first:
        jto += ' -Dtlc2.tool.queue.IStateQueue=StateDeque'
    env['JAVA_TOOL_OPTIONS'] = jto
    t0 = time.time()
    try:
        p = subprocess.run(cmd, cwd=d, env=env, stdout=subprocess.PIPE, stderr=subprocess.STDOUT, text=True, timeout=timeout)
    except subprocess.TimeoutExpired:
        subprocess.run(['pkill', '-f', 'tlc2[.]TLC.*' + os.path.basename(d)])
        raise Machinery(f'TLC timed out after {timeout}s on {module}')
    out = p.stdout
    wall = time.time() - t0
    m = _TLC_STATS.findall(out)
    res = dict(out=out, wall=wall, generated=int(m[-1][0]) if m else 0, distinct=int(m[-1][1]) if m else 0, rc=p.returncode,
               dir=d, cmd=' '.join(cmd))
    res['verdicts'] = [(int(i), re.findall(r'"([^"]*)"', v)) for i, v in _VERDICT.findall(out)]
    res['error'] = None
    em = re.search(r'^Error: .*$', out, re.M)
    if em or 'Exception' in out and 'java.' in out:
        # keep a readable excerpt
        k = out.find('Error:')
        res['error'] = out[k:k + 3000] if k >= 0 else out[-3000:]
    if 'Invariant' in out and 'is violated' in out:
        im = re.search(r'Invariant (\S+) is violated', out)
        res['invariant'] = im.group(1) if im else '?'
    if 'Deadlock reached' in out:
        res['error'] = res['error'] or 'deadlock'
    if p.returncode == 0 and not m:
        res['error'] = res['error'] or 'no statistics line'
    shutil.rmtree(os.path.join(d, 'meta'), True)
    return res


def sany(module_path):
    p = subprocess.run(['tla-sany', module_path], cwd=os.path.dirname(module_path), stdout=subprocess.PIPE, stderr=subprocess.STDOUT, text=True)
    return p.returncode == 0 and 'error' not in p.stdout.lower().replace('errors: 0', ''), p.stdout


CHUNK_CFG = '''CONSTANT CH = %d
INIT Init
NEXT Next
CONSTRAINT Report
CHECK_DEADLOCK FALSE
'''


# ------------------------------------------------------------------------------------------------ worker pool
_OBS = {}


def _init_worker():
    sys.setrecursionlimit(10000)


def _observe(args):
    modname, fn, case = args
    import importlib
    mod = importlib.import_module(modname)
    try:
        return getattr(mod, fn)(case)
    except Exception as e:  # an observer must never raise: a crash inside chython is an observation
        return {'_observer_error': f'{type(e).__name__}: {e}', '_tb': traceback.format_exc()[-2000:]}


def pmap(modname, fn, cases, procs=None, chunksize=None):
    """run checks.<modname>.<fn>(case) for every case in worker processes (order preserved)"""
    procs = procs or WORKERS
    if len(cases) < 8 or procs == 1:
        return [_observe((modname, fn, c)) for c in cases]
    ctx = mp.get_context('fork')
    with ctx.Pool(procs, initializer=_init_worker) as pool:
        return pool.map(_observe, [(modname, fn, c) for c in cases], chunksize or max(1, len(cases) // (procs * 8)))


# ------------------------------------------------------------------------------------------------ findings
def load_findings():
    p = os.path.join(VERIF, 'known_findings.json')
    if not os.path.exists(p):
        return []
    return json.load(open(p))


# ------------------------------------------------------------------------------------------------ check context
class Check:
    def __init__(self, pid, tier, seed, replay=None):
        self.pid, self.tier, self.seed, self.replay = pid, tier, seed, replay
        self.t0 = time.time()
        self.states = self.transitions = self.traces = self.evaluations = 0
        self.distinct = set()
        self.samples = []
        self.clauses = {}
        self.out_of_domain = {}
        self.parts = []
        self.viol = []           # (part, key, clauses, replay path)
        self.known_hit = []
        self.tlc_cmds = []
        self.exhaustive = {}
        self.assumptions = []
        self.findings = [f for f in load_findings() if f.get('property') == pid and f.get('status') == 'known']
        self.nrep = 0
        self.notes = {}
        if not replay:
            shutil.rmtree(os.path.join(VERIF, 'replays', pid), True)

    @property
    def quick(self):
        return self.tier == 'quick'

    def log(self, *a):
        print(f'[{self.pid} {time.time() - self.t0:6.1f}s]', *a, flush=True)

    def want(self, part):
        """development aid: VERIF_ONLY=substr[,substr] restricts a run to the parts whose name contains one of them
        (evidence is then not written)"""
        only = os.environ.get('VERIF_ONLY')
        return not only or any(x in part for x in only.split(','))

    def select(self, part, cases):
        if not self.want(part):
            return []
        """in --replay mode only the recorded case of the recorded part runs"""
        if self.replay:
            rp = self.replay_case
            return [rp['case']] if rp.get('part') == part else []
        return cases

    # --- reporting a violated clause set for one case
    def report(self, part, case, clauses, detail=None):
        key = case.get('key') if isinstance(case, dict) else str(case)
        for f in self.findings:
            # a finding names the failing input exactly ('key') and/or the situation TLC recognises ('requires': clause names
            # that must be in the verdict); 'clauses' bounds what the verdict may contain besides
            if f.get('part', part) != part:
                continue
            if 'key' in f and f['key'] != key:
                continue
            if 'requires' in f and not set(f['requires']) <= set(clauses):
                continue
            if f.get('clauses') and not set(clauses) <= set(f['clauses']):
                continue
            if 'key' not in f and 'requires' not in f:
                continue
            self.known_hit.append((f, key))
            return
        self.nrep += 1
        os.makedirs(os.path.join(VERIF, 'replays', self.pid), exist_ok=True)
        path = os.path.join(VERIF, 'replays', self.pid, f'{part}-{self.nrep}.json')
        with open(path, 'w') as fh:
            json.dump({'property': self.pid, 'part': part, 'case': case, 'clauses': sorted(clauses), 'detail': detail}, fh, indent=1, default=str)
        self.viol.append((part, key, sorted(clauses), path))
        if self.nrep <= 25:
            print(f'VIOLATION property={self.pid} replay={path}', flush=True)
            print(f'  part={part} key={key!r} clauses={sorted(clauses)} {"" if detail is None else str(detail)[:300]}', flush=True)

    # --- trace validation of a batch of records
    def validate(self, part, module, cases, records, expected_states=None, cfg=None, step_len=None, workers=None, timeout=3600,
                 nontrivial=None, files=None):
        """records[i] belongs to cases[i]; TLC evaluates module over them.  expected_states: number of distinct states a
        complete run produces (default len(records)).  step_len(record) -> number of element steps for stepping specs."""
        assert len(cases) == len(records)
        # observer crashes are violations of 'no foreign exception' only if the part says so; by default machinery errors
        bad = [(c, r) for c, r in zip(cases, records) if isinstance(r, dict) and '_observer_error' in r]
        if bad:
            c, r = bad[0]
            raise Machinery(f'observer failed on {part} case {c.get("key") if isinstance(c, dict) else c}: {r["_observer_error"]}\n{r["_tb"]}')
        n = len(records)
        if n == 0:
            return
        ch = min(64, n)
        if expected_states is None:
            expected_states = n if step_len is None else sum(step_len(r) + 1 for r in records)
        res = run_tlc(module, cfg or (CHUNK_CFG % ch), records, workers=workers, timeout=timeout, tag=f'{self.pid}-{part}', files=files)
        self.tlc_cmds.append(res['cmd'])
        if res['error']:
            raise Machinery(f'TLC failed on {module} ({part}):\n{res["error"]}')
        if res['distinct'] != expected_states and not (res['verdicts'] and res['distinct'] < expected_states):
            raise Machinery(f'TLC explored {res["distinct"]} distinct states on {module} ({part}), a complete validation has {expected_states}\n{res["out"][-1500:]}')
        self.states += res['distinct']
        self.transitions += res['generated']
        self.traces += n
        self.evaluations += n
        seen = set()
        for i, cl in res['verdicts']:
            if (i, tuple(cl)) in seen:
                continue
            seen.add((i, tuple(cl)))
            self.report(part, cases[i - 1], cl, detail=_brief(records[i - 1]))
        for c in cases:
            k = c.get('key') if isinstance(c, dict) else str(c)
            if nontrivial is None or nontrivial(c):
                self.distinct.add((part, k))
        if len(self.samples) < 12:
            self.samples.append({'part': part, 'case': _brief(cases[0], 400), 'record': _brief(records[0], 600)})
        self.parts.append({'part': part, 'kind': 'trace', 'module': module, 'records': n, 'tlc_distinct': res['distinct'],
                           'tlc_generated': res['generated'], 'wall_s': round(res['wall'], 1), 'reported': len(seen)})
        self.log(f'{part}: {n} records validated by {module}: {res["distinct"]} states, {len(seen)} verdict lines, {res["wall"]:.1f}s TLC')
        return res

    # --- design-level model checking
    def model(self, part, module, cfg, workers=None, timeout=3600, extra_args=(), expect_violation=None, min_states=2, files=None):
        if not self.want(part) or self.replay:
            return None
        res = run_tlc(module, cfg, None, workers=workers, timeout=timeout, extra_args=extra_args, tag=f'{self.pid}-{part}', files=files)
        self.tlc_cmds.append(res['cmd'])
        if expect_violation:
            exp = {expect_violation} if isinstance(expect_violation, str) else set(expect_violation)
            if res.get('invariant') not in exp:
                raise Machinery(f'self-test {part}: expected TLC to violate {expect_violation}, got {res.get("invariant")} / {res["error"]}')
            self.parts.append({'part': part, 'kind': 'selftest', 'module': module, 'violated_as_expected': expect_violation})
            self.log(f'{part}: TLC violates {expect_violation} as expected (sensitivity self-test)')
            return res
        if res.get('invariant'):
            # a design-level failure is a failure of the specification (the design), reported as machinery failure:
            raise Machinery(f'design-level model {module} ({part}) violates {res["invariant"]}:\n{res["out"][-3000:]}')
        if res['error']:
            raise Machinery(f'TLC failed on {module} ({part}):\n{res["error"]}')
        if res['distinct'] < min_states:
            raise Machinery(f'{module} ({part}) explored only {res["distinct"]} states')
        for i, cl in res['verdicts']:
            self.report(part, {'key': f'{module}#{i}'}, cl)
        self.states += res['distinct']
        self.transitions += res['generated']
        self.parts.append({'part': part, 'kind': 'model', 'module': module, 'tlc_distinct': res['distinct'],
                           'tlc_generated': res['generated'], 'wall_s': round(res['wall'], 1)})
        self.log(f'{part}: {module} model checked: {res["distinct"]} distinct / {res["generated"]} generated states, {res["wall"]:.1f}s')
        return res

    def count(self, clause, n=1):
        self.clauses[clause] = self.clauses.get(clause, 0) + n

    def ood(self, name, n=1):
        self.out_of_domain[name] = self.out_of_domain.get(name, 0) + n

    def finish(self, level_text='', rule='', trusted=()):
        for f, key in self.known_hit:
            pass
        printed = set()
        for f, key in self.known_hit:
            fid = f.get('id') or f.get('key')
            if fid in printed:
                continue
            printed.add(fid)
            n = sum(1 for g, _ in self.known_hit if (g.get('id') or g.get('key')) == fid)
            print(f'KNOWN-FINDING: property={self.pid} {f.get("what", fid)} [{n} case(s) in this run]', flush=True)
        wall = time.time() - self.t0
        ev = {
            'property_id': self.pid, 'tier': self.tier, 'seed': self.seed, 'level': 'model_checking',
            'coverage': {
                'states': self.states, 'transitions': self.transitions, 'traces_validated_against_impl': self.traces,
                'samples': self.samples or [{'note': 'no trace part ran'}],
                'evaluations': self.evaluations, 'distinct_nontrivial': len(self.distinct), 'rule': rule,
                'exhaustive': bool(self.exhaustive) and all(self.exhaustive.values()), 'exhaustive_parts': self.exhaustive,
                'parts': self.parts, 'out_of_domain': self.out_of_domain, 'clauses': self.clauses,
                'checker_cmd': '; '.join(sorted(set(re.sub(r'-metadir \S+ ', '', c) for c in self.tlc_cmds))), 'trusted_base': list(trusted), 'notes': self.notes,
                'known_findings_hit': sorted(printed),
            },
            'assumptions': self.assumptions, 'wall_s': round(wall, 1), 'violations': len(self.viol),
        }
        if not self.replay and not os.environ.get('VERIF_ONLY'):
            os.makedirs(os.path.join(VERIF, 'evidence'), exist_ok=True)
            with open(os.path.join(VERIF, 'evidence', f'{self.pid}.json'), 'w') as fh:
                json.dump(ev, fh, indent=1, default=str)
        if self.viol:
            if self.nrep > 25:
                print(f'... {self.nrep} violations in total', flush=True)
            self.log(f'FAILED: {len(self.viol)} violation(s), {wall:.0f}s')
            return 1
        self.log(f'held: {self.states} states, {self.traces} traces validated against the implementation, {wall:.0f}s')
        return 0


def _brief(x, lim=300):
    s = json.dumps(x, default=str, separators=(',', ':'))
    if len(s) <= lim:
        return x
    return s[:lim] + '...'


def chars(s):
    return list(s)


def main(pid, run, replay_fn=None):
    import argparse
    ap = argparse.ArgumentParser()
    ap.add_argument('--tier', default=os.environ.get('VERIF_TIER', 'quick'), choices=['quick', 'thorough'])
    ap.add_argument('--replay')
    a = ap.parse_args(sys.argv[2:] if len(sys.argv) > 1 and sys.argv[1] == pid else sys.argv[1:])
    seed = int(os.environ.get('VERIF_SEED', '0') or 0)
    ck = Check(pid, a.tier, seed, replay=a.replay)
    try:
        if a.replay:
            rp = json.load(open(a.replay))
            ck.replay_case = rp
        rc = run(ck)
        if rc is None:
            rc = 0
        sys.exit(rc)
    except Machinery as e:
        print(f'MACHINERY FAILURE in {pid}: {e}', flush=True)
        sys.exit(2)
    except SystemExit:
        raise
    except Exception:
        traceback.print_exc()
        print(f'MACHINERY FAILURE in {pid}: unexpected exception', flush=True)
        sys.exit(2)
