"""C05 - Kekule and aromatic forms describe the same molecule; conversions are stable.

code -> spec: for a molecule K0 in Kekule form: A = thiele(K0), kekule(A), thiele(A) again, kekule(K0) again, every enumerated
Kekule form of A and its re-aromatisation, and thiele of a renumbered / re-inserted copy are recorded; TLC (Trace_C05 with
spec/sys/Aromatic.tla and the valence interpreter) checks the frame conditions, valence validity of every Kekule form, that all
forms aromatise to A (outside the recorded unsaturated-four-ring gap), idempotence and numbering independence.
"""
import ast
import itertools
import os
import random

import chy
import tables
import vlib


def mproj(m, order=None):
    order = list(m._atoms) if order is None else order
    idx = {n: i + 1 for i, n in enumerate(order)}
    return {'atoms': [{'z': m._atoms[n].atomic_number, 'c': m._atoms[n]._charge, 'i': m._atoms[n]._isotope or 0, 'r': 1 if m._atoms[n]._is_radical else 0,
                       'h': chy.ival(m._atoms[n]._implicit_hydrogens)} for n in order],
            'bonds': sorted([min(idx[a], idx[b]), max(idx[a], idx[b]), int(bd._order)] for a, b, bd in m.bonds()),
            'rings': [[idx[x] for x in r] for r in m.sssr]}


def observe(case):
    from chython import smiles
    rnd = random.Random(case['rs'])
    a0 = {'atoms': [], 'bonds': [], 'rings': []}
    try:
        k0 = smiles(case['smi'])
        k0.clean_stereo()
        if case.get('restore'):    # an aromatic spelling of the library's own model (which bonds the text calls aromatic)
            a0 = mproj(k0)
        k0.kekule()
    except Exception as e:
        if case.get('must'):     # an input that is known to be a valid aromatic or Kekule spelling: failing to convert it is a violation
            empty = {'atoms': [], 'bonds': [], 'rings': []}
            return {'exc': 'kekule:' + type(e).__name__, 'smi': case['smi'], 'th': -1, 'rdh': -1, 'a0': empty, 'k0': empty, 'a': empty, 'k1': empty, 'a2': empty, 'k2': empty, 'ar': empty, 'forms': [], 'back': []}
        return {'skip': type(e).__name__}
    if not any(b._order == 2 for *_, b in k0.bonds()):
        return {'skip': 'no-double-bond'}
    order = list(k0._atoms)
    rec = {'exc': '', 'smi': case['smi'], 'th': -1, 'rdh': -1, 'a0': a0}
    # the number of hydrogens an aromatic spelling denotes, by an independent reader of the text (a bare aromatic n carries none)
    if any(ch in case['smi'] for ch in 'cnosp') and all(a._implicit_hydrogens is not None for a in k0._atoms.values()):
        try:
            from rdkit import Chem, RDLogger
            RDLogger.DisableLog('rdApp.*')
            rd = Chem.MolFromSmiles(case['smi'])
            if rd is not None and not any(a.GetNumRadicalElectrons() for a in rd.GetAtoms()):
                rec['rdh'] = sum(a.GetTotalNumHs() for a in rd.GetAtoms()) + sum(1 for a in rd.GetAtoms() if a.GetAtomicNum() == 1)
                rec['th'] = sum(a._implicit_hydrogens for a in k0._atoms.values()) + sum(1 for a in k0._atoms.values() if a.atomic_number == 1)
        except ImportError:
            pass
    empty = {'atoms': [], 'bonds': [], 'rings': []}
    for f in ('k0', 'a', 'k1', 'a2', 'k2', 'ar'):
        rec[f] = empty
    rec['forms'], rec['back'] = [], []
    try:
        rec['k0'] = mproj(k0)
        a = k0.copy()
        a.thiele()
        rec['a'] = mproj(a)
        k1 = a.copy()
        k1.kekule()
        rec['k1'] = mproj(k1)
        a2 = a.copy()
        a2.thiele()
        rec['a2'] = mproj(a2)
        k2 = k0.copy()
        k2.kekule()
        rec['k2'] = mproj(k2)
        forms = list(itertools.islice(a.enumerate_kekule(), 40))
        rec['forms'] = [mproj(f) for f in forms]
        back = []
        for f in forms:
            b = f.copy()
            b.thiele()
            back.append(mproj(b))
        rec['back'] = back
        r, mp = chy.renumbered(k0, rnd)
        r.thiele()
        rec['ar'] = mproj(r, [mp[n] for n in order])
    except Exception as e:
        rec['exc'] = type(e).__name__
    return rec


def ring_zoo(rnd, n):
    """aromatic SMILES of mono- and fused bicyclic 5/6/7-membered rings with hetero placements and exocyclic groups"""
    five = ['c', 'n', '[nH]', 'o', 's', '[se]', 'c', 'c', 'n', '[n+](C)', 'c(C)', 'c(O)', 'c(=O)'.replace('c(=O)', 'c(N)'), 'p', 'b']
    out = set()
    for _ in range(n):
        k = rnd.choice([5, 6, 6, 6, 7])
        atoms = [rnd.choice(five if k == 5 else ['c', 'c', 'c', 'n', 'c(C)', 'c(N)', 'c(O)', 'c(F)', '[n+](C)', '[n+]([O-])', 'c(Cl)', '[o+]', '[cH-]' if k == 5 else 'c']) for _ in range(k)]
        if rnd.random() < .5:
            s = atoms[0] + '1' + ''.join(atoms[1:]) + '1'
        else:   # fused second ring on the bond between the last and first atom
            k2 = rnd.choice([5, 6])
            second = [rnd.choice(['c', 'c', 'n', '[nH]', 'o', 's', 'c(C)']) for _ in range(k2 - 2)]
            s = 'c1' + ''.join(atoms[1:-1]) + 'c2' + ''.join(second) + 'c12'
        out.add(s.replace('c1', 'c1', 1))
    return sorted(out)


def doc_pairs():
    """literal SMILES strings inside the repository's aromaticity tests (harvested from the working tree)"""
    out = set()
    for f in ('chython/algorithms/aromatics/test/test_kekule.py', 'chython/algorithms/aromatics/test/test_thiele.py'):
        p = os.path.join(chy.REPO, f)
        if not os.path.exists(p):
            continue
        for node in ast.walk(ast.parse(open(p).read())):
            if isinstance(node, ast.Constant) and isinstance(node.value, str) and 2 < len(node.value) < 120 and ' ' not in node.value.strip() \
                    and any(ch in node.value for ch in 'cnos=') and all(ch.isalnum() or ch in '()[]=#+-@/\\.%:' for ch in node.value):
                out.add(node.value)
    return sorted(out)


def run(ck):
    rnd = random.Random(ck.seed)
    files = {'tables.json': tables.all_tables_json()}
    corp = [s for s in chy.corpus() if any(ch in s for ch in 'cnos') and len(s) < 90]
    special = ['c1ccccc1', 'c1ccc2ccccc2c1', 'c1ccc2cc3ccccc3cc2c1', 'c1cc[nH]c1', 'c1ccoc1', 'c1ccsc1', 'c1cnc[nH]1', 'c1ccncc1', 'C[n+]1ccccc1', '[O-][n+]1ccccc1', 'c1cc[o+]cc1',
               '[cH-]1cccc1', 'O=c1cc[nH]cc1', 'O=c1[nH]cccc1', 'O=C1C=CC(=O)C=C1', 'c1ccc2c(c1)c1ccccc21', 'c1ccc2c(c1)[nH]c1ccccc12', 'Cn1cnc2c1c(=O)n(C)c(=O)n2C', 'c1cc2cccc3ccc4cccc1c4c32',
               'c1ccc(cc1)-c1ccccc1', 'c1c[se]cc1', 'c1ccpcc1', 'c1ccbcc1'.replace('b', 'B').replace('c1ccBcc1', 'B1=CC=CC=C1'), 'c1cc2ccc1CCc1ccc(CC2)cc1', 'C1=CC=CC=CC=C1', 'C1=CC=C1',
               'c1ccc2[nH]ccc2c1', 'c1ccc2occc2c1', 'c1ccc2sccc2c1', 'c1cnc2[nH]ccc2c1', 'c1ccn2ccnc2c1', 'c1cn2ccccc2n1', 'O=c1ccoc2ccccc12', 'O=c1cc(-c2ccccc2)oc2ccccc12', 'c1ccc2nc3ccccc3cc2c1',
               'Oc1ccccn1', 'Oc1ccncc1', 'Nc1ncnc2[nH]cnc12', 'O=c1[nH]cnc2[nH]cnc12', 'Cc1cc(=O)[nH]c(=O)[nH]1', 'c1ccc2c(c1)ccc1ccccc21',
               # benzo-fused lactams, thiolactams, azinones: exocyclic C=X next to N-N=C / N=C / C=C in the hetero ring
               'O=C1NN=Cc2ccccc12', 'CN1N=Cc2ccccc2C1=O', 'S=C1NN=Cc2ccccc12', 'O=C1N=Cc2ccccc2N1C', 'O=C1NC=Nc2ccccc12', 'O=C1C=Cc2ccccc2N1', 'O=C1Oc2ccccc2C=C1', 'O=C1NN=Nc2ccccc12',
               'O=C1NN=C(Cc2ccccc2)c2ccccc12', 'O=C1N(C)N=C(C)c2ccccc12', 'O=C1NC(=O)c2ccccc2N1', 'O=C1N=C(C)Nc2ccccc12', 'S=C1N=Cc2ccccc2N1C', 'O=C1C=NNc2ccccc12', 'O=C1NN=Cc2cnccc12',
               'O=C1NN=Cc2sccc12', 'O=C1N=CN(C)c2ccccc12', 'N=C1NN=Cc2ccccc12', 'O=C1NN=Cc2cc3ccccc3cc12', 'O=C1NC=Cc2ccccc12', 'O=C1SC=Nc2ccccc12', 'O=C1OC=Nc2ccccc12']
    sel = chy.pick(corp, 200 if ck.quick else 3000, ck.seed)
    # aromatic spellings with aromatic bonds in large rings, three-membered rings and anions (another toolkit's aromatic form of
    # porphine, annulenes, cyclopropenylium, cyclononatetraenide, paracyclophane)
    special += ['c1cc2cc3ccc(cc4nc(cc5ccc(cc1n2)[nH]5)C=C4)[nH]3', 'C1=Cc2cc3ccc(cc4ccc(cc5nc(cc1n2)C=C5)[nH]4)[nH]3', 'c1ccccccccccccc1', 'c1ccccccccccccccccc1', 'c1c[cH+]1',
                '[cH-]1cccccccc1', 'c1cc2ccc1CCc1ccc(CC2)cc1', 'c1ccc2ccccccc2c1', 'c1ccn2cccc2c1', 'n12cccc1cccc2', 'c1ccn2ccnc2c1', 'c1cc2ccn(n2)c1'.replace('c1cc2ccn(n2)c1', 'c1ccn2nccc2c1'),
                'O=c1cccc2ccccn12', 'c1csc2nccn12', 'c1cnc2cccnn12']
    # pi-complexes: ring atoms with a coordinate bond to the metal, with and without a substituent on the coordinated carbon; poly-aza
    # fused rings in several spellings (the pyrrole-type / pyridine-type choice depends on the visiting order)
    special += ['[cH-]1(~[Fe+2]~[cH-]2cccc2)cccc1', 'C[c-]1(~[Fe+2]~[c-]2(C)cccc2)cccc1', 'Cc1(~[Cr])ccccc1', 'CC[c-]1(~[Fe+2]~[cH-]2cccc2)cccc1', 'Cc1(~[Ru])ccc(C)cc1',
                'c1(~[Cr])ccccc1', 'n1c2ncncc2ncc1', 'n1cnc2nccnc2c1', 'c12ccc3ncccc3c1cccn2', 'c1cnc2c(c1)ccc1cccnc12', 'c1cnc2ncncc2n1', 'n1ccnc2nccnc12', 'c1ncc2nccnc2n1', 'c1cc2nccnc2nn1']
    # five-membered rings with a bridgehead nitrogen, fused through their C=C bond to a ring that is aromatised first
    special += ['c1ccc2c(c1)sc1nccn12', 'c1ccc2c(c1)sc1cccn12', 'c1ccc2c(c1)oc1nccn12', 'c1cnc2sc3ncccc3n12'.replace('c1cnc2sc3ncccc3n12', 'c1cn2c(n1)sc1ncccc12'), 'c1csc2nccn12', 'c1cc2sccn2c1', 'Cc1cn2c(n1)sc1ccccc12',
                'c1ccc2c(c1)n1cccc1n2C'.replace('c1ccc2c(c1)n1cccc1n2C', 'Cn1c2ccccc2n2cccc12')]
    # spellings whose aromatic bonds the library's own model must give back (its documented ring types, no other toolkit's extras)
    restore = {'c1ccc2c(c1)sc1nccn12', 'c1ccc2c(c1)sc1cccn12', 'c1ccc2c(c1)oc1nccn12', 'c1cn2c(n1)sc1ncccc12', 'c1csc2nccn12', 'c1cc2sccn2c1', 'Cc1cn2c(n1)sc1ccccc12', 'Cn1c2ccccc2n2cccc12',
               'c1ccccc1', 'c1ccc2ccccc2c1', 'c1cc[nH]c1', 'c1ccoc1', 'c1ccsc1', 'c1cnc[nH]1', 'c1ccncc1', 'c1ccc2[nH]ccc2c1', 'c1ccc2occc2c1', 'c1ccc2sccc2c1', 'c1ccn2cccc2c1', 'c1ccn2ccnc2c1',
               'c1cn2ccccc2n1', 'c1ccc2c(c1)[nH]c1ccccc12', 'c1ccc2nc3ccccc3cc2c1', 'C[n+]1ccccc1', 'c1csc2nccn12', 'c1cnc2cccnn12', 'n12cccc1cccc2'}
    must = set(special)
    cases = [{'key': s, 'smi': s, 'rs': rnd.randrange(1 << 30), 'must': s in must, 'restore': s in restore} for s in sel + special + doc_pairs() + ring_zoo(rnd, 150 if ck.quick else 4000)]
    seen, uc = set(), []
    for c in cases:
        if c['key'] not in seen:
            seen.add(c['key'])
            uc.append(c)
    cases = ck.select('conversions', uc)
    if cases:
        res = vlib.pmap('checks.c05', 'observe', cases)
        keep = [(c, r) for c, r in zip(cases, res) if 'skip' not in r]
        for _, r in keep:
            if '_observer_error' in r:
                raise vlib.Machinery(r['_observer_error'] + r['_tb'])
        ck.ood('not-parsable / not-kekulisable / nothing-to-aromatise', len(cases) - len(keep))
        out = ck.validate('conversions', 'Trace_C05', [c for c, _ in keep], [r for _, r in keep], files=files)
        ck.ood('unsaturated-four-membered-ring (recorded gap: the enumerated-forms clause is waived)', out['out'].count('"ood"'))
        ck.count('aromatic-forms', sum(1 for _, r in keep if any(b[2] == 4 for b in r['a']['bonds'])))
        ck.count('enumerated-kekule-forms', sum(len(r['forms']) for _, r in keep))
    ck.assumptions += ['the existence clause (a valence-respecting matching exists => kekule() does not raise) is not evaluated: inputs that do not kekulise are skipped and counted',
                       'configuration marks are cleared: stereo under normalisation is not part of C05']
    return ck.finish(rule='one case = one molecule with all its conversions; distinct by text',
                     trusted=['TLC', 'spec/sys/Aromatic.tla', 'spec/core/Valence.tla (tables exported from the tree)'])
