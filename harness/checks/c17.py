"""C17 - fingerprints are structure functions with the documented fragment semantics.

code -> spec (Trace_C17 with spec/sys/Fingerprint.tla): TLC enumerates the simple paths itself and compares them with _fragments()
as a multiset, recomputes every descriptor, selects the (descriptor, count index) hashes admitted by the multiplicity cap, checks the
Morgan identifiers radius by radius as partition refinement, folds the 64-bit hashes bit by bit, and compares the hash sets of a
renumbered, re-inserted copy.  Hash values themselves are opaque (logged as strings / bit lists).
"""
import random

import chy
import vlib


def bits64(h):
    h &= (1 << 64) - 1
    return [(h >> k) & 1 for k in range(64)]


def observe(case):
    from chython import smiles
    rnd = random.Random(case['rs'])
    try:
        m = smiles(case['smi'])
        m.kekule()
        if case.get('thiele'):
            m.thiele()
    except Exception as e:
        return {'skip': type(e).__name__}
    if len(m) > case.get('maxatoms', 22):
        return {'skip': 'too-large'}
    if case.get('edit'):
        # fingerprints before an edit of atom attributes (the library's own charge-rewriting paths keep ring data, not more), then the edit:
        # what is observed below must describe the edited molecule
        try:
            m.linear_hash_set(case['lo'], case['hi'], case['nbp']), m.morgan_hash_set(case['lo'], case['hi'])
            how = case['edit']
            if how == 'transaction':
                with m:
                    for n in rnd.sample(list(m._atoms), min(2, len(m))):
                        a = m._atoms[n]
                        if rnd.random() < .5:
                            a.charge = 1 if a.charge <= 0 else 0
                        else:
                            a.is_radical = not a.is_radical
            elif how == 'neutralize':
                m.neutralize()
            else:
                m.standardize()
        except Exception as e:
            return {'skip': 'edit-' + type(e).__name__}
    lo, hi, nbp, log, nact = case['lo'], case['hi'], case['nbp'], case['log'], case['nactive']
    order = list(m._atoms)
    idx = {n: i + 1 for i, n in enumerate(order)}
    ids = m._atom_identifiers
    rank = {v: k for k, v in enumerate(sorted(set(ids.values())), 1)}
    mp = {'atoms': [{'key': [m._atoms[n]._isotope or 0, m._atoms[n].atomic_number, m._atoms[n]._charge, 1 if m._atoms[n]._is_radical else 0], 'id': rank[ids[n]]} for n in order],
          'bonds': [[idx[a], idx[b], int(bd._order)] for a, b, bd in m.bonds()]}
    frags = m._fragments(lo, hi)

    def rdesc(d):
        return [rank[x] if k % 2 == 0 else x for k, x in enumerate(d)]
    fl = [{'d': rdesc(d), 'paths': [[idx[x] for x in p] for p in ps]} for d, ps in frags.items()]
    table = [{'d': rdesc(d), 'cnt': c, 'h': str(hash((*d, c)))} for d, ps in frags.items() for c in range(len(ps))]
    lh = m.linear_hash_set(lo, hi, nbp)
    mdicts = m._morgan_hash_dict(1, hi)
    mcol, mtable = [], []
    for d in mdicts:
        rk = {v: k for k, v in enumerate(sorted(set(d.values())), 1)}
        mcol.append([rk[d[n]] for n in order])
        mtable.append([str(d[n]) for n in order])
    mh = m.morgan_hash_set(lo, hi)
    m2, _ = chy.renumbered(m, rnd)
    length = 1 << log
    rec = {'m': mp, 'lo': lo, 'hi': hi, 'frags': fl, 'nbp': nbp, 'lh': sorted(map(str, lh)), 'table': table, 'mcol': mcol, 'mh': sorted(map(str, mh)), 'mtable': mtable,
           'lh2': sorted(map(str, m2.linear_hash_set(lo, hi, nbp))), 'mh2': sorted(map(str, m2.morgan_hash_set(lo, hi))), 'log': log, 'nactive': nact,
           'lbits': sorted(m.linear_bit_set(lo, hi, length, nact, nbp)), 'mbits': sorted(m.morgan_bit_set(lo, hi, length, nact)),
           'lhb': [bits64(h) for h in sorted(lh)], 'mhb': [bits64(h) for h in sorted(mh)]}
    return rec


def run(ck):
    rnd = random.Random(ck.seed)
    corp = [s for s in chy.corpus() if len(s) <= 32]
    special = ['CCCC', 'C1CC1', 'C1CCC1', 'c1ccccc1', 'CC(C)(C)C', 'C1CC12CC2', '[Na+].[Cl-]', 'CC(=O)[O-]', '[13CH4]', 'C[CH2]', 'C=C=C', 'C#CC#C', 'OCCO', 'C1=CC=C1', 'CCOCC', 'c1ccc2ccccc2c1',
               'FC(F)(F)F', 'C', 'CC', 'CC(=O)[O-].[Na+]', '[K+].[OH-]', 'O', 'C[N+](C)(C)C', 'O=C=O', 'C1CC2CC1C2']
    sel = chy.pick(corp, 70 if ck.quick else 900, ck.seed) + special
    grid = [(1, 3, 4, 10, 2), (1, 4, 4, 10, 2), (2, 4, 0, 8, 1), (1, 2, 1, 6, 3), (3, 5, 2, 12, 4), (1, 5, 5, 9, 2), (2, 2, 3, 7, 2), (1, 6, 4, 11, 2), (4, 4, 4, 10, 0), (1, 1, 4, 10, 2)]
    cases = []
    for k, s in enumerate(sel):
        pts = rnd.sample(grid, 2 if ck.quick else 5)
        for lo, hi, nbp, log, na in pts:
            cases.append({'key': f'{s}|{lo}-{hi}|nbp{nbp}|2^{log}|act{na}', 'smi': s, 'lo': lo, 'hi': hi, 'nbp': nbp, 'log': log, 'nactive': na, 'thiele': k % 2 == 0,
                          'rs': rnd.randrange(1 << 30), 'maxatoms': 20 if hi >= 5 else 24})
    charged = ['CC(=O)[O-].[Na+]', 'C[NH3+]', '[O-]c1ccccc1', 'CC[O-]', 'C[NH2+]C', 'OC(=O)C[NH3+]', '[O-]C(=O)CC[NH3+]', 'CN(=O)=O', 'C[N+]([O-])=O', 'CS(=O)(=O)[O-]', 'c1cc[nH+]cc1']
    for k, s in enumerate(charged + chy.pick(corp, 30 if ck.quick else 400, ck.seed, 9)):
        lo, hi, nbp, log, na = grid[k % len(grid)]
        for how in ('transaction', 'neutralize', 'standardize'):
            cases.append({'key': f'{s}|{lo}-{hi}|nbp{nbp}|2^{log}|act{na}|after-{how}', 'smi': s, 'lo': lo, 'hi': hi, 'nbp': nbp, 'log': log, 'nactive': na, 'thiele': k % 2 == 0,
                          'rs': rnd.randrange(1 << 30), 'maxatoms': 20 if hi >= 5 else 24, 'edit': how})
    cases = ck.select('fingerprints', cases)
    if cases:
        res = vlib.pmap('checks.c17', 'observe', cases)
        for r in res:
            if '_observer_error' in r:
                raise vlib.Machinery(r['_observer_error'] + r['_tb'])
        keep = [(c, r) for c, r in zip(cases, res) if 'skip' not in r]
        ck.ood('skipped (unparsable or larger than the path enumerator bound)', len(cases) - len(keep))
        ck.validate('fingerprints', 'Trace_C17', [c for c, _ in keep], [r for _, r in keep])
        ck.count('fragments', sum(sum(len(f['paths']) for f in r['frags']) for _, r in keep))
    ck.assumptions += ['hash values are opaque: TLC checks which hashes belong to the sets and how they are folded, the harness supplies hash((descriptor, count)) for every descriptor _fragments reports',
                       'no hash collisions inside one molecule are assumed for the partition clauses']
    return ck.finish(rule='one case = (molecule, radii, multiplicity cap, length, active bits); distinct by that tuple',
                     trusted=['TLC', 'spec/sys/Fingerprint.tla'])
