"""C15 - reactions: order-free identity, role-preserving text I/O, exact condensed graph.

code -> spec (spec/sys/Reaction.tla, spec/trace/Trace_C15.tla):
  sig    every role-internal ordering of a reaction: TLC rebuilds the signature text from the molecules' own texts (sorting by code
         points, radical and fragment indices) and requires it, and equality/hash, not to move with the order
  io     smiles(format(r, 'm')) and smiles(str(r)): roles and (numbered) molecules compared by TLC
  cgr    reactions assembled from corpus molecules by edits with known ground truth: TLC computes the superposition of both sides
         and the centre from the projections, checks the ground truth against its own application of the edits, and compares the
         strings and centres of consistently renumbered copies
  refuse sides that disagree on an element or isotope must be refused
"""
import itertools
import random

import chy
import vlib


def chars(s):
    return list(s)


def nmol(m, text=True):
    rec = {'atoms': [{'n': n, 'z': a.atomic_number, 'i': a._isotope or 0, 'c': a._charge, 'r': 1 if a._is_radical else 0, 'h': chy.ival(a._implicit_hydrogens)}
                     for n, a in sorted(m._atoms.items())],
           'bonds': sorted([min(a, b), max(a, b), int(bd._order)] for a, b, bd in m.bonds())}
    if text:
        rec['t'] = chars(str(m))
    return rec


def cgrproj(g):
    return {'atoms': [{'n': n, 'z': a.atomic_number, 'i': a.isotope or 0, 'c': a.charge, 'pc': a.p_charge, 'r': int(a.is_radical), 'pr': int(a.p_is_radical)}
                      for n, a in sorted(g._atoms.items())],
            'bonds': sorted([min(a, b), max(a, b), bd.order or 0, bd.p_order or 0] for a, b, bd in g.bonds())}


SPECIAL = ['[Na+].[Cl-]', 'CC(=O)[O-].[Na+]', '[K+].[OH-]', 'C[CH2]', '[CH3]', 'C[O]', '[Cl-].[Cl-].[Mg+2]', 'O', 'CCO', 'C', 'c1ccccc1', 'CC(=O)O', 'N', '[NH4+].[Cl-]',
           'C[C@H](N)C(=O)O', 'F/C=C/F', 'CC[N+](CC)(CC)CC.[Br-]', '[Li]CCCC', 'Cl', '[H][H]', 'C[N+](=O)[O-]', '[O-]S(=O)(=O)[O-].[Na+].[Na+]', 'C[CH]C.[Na+].[Cl-]', 'CC#N',
           'O=C=O', 'c1cc[nH]c1', '[2H]O[2H]', '[13CH4]', 'OO', 'C=C']


def pool():
    small = [s for s in chy.corpus() if len(s) <= 40]
    return small


def build(case):
    from chython import smiles, ReactionContainer
    mols = {}
    nxt = 1
    for role in ('reactants', 'reagents', 'products'):
        mols[role] = []
        for s in case[role]:
            m = smiles(s)
            m.remap({n: n + 100000 for n in list(m._atoms)})
            m.remap({n: k for k, n in enumerate(list(m._atoms), nxt)})
            nxt += len(m)
            mols[role].append(m)
    if case.get('echo'):  # products are the reactants (same numbers), plus whatever else was asked
        mols['products'] = [m.copy() for m in mols['reactants']][:3]
    return mols


def observe_sig(case):
    from chython import ReactionContainer
    try:
        mols = build(case)
    except Exception as e:
        return [{'skip': type(e).__name__}]
    out = []
    orders = case['orders']
    ref = None
    for od in orders:
        rec = {'kind': 'sig', 'exc': '', 'key': case['key'] + '|' + str(od), 'roles': [[], [], []], 'txt': [], 'txtc': [], 'ref': [], 'eq': 1}
        try:
            rs = [mols['reactants'][k] for k in od[0]]
            gs = [mols['reagents'][k] for k in od[1]]
            ps = [mols['products'][k] for k in od[2]]
            rec['roles'] = [[{'t': chars(str(m)), 'na': len(m)} for m in x] for x in (rs, gs, ps)]
            r = ReactionContainer([m.copy() for m in rs], [m.copy() for m in ps], [m.copy() for m in gs])
            rec['txt'] = chars(str(r))
            rec['txtc'] = chars(format(r, '!c'))
            if ref is None:
                ref = r
            rec['ref'] = chars(str(ref))
            rec['eq'] = int(r == ref and hash(r) == hash(ref) and not (r != ref))
        except Exception as e:
            rec['exc'] = type(e).__name__
        out.append(rec)
    return out


def self_ok(m):
    """the molecule survives its own text (C02 decides that; a reaction cannot do better than its molecules)"""
    from chython import smiles
    try:
        a = smiles(format(m, 'm'))
        b = smiles(str(m))
        for x in (a, b):
            if m.is_thiele if hasattr(m, 'is_thiele') else False:
                pass
        return str(a) == str(m) and str(b) == str(m) and nmol(a, False) == nmol(m, False)
    except Exception:
        return False


def observe_io(case):
    from chython import smiles, ReactionContainer
    try:
        mols = build(case)
    except Exception as e:
        return [{'skip': type(e).__name__}]
    rec = {'kind': 'io', 'exc': '', 'key': case['key'], 'orig': [[], [], []], 'backm': [[], [], []], 'back': [[], [], []], 'selfok': True}
    try:
        r = ReactionContainer(mols['reactants'], mols['products'], mols['reagents'])
        rec['selfok'] = all(self_ok(m) for m in r.molecules())
        rec['orig'] = [[nmol(m) for m in x] for x in (r.reactants, r.reagents, r.products)]
        bm = smiles(format(r, 'm'))
        rec['backm'] = [[nmol(m) for m in x] for x in (bm.reactants, bm.reagents, bm.products)]
        b = smiles(str(r))
        rec['back'] = [[nmol(m) for m in x] for x in (b.reactants, b.reagents, b.products)]
    except Exception as e:
        rec['exc'] = type(e).__name__
    return [rec]


def edit_side(rnd, u, n_edits, allow):
    """apply edits with known ground truth to the union molecule u (in place); returns the edit list"""
    from chython.periodictable import C, N, O, Cl
    edits = []
    used_atoms, used_bonds = set(), set()
    leaving = set()
    nums = list(u._atoms)
    fresh = 10001  # beyond every number of the reaction
    for _ in range(n_edits):
        k = rnd.choice(allow)
        if k == 'order':
            bs = [(a, b, bd) for a, b, bd in u.bonds() if frozenset((a, b)) not in used_bonds and a not in leaving and b not in leaving]
            if not bs:
                continue
            a, b, bd = rnd.choice(bs)
            to = rnd.choice([o for o in (0, 1, 2, 3) if o != int(bd._order)])
            used_bonds.add(frozenset((a, b)))
            edits.append({'k': 'order', 'a': a, 'b': b, 'to': to, 'z': 0})
        elif k == 'form':
            cand = [(a, b) for a in nums for b in nums if a < b and b not in u._bonds[a] and frozenset((a, b)) not in used_bonds and a not in leaving and b not in leaving]
            if not cand:
                continue
            a, b = rnd.choice(cand)
            used_bonds.add(frozenset((a, b)))
            edits.append({'k': 'order', 'a': a, 'b': b, 'to': rnd.choice((1, 2)), 'z': 0})
        elif k in ('charge', 'radical'):
            cand = [n for n in nums if (k, n) not in used_atoms and n not in leaving]
            if not cand:
                continue
            a = rnd.choice(cand)
            used_atoms.add((k, a))
            if k == 'charge':
                cur = u._atoms[a]._charge
                to = rnd.choice([c for c in (cur - 1, cur + 1) if -4 <= c <= 4])
            else:
                to = 0 if u._atoms[a]._is_radical else 1
            edits.append({'k': k, 'a': a, 'b': 0, 'to': to, 'z': 0})
        elif k == 'leave':
            cand = [n for n in nums if n not in leaving and not any(n in (e['a'], e['b']) for e in edits) and len(nums) - len(leaving) > 1]
            if not cand:
                continue
            a = rnd.choice(cand)
            # a leaving group: sometimes take a neighbour along (bond between two leaving atoms stays static)
            leaving.add(a)
            edits.append({'k': 'leave', 'a': a, 'b': 0, 'to': 0, 'z': 0})
            nb = [x for x in u._bonds[a] if x not in leaving and not any(x in (e['a'], e['b']) for e in edits)]
            if nb and rnd.random() < .4 and len(nums) - len(leaving) > 1:
                leaving.add(nb[0])
                edits.append({'k': 'leave', 'a': nb[0], 'b': 0, 'to': 0, 'z': 0})
        elif k == 'join':
            cand = [n for n in nums if n not in leaving]
            b = rnd.choice(cand)
            el = rnd.choice((C, N, O, Cl))
            edits.append({'k': 'join', 'a': fresh, 'b': b, 'to': rnd.choice((1, 2)), 'z': el().atomic_number})
            fresh += 1
    # apply
    from chython.periodictable import Element
    for e in edits:
        if e['k'] == 'order':
            if e['b'] in u._bonds[e['a']]:
                u.delete_bond(e['a'], e['b'])
            if e['to']:
                u.add_bond(e['a'], e['b'], e['to'])
        elif e['k'] == 'charge':
            u._atoms[e['a']]._charge = e['to']
        elif e['k'] == 'radical':
            u._atoms[e['a']]._is_radical = bool(e['to'])
        elif e['k'] == 'join':
            u.add_atom(Element.from_atomic_number(e['z'])(), e['a'])
            u.add_bond(e['a'], e['b'], e['to'])
    for e in edits:
        if e['k'] == 'leave':
            u.delete_atom(e['a'])
    u.flush_cache()
    return edits


def observe_cgr(case):
    from chython import smiles, ReactionContainer, MoleculeContainer
    from functools import reduce
    from operator import or_
    rnd = random.Random(case['rs'])
    try:
        mols = build({'reactants': case['reactants'], 'reagents': case['reagents'], 'products': []})
        for m in mols['reactants'] + mols['reagents']:
            m.kekule()
            if case['rs'] % 2:
                m.thiele()
    except Exception as e:
        return [{'skip': type(e).__name__}]
    rec = {'kind': 'cgr', 'exc': '', 'key': case['key'], 'rs': [], 'ps': [], 'edits': [], 'obs': {'atoms': [], 'bonds': []}, 'obsx': {'atoms': [], 'bonds': []}, 'centre': [],
           's': [], 's2': [], 'f': [], 'centre2': []}
    try:
        u = reduce(or_, mols['reactants']).copy() if len(mols['reactants']) > 1 else mols['reactants'][0].copy()
        edits = edit_side(rnd, u, case['n_edits'], case['allow'])
        # products: connected components of the edited side, grouped at random into 1-3 molecules
        comps = [list(c) for c in u.connected_components]
        rnd.shuffle(comps)
        k = rnd.randint(1, min(3, len(comps)))
        groups = [[] for _ in range(k)]
        for j, cpt in enumerate(comps):
            groups[j % k if j < k else rnd.randrange(k)].extend(cpt)
        prods = [u.substructure(g, recalculate_hydrogens=False) for g in groups]
        if case.get('drop_products'):
            prods = []
            edits = [{'k': 'leave', 'a': n, 'b': 0, 'to': 0, 'z': 0} for m in mols['reactants'] for n in m._atoms]
        r = ReactionContainer(mols['reactants'], prods, mols['reagents'])
        rec['rs'] = [nmol(m, False) for m in mols['reactants'] + mols['reagents']]
        rec['ps'] = [nmol(m, False) for m in prods]
        rec['edits'] = edits + [{'k': 'leave', 'a': n, 'b': 0, 'to': 0, 'z': 0} for m in mols['reagents'] for n in m._atoms]
        g = ~r
        rec['obs'] = cgrproj(g)
        rec['centre'] = list(g.center_atoms)
        rec['s'] = chars(str(g))
        left = reduce(or_, mols['reactants'] + mols['reagents'])
        gx = (left ^ reduce(or_, prods)) if prods else g
        rec['obsx'] = cgrproj(gx)
        allnums = sorted({n for m in r.molecules() for n in m._atoms})
        new = list(range(1, len(allnums) + 1))
        rnd.shuffle(new)
        f = dict(zip(allnums, new))
        rec['f'] = [[a, b] for a, b in f.items()]

        def ren(m):
            c = m.copy()
            c.remap({n: n + 100000 for n in list(c._atoms)})
            c.remap({n + 100000: f[n] for n in m._atoms})
            return c
        r2 = ReactionContainer([ren(m) for m in r.reactants][::-1], [ren(m) for m in r.products][::-1], [ren(m) for m in r.reagents])
        g2 = ~r2
        rec['s2'] = chars(str(g2))
        rec['centre2'] = list(g2.center_atoms)
    except Exception as e:
        rec['exc'] = type(e).__name__ + ':' + str(e)[:60]
    return [rec]


def observe_refuse(case):
    from chython import smiles
    rec = {'kind': 'refuse', 'exc': '', 'key': case['key'], 'out': 'composed'}
    try:
        a, b = smiles(case['a']), smiles(case['b'])
    except Exception as e:
        return [{'skip': type(e).__name__}]
    try:
        a ^ b
    except ValueError:
        rec['out'] = 'valueerror'
    except Exception as e:
        rec['out'] = type(e).__name__
    return [rec]


def observe(case):
    return {'recs': {'sig': observe_sig, 'io': observe_io, 'cgr': observe_cgr, 'refuse': observe_refuse}[case['part']](case)}


def role_sets(rnd, src):
    while True:
        nr, ng, np_ = rnd.randint(0, 3), rnd.choice((0, 0, 1, 2)), rnd.randint(0, 3)
        if nr + ng + np_:
            break
    return {'reactants': [rnd.choice(src) for _ in range(nr)], 'reagents': [rnd.choice(src) for _ in range(ng)], 'products': [rnd.choice(src) for _ in range(np_)]}


def run(ck):
    rnd = random.Random(ck.seed)
    src = pool() + SPECIAL * 8
    n_sig = 40 if ck.quick else 400
    cases = []
    for k in range(n_sig):
        c = role_sets(rnd, src)
        if k % 5 == 0 and c['reactants']:
            c['echo'] = True
        np_ = len(c['reactants'][:3]) if c.get('echo') else len(c['products'])
        orders = list(itertools.product(itertools.permutations(range(len(c['reactants']))), itertools.permutations(range(len(c['reagents']))),
                                        itertools.permutations(range(np_))))
        first, rest = orders[0], orders[1:]
        rnd.shuffle(rest)
        c['orders'] = [first] + rest[:(7 if ck.quick else 215)]
        c.update(part='sig', key=f"sig|{'.'.join(c['reactants'])}>{'.'.join(c['reagents'])}>{'.'.join(c['products'])}|{int(bool(c.get('echo')))}")
        cases.append(c)
    sig_cases = ck.select('signature', cases)
    cases = []
    for k in range(60 if ck.quick else 1200):
        c = role_sets(rnd, src)
        if k % 4 == 0 and c['reactants']:
            c['echo'] = True
        c.update(part='io', key=f"io|{'.'.join(c['reactants'])}>{'.'.join(c['reagents'])}>{'.'.join(c['products'])}|{int(bool(c.get('echo')))}")
        cases.append(c)
    # radicals and multi-component molecules in every role, with and without reagents
    rads = ['C[CH2]', '[CH3]', 'C[O]', '[Br]', 'C[CH]C.[Na+].[Cl-]']
    for k, (a, b, c) in enumerate(itertools.product(range(3), repeat=3)):
        c = {'reactants': [rads[(k + j) % 5] if a > j else 'CCBr' for j in range(a)] or ['CCBr'],
             'reagents': [rads[(k + j + 1) % 5] if j % 2 == 0 else 'CCO' for j in range(b)],
             'products': [rads[(k + j + 2) % 5] if j != 1 else '[Na+].[Cl-]' for j in range(c)]}
        c.update(part='io', key=f"io|{'.'.join(c['reactants'])}>{'.'.join(c['reagents'])}>{'.'.join(c['products'])}|0")
        cases.append(c)
    io_cases = ck.select('read-back', cases)
    cases = []
    small = [s for s in pool() if len(s) <= 30] + SPECIAL
    kinds = ['order', 'form', 'charge', 'radical', 'leave', 'join']
    for k in range(90 if ck.quick else 1500):
        nr = rnd.randint(1, 3)
        c = {'part': 'cgr', 'reactants': [rnd.choice(small) for _ in range(nr)], 'reagents': [rnd.choice(small) for _ in range(rnd.choice((0, 0, 1)))],
             'n_edits': 0 if k % 9 == 0 else rnd.randint(1, 4), 'allow': kinds if k % 3 else [rnd.choice(kinds)], 'rs': rnd.randrange(1 << 30)}
        if k % 31 == 5:
            c['drop_products'] = True
        c['key'] = f"cgr|{'.'.join(c['reactants'])}>{'.'.join(c['reagents'])}|{c['n_edits']}|{','.join(c['allow'])}|{c['rs']}"
        cases.append(c)
    cgr_cases = ck.select('condensed-graph', cases)
    pairs = [('[CH3:1][OH:2]', '[CH3:1][NH2:2]'), ('[CH3:1][OH:2]', '[13CH3:1][OH:2]'), ('[Cl:1][CH3:2]', '[Br:1][CH3:2]'), ('[CH4:1]', '[SiH4:1]'), ('[2H:1][OH:2]', '[3H:1][OH:2]'),
             ('[CH3:1][CH3:2]', '[CH3:2][NH2:1]')]
    ref_cases = ck.select('refusal', [{'part': 'refuse', 'a': a, 'b': b, 'key': f'refuse|{a}|{b}'} for a, b in pairs])
    for part, cs, ch in (('signature', sig_cases, 8), ('read-back', io_cases, 8), ('condensed-graph', cgr_cases, 8), ('refusal', ref_cases, 1)):
        if not cs:
            continue
        res = vlib.pmap('checks.c15', 'observe', cs)
        recs, keys = [], []
        skipped = 0
        for c, r in zip(cs, res):
            if '_observer_error' in r:
                raise vlib.Machinery(r['_observer_error'] + r['_tb'])
            for x in r['recs']:
                if 'skip' in x:
                    skipped += 1
                    continue
                recs.append(x)
                keys.append({'key': x['key']})
        ck.ood(f'{part}: molecules the reader refuses', skipped)
        out = ck.validate(part, 'Trace_C15', keys, recs)
        if 'MACHINERY' in out['out']:
            raise vlib.Machinery('the ground truth of a driver is not what TLC computes from its edits: ' + out['out'][out['out'].index('MACHINERY') - 200:][:600])
        ck.ood(f'{part}: a molecule does not survive its own text (decided by C02)', out['out'].count('"ood"'))
    return ck.finish(rule='one case = one ordering of one reaction (signature), one reaction (read-back, condensed-graph), one pair (refusal); distinct by key',
                     trusted=['TLC', 'spec/sys/Reaction.tla', 'spec/lang/Cx.tla'])
