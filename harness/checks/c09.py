"""C09 - accelerated (compiled) matcher and reference matcher return the same mappings.

design level  MC_Mask: for every value of every attribute (elements 1..116, charges, isotope offsets, hydrogens, neighbours,
              heteroatoms, hybridisation, ring sizes 3..65, pairs of fields) the bit test of the compiled loop equals the
              declarative AtomMatches; no overflow; attributes do not share bits.
binding       (a) the words produced by _cython_compiled_structure / _cython_compiled_query are unpacked and TLC compares
              them with EncA / EncQ of the projection; (b) chython/algorithms/_isomorphism.pyx is executed through the
              pyx-lite translation via the real get_mapping(_cython=True): its mapping set must equal the pure-python
              set (and, for small targets, the declarative embedding set).
"""
import random
import struct

import chy
import qproj
import vlib
from checks.c07 import SMARTS

MASK_CFG = '''SPECIFICATION Spec
INVARIANT Equivalent
INVARIANT NoOverflow
INVARIANT FieldsDisjoint
CHECK_DEADLOCK FALSE
'''
_installed = False


# strained cages and polycycles: ring-closing queries whose matched cycle has chords in the target (closure bookkeeping of the matcher)
CAGES = ['C1C2C3C2C4C1C34', 'C1C23C(C3)C12', 'C12C3C4C1C5C2C3C45', 'C12C3C1C23', 'C1C2C1C2', 'C1CC2CC1C2', 'C12CC1C2', 'C1C2CC3CC1CC(C2)C3', 'C1CC2CCC1C2', 'C1C2CC12',
         'C12C3C4C1C5C4C3C25', 'C1CC23CCC2(C1)CC3', 'C1C2C3CC1C23', 'C1CC2C3CC1C23', 'c1ccc2ccccc2c1', 'C1CCC2CCCCC2C1', 'C1CC2(C1)CCC2', 'C1=CC2C=CC1C=C2']


def bits(v):
    return [k for k in range(64) if v >> k & 1]


def rule_queries():
    from chython.algorithms.standardize._groups import single_rules, double_rules
    out = [r[0] for r in single_rules] + [r[0] for r in double_rules]
    return out


def observe(case):
    global _installed
    import pyxlite
    from chython import smiles, smarts
    from chython.periodictable import Element
    if not _installed:
        pyxlite.install(chy.REPO)
        _installed = True
    rnd = random.Random(case['rs'])
    try:
        t = smiles(case['t'])
        t.kekule()
        if case.get('thiele'):
            t.thiele()
    except Exception:
        return {'skip': 1}
    if isinstance(case['q'], int):
        q = rule_queries()[case['q']]
    else:
        q = smarts(case['q'])
    order = list(q._atoms)
    pp, pidx = qproj.pattern_of_query(q, order)
    tp, tidx = qproj.target_of(t)
    flt = case['filter']
    scope = None
    if case.get('scope'):
        scope = set(rnd.sample(list(t._atoms), max(1, len(t) * 2 // 3)))
    kw = {'automorphism_filter': bool(flt)}
    if scope is not None:
        kw['searching_scope'] = scope
    try:
        mc = [[tidx[mp[n]] for n in order] for mp in q.get_mapping(t, **kw)]
        cexc = ''
    except Exception as e:
        mc, cexc = [], type(e).__name__
    mp_ = [[tidx[mp[n]] for n in order] for mp in q.get_mapping(t, _cython=False, **kw)]
    # unpack the words
    buf = t._cython_compiled_structure
    n = struct.unpack_from('I', buf, 0)[0]
    ea = {}
    for k in range(n):
        b1, b2, b3, b4, fr, to, num = struct.unpack_from('QQQQIII', buf, 4 + k * 44)
        ea[num] = [bits(b1), bits(b2), bits(b3), bits(b4)]
    eq = {}
    comps, closures = q._compiled_query
    for cbuf, comp in zip(q._cython_compiled_query, comps):
        cn = struct.unpack_from('I', cbuf, 0)[0]
        for k in range(cn):
            m1, m2, m3, m4, back, clo, fr, to, num = struct.unpack_from('QQQQIIIII', cbuf, 4 + k * 52)
            b = comp[k][3]
            eq[num] = {'w': [bits(m1), bits(m2), bits(m3), bits(m4)], 'orders': list(b.order) if b is not None else [],
                       'inring': -1 if b is None or b.in_ring is None else (1 if b.in_ring else 0)}
    mdl = lambda z: Element.from_atomic_number(z)().mdl_isotope
    rec = {'p': pp, 't': tp, 'mc': mc, 'mp': mp_, 'scope': sorted(tidx[x] for x in scope) if scope else [], 'filter': 1 if flt else 0,
           'ea': [ea[x] for x in t._atoms], 'eq': [eq[x] for x in order], 'mdla': [mdl(a.atomic_number) for a in t._atoms.values()],
           'mdlq': [mdl(a['zs'][0]) if a['kind'] == 'elem' else 0 for a in pp['atoms']], 'small': 1 if len(t) <= 45 and len(mp_) <= 2000 else 0, 'cexc': cexc}
    return rec


def run(ck):
    rnd = random.Random(ck.seed)
    if not ck.replay:
        ck.model('mc-mask-layout', 'MC_Mask', MASK_CFG)
    corp = [s for s in chy.corpus() if len(s) <= 70]
    special = ['[Na+].[Cl-]', 'C[Fe]C', 'C[Zn]C', '[13CH4]', 'C[CH2]', 'CC(=O)[O-]', 'C[N+](C)(C)C', 'C1CCCCCCCCCCC1', 'C1CC12CC2', '[Cu+2].[O-]C=O.[O-]C=O', 'c1cc[nH]c1',
               'N=[N+]=[N-]', 'CN=[N+]=[N-]', 'CS(=O)(=N)C', 'C[N+](=O)[O-]', 'CN(=O)=O', 'O=S(=O)(O)O', 'CC#N=O'.replace('#N=O', '#[N+][O-]'), '[2H]C([2H])([2H])O', '[18O]=C=O', '[Rn]', '[Xe]', '[At]', '[Og]', '[Ts]', '[Lv]', '[Ra+2]', '[La+3]', '[U]', '[Ba+2].[O-2]', '[Sn]', '[Po]', '[Ge]', '[As]']
    targets = chy.pick(corp, 50 if ck.quick else 700, ck.seed) + special + CAGES
    import importlib
    nrules = None
    cases = []
    for k, t in enumerate(targets):
        if t in CAGES:
            qs = ['C1CC1', 'C1CCC1', 'C1CCCC1', 'C1CCCCC1', 'C1CC1C', 'C1CCC1C', 'C(C)(C)C', '[C;r3]', '[C;r4]1[C;r4][C;r4][C;r4]1']
            for q in qs:
                cases.append({'key': f'{q}|{t}', 'q': q, 't': t, 'thiele': False, 'filter': False, 'scope': False, 'rs': rnd.randrange(1 << 30)})
            continue
        qs = rnd.sample(SMARTS, 6 if ck.quick else 14) + rnd.sample(range(0, 60), 6 if ck.quick else 20) + (['[M]', '[A]', '[M;D0]'] if len(t) < 12 else [])
        for q in qs:
            cases.append({'key': f'{q}|{t}', 'q': q, 't': t, 'thiele': k % 2 == 0, 'filter': rnd.random() < .5, 'scope': rnd.random() < .25,
                          'rs': rnd.randrange(1 << 30)})
    # element lists that mix light (Z <= 56) and heavy elements: the two words of the element bit set
    heavy_q = ['[Pd,Pt]', '[Zn,Cd,Hg]', '[Cl,Br,I,At]', '[Sn,Pb]', '[Ba,La]', '[Xe,Rn]', '[C,Pt]', '[Pt,Cl]', '[Pt,Au]', '[Fe,Ru,Os]', '[Na,K,Cs,Fr]', '[Ge,Sn,Pb;D4]', '[S,Se,Te,Po]', '[Cu,Ag,Au]',
               '[Y,La,Lu]', '[Ca,Sr,Ba,Ra]']
    heavy_t = ['[Pd]', '[Pt]', 'Cl[Pt](Cl)(N)N', 'C[Hg]C', '[Cd+2].[Zn+2]', 'C[Sn](C)(C)C', 'C[Pb](C)(C)C', '[Ba+2].[La+3]', '[Xe].[Rn]', 'I.Br.Cl', '[At]', '[Os].[Ru].[Fe]', '[Cs+].[Fr+].[Na+].[K+]',
               'C[Ge](C)(C)C', '[Te].[Po].[Se].S', '[Au].[Ag].[Cu]', '[Lu+3].[Y+3]', '[Ra+2].[Sr+2].[Ca+2]']
    # two-letter symbols whose letters spell other elements (Cl - C, Br - B, Si - S / I, Sn - S / N, Co - C / O, Na - N, ...)
    heavy_q += ['[Cl,Br]', '[Si,P]', '[Sn,Na]', '[Co,Ni]', '[Cl,Br;D1]', '[Cs,Hf]', '[Nb,No]', '[Os,Pu]', '[Hf,Sc]']
    heavy_t += ['BrCCB(C)C', 'CCCl', 'C[Si](C)(C)I', 'CSC', 'N[Na]', 'C=O.[Co]', 'NS', 'FB(F)F.[U].P', 'O=[Os](=O)(=O)=O', '[H][H].F.[Sc+3].S', 'C[Sn](C)(C)C.NI']
    heavy_t += ['[Ts].[Og].[Lv]', 'F[Ts]', '[Lv].[Po]']      # the three elements that share one bit (known finding C09-lv-ts-og): the bit itself is still the layout's
    for q in heavy_q:
        for t in heavy_t:
            cases.append({'key': f'{q}|{t}', 'q': q, 't': t, 'thiele': False, 'filter': False, 'scope': False, 'rs': rnd.randrange(1 << 30)})
    # ring closures of the query that land on heavy elements (the closure word has its own element bits); ring-size primitives on the
    # first query atom against atoms that sit in rings of several sizes
    for q in ['[Pt]1NCCN1', 'N1CCN[Pt]1', '[A]1NCCN1', '[Sn,Pb]1CCCC1', '[Hg]1CCCC1', 'C1CC[Au]C1', '[W]1OCCO1', '[Bi]1CCCC1', '[Pd]1NCCN1', '[M]1NCCN1']:
        for t in ['Cl[Pt]1(Cl)NCCN1', 'C1CC[Pb]C1.C1CC[Sn]C1', 'C1CC[Hg]C1', 'C1CC[Au]C1', 'O1CCO[W]1', 'C1CC[Bi]C1', 'Cl[Pd]1(Cl)NCCN1', 'C1CC[Te]C1']:
            cases.append({'key': f'{q}|{t}', 'q': q, 't': t, 'thiele': False, 'filter': False, 'scope': False, 'rs': rnd.randrange(1 << 30)})
    for q in ['[C;r5]=C', 'C=[C;r5]', '[N;r4]C=O', '[C;r6]C', '[C;r3,r4]', '[C;r5][C;r6]', '[C;r6][C;r5]', '[C;r3]1CC1', '[A;r5]~[A;r6]']:
        for t in ['C1=Cc2ccccc2C1', 'O=C1CC2N1CCS2', 'C1CC12CCCC2', 'C1CC2CCC1C2', 'C1CCC2CCCC2C1', 'c1ccc2c(c1)CCC2', 'C1CC2CC1CCC2']:
            cases.append({'key': f'{q}|{t}', 'q': q, 't': t, 'thiele': False, 'filter': False, 'scope': False, 'rs': rnd.randrange(1 << 30)})
    # the ends of the ring-size field (sizes 3..65 have a bit each): macrocycles of 63..66 atoms, with a substituent outside the ring
    for q in ['[C;r65]', '[C;r64]', '[C;r63]', '[C;!R]', '[C;r65]C', 'C[C;r64]', '[C;r3,r65]', '[O;!R]']:
        for n in (63, 64, 65, 66):
            t = 'OC1' + 'C' * (n - 1) + '1'
            cases.append({'key': f'{q}|{t}', 'q': q, 't': t, 'thiele': False, 'filter': False, 'scope': False, 'rs': rnd.randrange(1 << 30)})
    # scoped searches on multi-component targets, also with multi-component queries (one scope mask per component)
    for q in ['CC', 'C.N', 'C.N.S', 'CC.CC', 'CO.CN', '[C;D1]', 'C~[A]', 'C.C']:
        for t in ['CCO.CCN', 'CCO.CCN.CCS', 'CC.CC.CC', 'CCOCC.NCCN', 'OCCO.OCCO', 'CCN.CCN.CCO.CCS']:
            for k in range(3):
                cases.append({'key': f'{q}|{t}|scoped{k}', 'q': q, 't': t, 'thiele': False, 'filter': k == 2, 'scope': True, 'rs': rnd.randrange(1 << 30)})
    # every tabulated isotope as a query atom against the same element with that label, another label and none: the isotope field
    # of the layout (offsets -8..+8 from the reference isotope; quick: the offsets at and next to the ends of the field, and a sample)
    from chython.periodictable import Element
    for z in range(1, 117):
        e = Element.from_atomic_number(z)()
        sym, ref, isos = e.atomic_symbol, e.mdl_isotope, sorted(e.isotopes_distribution)
        for iso in isos:
            if ck.quick and abs(iso - ref) < 7 and (z * 31 + iso) % 9:
                continue
            other = [x for x in isos if x != iso][:1]
            t = '.'.join([f'[{iso}{sym}]'] + [f'[{x}{sym}]' for x in other] + [f'[{sym}]'])
            for q in (f'[{iso}{sym}]', f'[{iso}{sym};D0]'):
                cases.append({'key': f'{q}|{t}', 'q': q, 't': t, 'thiele': False, 'filter': False, 'scope': False, 'rs': rnd.randrange(1 << 30)})
    cases = ck.select('compiled-vs-reference', cases)
    if cases:
        res = vlib.pmap('checks.c09', 'observe', cases)
        for r in res:
            if '_observer_error' in r and 'IndexError' not in r['_observer_error']:
                raise vlib.Machinery(r['_observer_error'] + r['_tb'])
        keep = [(c, r) for c, r in zip(cases, res) if 'skip' not in r and '_observer_error' not in r and len(r['t']['atoms']) <= 80]
        out = ck.validate('compiled-vs-reference', 'Trace_C09', [c for c, _ in keep], [r for _, r in keep])
        ck.ood('outside-the-layout-range (unknown or > 4 hydrogens, isotope offset beyond +-8, > 14 neighbours, elements 117/118)', out['out'].count('"ood"'))
        ck.count('pairs', len(keep))
        ck.count('mappings', sum(len(r['mc']) for _, r in keep))
    ck.assumptions += ['the compiled extension is not built in this sandbox: the .pyx source is translated by harness/pyxlite.py with C integer semantics (trusted base, pinned by the shipped packs in C10)',
                       'word comparison and the embedding clause are claimed inside the layout range (TLC evaluates it); the mapping-set equality clause is unconditional']
    return ck.finish(rule='one case = (query, target, scope, filter); distinct by that tuple',
                     trusted=['TLC', 'spec/sys/{Mask,Match}.tla', 'harness/pyxlite.py translation of _isomorphism.pyx'])
