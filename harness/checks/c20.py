"""C20 - the RDKit bridge preserves structure and configuration in both directions.

code -> spec (spec/sys/Bridge.tla): projections of the chython molecule, of to_rdkit(m), of from_rdkit(to_rdkit(m)), of an RDKit molecule
and of from_rdkit(it) are compared field by field by TLC; configuration is judged by canonical strings (RDKit's on its side, the
library's on the other) inside the symmetry domain that TLC evaluates with its own colour refinement.
"""
import random
import re

import chy
import vlib
from checks.c01 import full_projection, allene_or_other_stereo


def cproj(m, maps=None):
    order = list(m._atoms)
    idx = {n: i + 1 for i, n in enumerate(order)}
    return {'atoms': [{'z': a.atomic_number, 'i': a._isotope or 0, 'c': a._charge, 'r': 1 if a._is_radical else 0, 'h': chy.ival(a._implicit_hydrogens),
                       'map': (n if maps == 'number' else (a._parsed_mapping or 0) if maps == 'parsed' else 0), 'x': int(round(a.x * 10000)), 'y': int(round(a.y * 10000))} for n, a in m._atoms.items()],
            'bonds': sorted([min(idx[a], idx[b]), max(idx[a], idx[b]), int(bd._order)] for a, b, bd in m.bonds())}


def rproj(rd, with_map=False):
    from rdkit import Chem
    bt = {Chem.BondType.SINGLE: 1, Chem.BondType.DOUBLE: 2, Chem.BondType.TRIPLE: 3, Chem.BondType.AROMATIC: 4, Chem.BondType.DATIVE: 8, Chem.BondType.ZERO: 8,
          Chem.BondType.UNSPECIFIED: 8}
    conf = rd.GetConformer() if rd.GetNumConformers() else None
    atoms = []
    for a in rd.GetAtoms():
        p = conf.GetAtomPosition(a.GetIdx()) if conf else None
        atoms.append({'z': a.GetAtomicNum(), 'i': a.GetIsotope(), 'c': a.GetFormalCharge(), 'r': 1 if a.GetNumRadicalElectrons() else 0,
                      'h': a.GetNumExplicitHs() + a.GetNumImplicitHs(), 'map': a.GetAtomMapNum() if with_map else 0,
                      'x': int(round(p.x * 10000)) if p else 0, 'y': int(round(p.y * 10000)) if p else 0})
    dat = sorted([b.GetBeginAtomIdx() + 1, b.GetEndAtomIdx() + 1] for b in rd.GetBonds() if b.GetBondType() == Chem.BondType.DATIVE)
    bonds = sorted([min(b.GetBeginAtomIdx(), b.GetEndAtomIdx()) + 1, max(b.GetBeginAtomIdx(), b.GetEndAtomIdx()) + 1, bt.get(b.GetBondType(), 9)] for b in rd.GetBonds())
    return {'atoms': atoms, 'bonds': bonds, 'dat': dat}


def observe(case):
    from chython import smiles
    from chython.utils.rdkit import to_rdkit_molecule, from_rdkit_molecule
    from rdkit import Chem, RDLogger
    from rdkit.Chem import AllChem
    RDLogger.DisableLog('rdApp.*')
    rnd = random.Random(case['rs'])
    try:
        m = smiles(case['smi'])
        m.kekule()
        if case['form'] == 'thiele':
            m.thiele()
        if case.get('explicit'):
            m.explicify_hydrogens()
        if case.get('renumber'):
            nums = list(m._atoms)
            new = nums[:]
            rnd.shuffle(new)
            m.remap({n: n + 5000 for n in nums})
            m.remap({n + 5000: k for n, k in zip(nums, new)})
    except Exception as e:
        return {'skip': type(e).__name__}
    if allene_or_other_stereo(m) or any(a._stereo is not None and a.atomic_number != 6 for a in m._atoms.values()):
        return {'skip': 'outside-the-claim'}
    dative = any(b._order == 8 for *_, b in m.bonds())
    # RDKit's own reading of the text is the reference on its side (never a text the library wrote: that would bake the library's reading in)
    ref = Chem.MolFromSmiles(case['smi']) if not dative else Chem.MolFromSmiles('C')
    if ref is None:
        return {'skip': 'rdkit-rejects'}
    # configuration the library's stereo model does not cover (and the claim excludes): stereocentres that are not carbon, and centres
    # that are stereogenic only through hydrogen isotopes (fewer than three non-hydrogen neighbours)
    if re.search(r'\[\d*(?!C[@H+\-\]:])[A-Za-z]{1,2}@', case['smi']) or \
            any(a.GetChiralTag() != Chem.ChiralType.CHI_UNSPECIFIED and (a.GetAtomicNum() != 6 or sum(1 for x in a.GetNeighbors() if x.GetAtomicNum() != 1) < 3) for a in ref.GetAtoms()):
        return {'skip': 'outside-the-claim'}
    if not dative and any(a.GetNumRadicalElectrons() > 1 for a in ref.GetAtoms()):
        return {'skip': 'outside-the-claim'}     # carbenes: the library has one radical flag per atom and reads [CH2] as methane
    if case.get('coords'):
        for a in m._atoms.values():
            a.x, a.y = round(rnd.uniform(-9, 9), 4), round(rnd.uniform(-9, 9), 4)
    dom, _ = full_projection(m, rings=True)
    empty = {'atoms': [], 'bonds': [], 'dat': []}
    rec = {'exc': '', 'g': cproj(m, 'number'), 'g0': cproj(m), 'tr0': empty, 'dative': dative, 'tr': empty, 'bk': empty, 'r0': empty, 'fr': empty, 'dom': dom, 'smi': case['smi'], 'a2': empty}
    rec['bk_s'] = rec['m_s'] = ''
    for k in ('rs_conv', 'rs_ref', 'rs_conv0', 'rs_ref0', 'cs_conv', 'cs_ref', 'cs_conv0', 'cs_ref0', 'rr', 'rr_ref', 'rr0', 'rr_ref0'):
        rec[k] = ''
    try:
        rec['tr'] = rproj(to_rdkit_molecule(m), True)
        rd = to_rdkit_molecule(m, keep_mapping=False)
        rec['tr0'] = rproj(rd, True)
        chk = rd  # to_rdkit_molecule sanitises; sanitising again makes RDKit forget E/Z labels that have no direction marks (RDKit behaviour)
        if case.get('explicit'):
            # the reference reading has no hydrogen atoms; RemoveHs() forgets E/Z labels whose reference atom is a removed hydrogen,
            # RDKit's own text round trip (direction marks) keeps them
            chk = Chem.MolFromSmiles(Chem.MolToSmiles(chk))
        rec['rs_conv'], rec['rs_conv0'] = Chem.MolToSmiles(chk), Chem.MolToSmiles(chk, isomericSmiles=False)
        rec['rs_ref'], rec['rs_ref0'] = Chem.MolToSmiles(ref), Chem.MolToSmiles(ref, isomericSmiles=False)
        bk = from_rdkit_molecule(to_rdkit_molecule(m))
        rec['bk'] = cproj(bk, 'parsed')
        b2 = from_rdkit_molecule(to_rdkit_molecule(m, keep_mapping=False))
        n1, n2 = b2.copy(), m.copy()
        for x in (n1, n2):  # RDKit answers in its aromatic form: compare both in the library's aromatic normal form
            x.kekule()
            x.thiele()
        rec['bk_s'], rec['m_s'] = str(n1), str(n2)
        if dative:
            return rec
        # an RDKit molecule of its own (read from the SMILES RDKit writes)
        if case.get('explicit'):  # hydrogen atoms stay atoms on the RDKit side, at every position of the neighbour lists
            pp = Chem.SmilesParserParams()
            pp.removeHs = False
            r0 = Chem.MolFromSmiles(Chem.MolToSmiles(Chem.AddHs(ref), doRandom=True, allHsExplicit=False), pp)
        else:
            r0 = Chem.MolFromSmiles(Chem.MolToSmiles(ref, doRandom=True))
        if case['form'] == 'kekule':
            Chem.Kekulize(r0, clearAromaticFlags=True)
        if case.get('coords'):
            AllChem.Compute2DCoords(r0)
        if case['rs'] % 2:
            perm = list(range(r0.GetNumAtoms()))
            rnd.shuffle(perm)
            r0 = Chem.RenumberAtoms(r0, perm)
        for a in r0.GetAtoms():
            if rnd.random() < .3:
                a.SetAtomMapNum(rnd.randrange(1, 200))
        rec['r0'] = rproj(r0, True)
        fr = from_rdkit_molecule(r0)
        rec['fr'] = cproj(fr, 'parsed')
        for a in r0.GetAtoms():
            a.SetAtomMapNum(0)
        a1 = fr.copy()
        for a in a1._atoms.values():
            a._parsed_mapping = None
        a2 = smiles(Chem.MolToSmiles(r0))
        rec['a2'] = cproj(a2)
        for x in (a1, a2):
            x.kekule()
            if case.get('explicit'):  # both sides without plain hydrogen atoms (RDKit's text does not spell all of them as atoms)
                x.implicify_hydrogens()
            x.thiele()
        rec['cs_conv'], rec['cs_conv0'] = str(a1), format(a1, '!s')
        rec['cs_ref'], rec['cs_ref0'] = str(a2), format(a2, '!s')
        rr = to_rdkit_molecule(fr, keep_mapping=False)
        rec['rr'], rec['rr0'] = Chem.MolToSmiles(rr), Chem.MolToSmiles(rr, isomericSmiles=False)
        rs = Chem.Mol(r0)
        Chem.SanitizeMol(rs)
        rec['rr_ref'], rec['rr_ref0'] = Chem.MolToSmiles(rs), Chem.MolToSmiles(rs, isomericSmiles=False)
    except Exception as e:
        rec['exc'] = type(e).__name__
    return rec


def run(ck):
    rnd = random.Random(ck.seed)
    corp = chy.corpus()
    stereo = [s for s in corp if '@' in s or '/' in s]
    sel = chy.pick(corp, 120 if ck.quick else 2000, ck.seed) + chy.pick(stereo, 80 if ck.quick else 1200, ck.seed, 1) + \
        ['C[C@H](N)O', 'N[C@@H](C)C(=O)O', 'F/C=C/F', 'F/C=C\\F', 'C/C=C/C=C\\C', '[13CH4]', 'C[CH2]', '[Na+].[Cl-]', 'CC(=O)[O-]', 'C[N+](C)(C)C', 'c1ccccc1', 'c1cc[nH]c1',
         'C[C@]1(F)CCCO1', 'O=C1CC[C@H]2[C@@H]1CC[C@@H]1COC[C@H]21', '[2H]C([2H])O', 'C[O]', '[OH-]', 'O', 'C#N', 'C1CC1', 'CC(C)(C)c1ccc(O)cc1',
         'N~[Pt](~N)(Cl)Cl', '[Fe]~C', 'C[N+](C)(C)~[Cu]', 'O=C1O[Cu]~N1', '[Pt]~N', 'N~[Pt]', '[CH2]', 'C[C]C', '[H][H]', '[2H]O[3H]', '[NH4+]', '[Cu+2]', 'C[Si](C)(C)C',
         'c1ccc2ccccc2c1', 'C[C@@](F)(Cl)Br', 'F[C@H](Cl)[C@@H](F)Cl', '[13CH3][C@H]([2H])O', 'C[N+](=O)[O-]', 'C=[N+]=[N-]', '[O-][n+]1ccccc1', 'C[S@](=O)CC', 'OP(O)(O)=O',
         'C1=CC=CC=CC=C1', 'c1ccc2[nH]ccc2c1', 'C/C=C(/F)Cl', 'C/C(F)=C(/Cl)Br', 'C1CC/C=C/CCC1', 'C[C@H]1CC[C@@H](C)CC1', 'N[C@H](C(=O)O)[C@@H](C)O', '[CH3]', 'C[CH]C', '[O][O]',
         '[2H][C@](F)(Cl)C', 'F[C@]([2H])(Cl)C', 'F[C@](Cl)([2H])C', 'F[C@](Cl)(C)[2H]', '[2H][C@@](F)(Cl)C', 'C[C@@]([3H])(N)C(=O)O', '[2H][C@]1(C)CCCO1', 'N[C@@]([2H])(C)C(O)=O',
         'C[C@@](F)(Cl)Br', 'CC[C@](C)(N)C(=O)O', 'CC1(C)[C@@H]2CC[C@@]1(C)C(=O)C2',
         'C/N=c1/cccc[nH]1', 'C/N=c1\\cccc[nH]1', 'C/N=c1\\sccn1C', 'C/N=c1/sccn1C', 'CC/N=c1/ccn(C)cc1', 'C/N=C1/C=CN(C)c2ccccc12', 'C/N=C1\\C=CN(C)c2ccccc12',
         'C1CCC/C=C\\CC1', 'C1CCC/C=C/CC1', 'C1=C/CCCCCC/1', 'C1=C\\CCCCCC/1', 'C1=C\\CC/C=C\\CC/1', 'OC1CC/C=C/CCC1', 'C1CCCC/C=C/CC1', 'C1CCCC/C=C\\CC1', 'C1CC/C=C\\CC1']
    cases = []
    for k, s in enumerate(sel):
        cases.append({'key': f'{s}|{"kekule" if k % 2 else "thiele"}|{k % 3}', 'smi': s, 'form': 'kekule' if k % 2 else 'thiele', 'renumber': k % 3 == 1, 'coords': k % 3 == 2,
                      'rs': rnd.randrange(1 << 30)})
        if k % 5 == 0:      # coordinates on a renumbered molecule (atom numbers and positions differ)
            cases.append({'key': f'{s}|kekule|renumbered-with-coordinates', 'smi': s, 'form': 'kekule', 'renumber': True, 'coords': True, 'rs': rnd.randrange(1 << 30)})
        if ('@' in s and k % 4 == 0 and len(s) < 60) or '[2H]' in s:
            cases.append({'key': f'{s}|kekule|explicit-hydrogens|{k % 2}', 'smi': s, 'form': 'kekule', 'renumber': bool(k % 2), 'coords': False, 'explicit': True, 'rs': rnd.randrange(1 << 30)})
    cases = ck.select('conversions', cases)
    if cases:
        res = vlib.pmap('checks.c20', 'observe', cases)
        for r in res:
            if '_observer_error' in r:
                raise vlib.Machinery(r['_observer_error'] + r['_tb'])
        keep = [(c, r) for c, r in zip(cases, res) if 'skip' not in r]
        ck.ood('skipped (rejected by one toolkit / allenes, non-carbon stereocentres, coordinate bonds)', len(cases) - len(keep))
        out = ck.validate('conversions', 'Bridge', [c for c, _ in keep], [r for _, r in keep])
        ck.ood('outside-the-symmetry-domain (configuration clauses waived)', out['out'].count('"ood"'))
    ck.assumptions += ['RDKit is the system under test together with the bridge, never the judge of a field: TLC compares the two projections; configuration is compared through canonical strings as the property states']
    return ck.finish(rule='one case = one molecule (form, renumbering, coordinates) through both conversions; distinct by key',
                     trusted=['TLC', 'spec/sys/Bridge.tla', 'spec/core/Sym.tla'])
