"""C19 - results are identical across processes, hash seeds and repeated calls.

Fresh interpreters with different PYTHONHASHSEED values each compute every view of every input three times (first call, cached
call, on a copy); the event streams are merged by (input, view) and TLC (spec/sys/Determinism.tla) requires a single value
per (input, view).
"""
import collections
import json
import os
import subprocess
import sys
import tempfile

import chy
import vlib


def run(ck):
    corp = chy.corpus()
    sel = chy.pick(corp, 60 if ck.quick else 1000, ck.seed) + ['c1ccccc1', 'C1=CC=C1', 'CC(C)C', 'C1CC1C1CC1', '[Na+].[Cl-].O', 'OC(=O)C(O)C(O)C(=O)O', 'c1ccc2ccccc2c1',
                                                                'CC(=O)Oc1ccccc1C(=O)O', 'N[C@@H](C)C(=O)O', 'F/C=C/F', 'C1CCC2CCCCC2C1', 'CCCCCCCC', 'C(C)(C)(C)C', 'c1ccc(cc1)-c1ccccc1', 'C[CH2]', '[CH2]CC', 'C[O]', 'OCCCCCCO', '[CH3].[CH3]', 'CC(=O)[O-].[Na+]', 'OCCO.OCCO', 'CCO.CCN', 'CCO.CCN.CCS', 'CC.CC.CC', 'NCCO.NCCO.O',
                                                                # equivalent stereo elements (ring pairs, meso and like pairs, E/Z pairs): the canonical order comes from a second ranking pass
                                                                'C[C@H]1CC[C@@H](C)CC1', 'C[C@H]1CC[C@H](C)CC1', 'O[C@H]1C[C@@H](O)C1', 'F[C@H]1C[C@@H](F)C[C@H](F)C1', 'C[C@H](O)C[C@H](O)C', 'C[C@H](O)C[C@@H](O)C',
                                                                'C/C=C/CC/C=C\\C', 'C/C=C/CC/C=C/C', 'C[C@H](O)[C@@H](O)C', 'C[n+]1ccn(CC)c1', 'c1c[nH]c[nH+]1', 'CC[n+]1cccn1C', 'Cn1cc[n+](C)c1', 'C[n+]1ccccc1', 'N[C@@H](Cc1c[nH]c[nH+]1)C(=O)O', 'C[C@H](Br)[C@H](Br)C', 'O[C@H]1CC[C@@H](O)CC1.O[C@H]1CC[C@H](O)CC1',
                                                                # ring systems joined by chains (the ring views prune the chain atoms), and atom numbers that do not ascend in storage order (a copy must keep the storage order: pack bytes, match lists)
                                                                'c1ccccc1CCc1ccccc1', 'C1CC1CCCC1CCC1', 'OC1CCC(CC1)CC(C)CC1CC1', 'c1ccccc1OCCOc1ccccc1.C1CC1CC1CC1',
                                                                '[CH3:5][CH2:2][OH:7]', '[CH3:9][C:3](=[O:8])[O:1][CH2:4][CH3:2]', '[cH:6]1[cH:2][cH:5][cH:1][cH:4][c:3]1[OH:7]', '[CH3:4][CH:2]([CH3:9])[CH:1]=[O:3].[OH2:7]',
                                                                '[CH2:8]1[CH2:3][CH:6]1[CH2:2][CH2:5][CH:1]1[CH2:7][CH2:4]1',
                                                                '[OH2:7].[CH3:4][CH:2]=[O:3]', '[CH2:9]1[CH2:8][CH2:7]1.[CH2:3]1[CH2:2][CH2:1]1', '[Na+:5].[Cl-:2]', '[cH:10]1[cH:4][cH:7][c:2]2[cH:9][cH:3][cH:8][cH:1][c:6]2[cH:5]1',
                                                                '[CH3:6][OH:5].[CH3:4][NH2:3].[CH3:2][SH:1]']
    seeds = [0, 1, ck.seed + 2, 12345] if ck.quick else [0, 1, 2, 3, 7, 11, 101, 12345, 999999, ck.seed + 2, 4242, 31337, 65535, 17, 5, 8]
    if ck.replay:
        sel = [ck.replay_case['case']['input']]
    d = tempfile.mkdtemp(prefix='c19-', dir=vlib.scratch())
    inp = os.path.join(d, 'inputs.json')
    json.dump(sel, open(inp, 'w'))
    procs = []
    env0 = dict(os.environ)
    for k, s in enumerate(seeds):
        env = dict(env0, PYTHONHASHSEED=str(s))
        out = open(os.path.join(d, f'out{k}.ndjson'), 'w')
        procs.append((subprocess.Popen([sys.executable, '-m', 'checks.c19_worker', inp, chy.REPO, f'seed{s}#{k}'], env=env, stdout=out, stderr=subprocess.PIPE, text=True), out, k))
    merged = collections.OrderedDict()
    for p, out, k in procs:
        err = p.communicate()[1]
        out.close()
        if p.returncode != 0:
            raise vlib.Machinery(f'worker {k} failed:\n{err[-2000:]}')
        for line in open(os.path.join(d, f'out{k}.ndjson')):
            e = json.loads(line)
            merged.setdefault((e['input'], e['view']), []).append({'proc': e['proc'], 'val': json.dumps(e['val'])})  # one type for TLC: values are compared, never inspected
    recs, cases = [], []
    for (i, v), obs in merged.items():
        recs.append({'input': i, 'view': v, 'obs': obs})
        cases.append({'key': f'{i}|{v}', 'input': i, 'view': v})
    ck.validate('observations', 'Determinism', cases, recs)
    ck.count('processes', len(seeds))
    ck.count('observations', sum(len(r['obs']) for r in recs))
    ck.notes['hash_seeds'] = seeds
    ck.assumptions += ['hash(molecule) itself is not compared across processes: it is a hash of the canonical string and Python randomises string hashes per process by design; the string is compared',
                       'pack bytes come from the translated .pyx sources']
    return ck.finish(rule='one case = one (input, view) with the observations of all processes / calls; distinct by (input, view)',
                     trusted=['TLC', 'spec/sys/Determinism.tla'])
