"""C02 - SMILES write then read is lossless; canonical strings never collide.

Every molecule is written by chython in every supported style; the text is (w) read by the reference reader
spec/lang/SmilesRead.tla under TLC and compared with the projection of the original permuted into the written order, and
(r) read back by chython itself, whose result is compared by TLC with the same projection.  Injectivity: the canonical
strings of structurally different molecules (stereoisomer sets, decorated small graphs) are compared pairwise by TLC
(Trace_C02inj).
"""
import itertools
import random

import chy
import vlib
from vlib import chars

STYLES = ['', 'a', 'A', 'm', 'h', 'r', 'ar', 'Ar', 'mr', 'hr', 'Ah', 'am']
LOSSY = ['!s', '!b', '!z', 'r!s']

# stereo elements that exist only because of other stereo elements (built through the API, see prepare)
DEPENDENT = ['OC(C=CC)C=CC||c:3,4,2,5,0;c:6,7,2,8,1;t:2,1.3.6,1', 'OC(C=CC)C=CC||c:3,4,2,5,0;c:6,7,2,8,1;t:2,1.3.6,0',
             'CC(N)(C=CC)C=CC||c:4,5,2,6,0;c:7,8,2,9,1;t:2,1.3.4.7,0', 'CC=C(C(C)F)C(C)F||t:4,3.5.6,1;t:7,3.8.9,0;c:2,3,1,4,1',
             'CC=C(C(C)F)C(C)F||t:4,3.5.6,1;t:7,3.8.9,0;c:2,3,1,4,0', 'c1ccccc1C(C=CC)C=CC||c:8,9,7,10,1;c:11,12,7,13,0;t:7,6.8.11,1',
             'FC(C=CC)(C=CC)C=CC||c:3,4,2,5,0;c:6,7,2,8,1;c:9,10,2,11,1', 'OC(C=CCl)C=CCl||c:3,4,2,5,0;c:6,7,2,8,1;t:2,1.3.6,1']
# aromatic rings with two-letter aromatic atoms, made aromatic through the API
AROMATIC_API = []      # (tried: aromatic forms built through the API - the 'as is' domain of C02 excludes forms with unknown hydrogens, which these are; the reader's treatment of two-letter aromatic atoms is C03's)
EXOTIC = DEPENDENT + AROMATIC_API + ['[C]~[Fe]', '[Fe]~[C]~[Fe]', '[S](~[Cu])~[Cu]', '[B]~[Ni]', '[P](~[Co])(~[Co])~[Co]', '[C](~[Fe])(~[Fe])~[Ru]', 'C~[Fe]', '[CH2]~[Fe]', 'C\\1=C=C(~C/1)=C\\C', 'C/1=C=C(~C/1)=C\\C', 'FC(Cl)=[C@]=C(Br)I', 'FC(Cl)=[C@@]=C(Br)I', 'FC=[C@]=CCl', 'CC=[C@@]=CF', 'CC(F)=[C@]=C(C)CC', 'C/C=C=C=C/C', 'C/C=C=C=C\\C', 'F/C(Cl)=C=C=C(/Br)I', 'C1CCCC=[C@]=CCCC1',
          'C[C@H](O)C=[C@@]=CC', 'CC=[C@]=CC/C=C/C', 'OC(C)=[C@]=C(C)C(=O)O', '[PH5]', '[SH4]', '[SH6]', 'C[PH4]', 'C[SH3]', 'C[SH5]', '[AlH3]', '[BH3]', '[BH4-]', '[NH4+]', '[OH3+]', '[CH3]', '[CH2]', '[OH]',
          'C[O]', 'C[N]C', '[CH3-]', '[CH3+]', '[13CH4]', '[2H]O[2H]', '[18OH2]', 'C[N+](C)(C)C', 'C[N+](=O)[O-]', 'CS(=O)(=O)C', 'CS(C)=O',
          'CP(=O)(O)O', 'O=P(Cl)(Cl)Cl', 'FS(F)(F)(F)(F)F', 'FCl(F)F', 'FI(F)(F)(F)F', 'F[Xe]F', '[Na+].[Cl-]', '[Fe+2]', '[Fe+3].[Cl-].[Cl-].[Cl-]',
          '[Cu+2]', 'C[Mg]Br', 'C[Li]', '[Li+].[AlH4-]', 'B(O)O', 'OB(O)c1ccccc1', 'c1ccc2ccccc2c1', 'c1ccc2[nH]ccc2c1', 'c1cc[nH]c1', 'c1ccoc1', 'c1ccsc1',
          'c1cc[se]c1', 'c1cnc[nH]1', 'c1ccncc1', 'c1cc[n+](C)cc1', '[O-][n+]1ccccc1', 'c1cc[o+]cc1', '[cH-]1cccc1', 'c1ccccc1-c1ccccc1',
          'C1CC1', 'C1CCC1', 'C12CC1C2', 'C1CC12CC2', 'C1CCC2CCCCC2C1', 'C(C)(C)(C)C', 'C#N', '[C-]#[O+]', 'N#N', 'O=C=O', 'C=C=C', 'CC=C=CC',
          'C/C=C/C', 'C/C=C\\C', 'F/C=C/F', 'F/C=C\\F', 'C/C=C/C=C/C', 'C/C=C\\C=C/C', 'F/C(Cl)=C/Br', 'F/C(Cl)=C(/Br)I', 'C/C=N/O', 'C/C=N\\O', 'C/N=N/C',
          'C[C@H](N)O', 'C[C@@H](N)O', 'N[C@@H](C)C(=O)O', '[C@](F)(Cl)(Br)I', 'F[C@](Cl)(Br)I', 'F[C@@](Cl)(Br)I', 'C[C@H]1CCCO1', 'C[C@@H]1CCCO1',
          'C[C@]1(F)CCCO1', 'O[C@H]1CC[C@@H](C)CC1'.replace('[C@@H](C)', '[C@@H](N)'), 'C[C@H](O)[C@@H](N)C', 'C[C@H](O)[C@H](N)C', 'CC=[C@]=CF'.replace('CC=', 'C[CH]=').replace('[CH]', 'C'),
          'F[C@H]=C=CCl'.replace('[C@H]', 'C'), 'FC=[C@]=CCl', 'FC=[C@@]=CCl', 'C[S@](=O)CC', 'C[S@@](=O)CC', 'C[P@](=O)(O)CC',
          '[H]C([H])([H])[H]', '[H][H]', '[H+]', '[HH]', 'C[C@]([H])(N)O', 'C[C@@]([H])(N)O', '[2H][C@](C)(N)O', 'CC~CC' if False else 'CC', 'C1CCCCCCCCCCC1',
          'C%10CC%10', 'OC(=O)CC(O)(CC(=O)O)C(=O)O', 'CC(C)C[C@H](NC(=O)[C@@H](Cc1ccccc1)NC(=O)c1cnccn1)B(O)O',
          'C[C@@H]1C[C@H]2[C@@H]3CCC4=CC(=O)C=C[C@]4(C)[C@@]3(F)[C@@H](O)C[C@]2(C)[C@@]1(O)C(=O)CO',
          'CN1[C@H]2CC[C@@H]1[C@H]([C@H](C2)OC(=O)c1ccccc1)C(=O)OC', 'C[N+]1(C)CCCC1', '[O-]S(=O)(=O)[O-]', '[NH3+]CC([O-])=O', 'C[n+]1ccccc1',
          'Cn1cnc2c1c(=O)n(C)c(=O)n2C', 'O=c1cc[nH]cc1', 'O=c1[nH]cccc1', 'c1ccc2c(c1)ccc1ccccc12', 'C1=CC=CC=C1', 'C1=CC=CC=CC=C1', 'c1ccc2cc3ccccc3cc2c1']


# double bonds whose atoms carry ring-closure digits in some write orders (direction marks on closure bonds)
RINGDB = ['C1CCC/C=C/CCCC1', 'C1CCC/C=C\\CCCC1', 'C/C=C1/CCCOC1', 'C/C=C1\\CCCOC1', 'O=C1CCCC/C=C/CCCCC1', 'O=C1CCCC/C=C\\CCCCC1',
          'C1C/C=C/CC/C=C\\CC1', 'C/C(=C\\C1CCCCC1)C1CCCO1', 'F/C=C1/CCCN(C)C1', 'F/C=C1\\CCCN(C)C1', 'C/C=C(/C)C1CC1', 'CC1=C(C)/C(=C/C)CC1',
          'O=C1/C(=C/c2ccccc2)CCC1', 'O=C1/C(=C\\c2ccccc2)CCC1', 'C[C@H]1CCC/C=C/CCC(=O)O1', 'C[C@H]1CCC/C=C\\CCC(=O)O1',
          'N1CCC/C=C/C=C/CCCC1', 'N1CCC/C=C\\C=C/CCCC1']


# stereogenic atoms with four ring bonds (chiral spiro centres): in some write orders they close one ring and open another
SPIRO = ['O1CC[C@@]2(C1)CCCN2', 'O1CC[C@]2(C1)CCCN2', 'O=C1CC[C@@]2(CCCO2)C1', 'O=C1CC[C@]2(CCCO2)C1', 'C1CO[C@@]2(C1)CCNC2=O', 'C1CO[C@]2(C1)CCNC2=O',
         '[C@]12(CCCO1)CCCN2', 'C[C@H]1CC[C@@]2(CCCO2)OC1', 'O=C1N[C@@]2(CCCOC2)C(=O)N1C', 'C1CC[C@]2(C1)OC[C@@H](C)O2'.replace('C1CC[C@]2(C1)', 'N1CC[C@]2(C1)'),
         'C1C[C@@]23CCCN2CCC[C@H]3O1', 'O1CC[C@@]23CCCC[C@H]2NCC3C1']


def spiro_like(corp, limit):
    """corpus molecules with a marked atom that has four ring bonds"""
    from chython import smiles
    out = []
    for smi in corp:
        if '@' not in smi:
            continue
        try:
            m = smiles(smi)
        except Exception:
            continue
        ar = m.atoms_rings
        if any(a._stereo is not None and n in ar and sum(1 for x in m._bonds[n] if x in ar and m._bonds[n][x]._in_ring) == 4 for n, a in m._atoms.items()):
            out.append(smi)
            if len(out) >= limit:
                break
    return out


def project_under(m, order, maps=False):
    idx = {n: i + 1 for i, n in enumerate(order)}
    atoms = [{'n': n, 'z': m._atoms[n].atomic_number, 'c': m._atoms[n]._charge, 'i': m._atoms[n]._isotope or 0,
              'h': chy.ival(m._atoms[n]._implicit_hydrogens), 'r': 1 if m._atoms[n]._is_radical else 0, 'p': chy.parity(m, n, idx), 'hm': 0}
             for n in order]
    bonds = sorted([min(idx[n], idx[k]), max(idx[n], idx[k]), int(b._order)] for n, k, b in m.bonds())
    return {'atoms': atoms, 'bonds': bonds, 'ct': sorted(normct(q) for q in chy.cistrans(m, idx)), 'ax': sorted(chy.axial(m, idx))}


def normct(q):
    """same-side relation in a form independent of which substituent was named: a<b, smallest substituent on each end"""
    return q


def prepare(case):
    """the original molecule of a case"""
    from chython import smiles
    if '||' in case['smi']:
        # a skeleton and configuration marks set through the API, in the listed order (marks that make other atoms or bonds
        # stereogenic first): the original does not depend on what the reader makes of such a text
        skeleton, instr = case['smi'].split('||')
        m = smiles(skeleton)
        for ins in instr.split(';'):
            if ins == 'ar':       # every ring bond becomes an aromatic bond (through the API: the reader is not involved)
                h0 = {n: a._implicit_hydrogens for n, a in m._atoms.items()}
                for a, b, bd in list(m.bonds()):
                    if bd.in_ring:
                        m.delete_bond(a, b)
                        m.add_bond(a, b, 4)
                for n, a in m._atoms.items():      # bracket atoms carry their count in the text; the reader leaves the others unknown in this form
                    a._implicit_hydrogens = h0[n] if len(a.atomic_symbol) == 2 else None
                continue
            kind, args = ins.split(':')
            a = args.split(',')
            if kind == 'c':
                m.add_cis_trans_stereo(int(a[0]), int(a[1]), int(a[2]), int(a[3]), a[4] == '1')
            else:
                m.add_atom_stereo(int(a[0]), tuple(int(x) for x in a[1].split('.')), a[2] == '1')
            m.flush_stereo_cache()
    else:
        m = smiles(case['smi'])
    form = case['form']
    if form == 'kekule':
        m.kekule()
    elif form == 'thiele':
        m.kekule()
        m.thiele()
    elif '||ar' not in case['smi'] and any(a._implicit_hydrogens is None for a in m._atoms.values()):
        raise ValueError('unknown hydrogens before normalisation')    # out of domain: nothing to round-trip
    return m


def observe(case):
    from chython import smiles
    try:
        m = prepare(case)
    except Exception as e:
        return {'skip': f'{type(e).__name__}'}
    style = case['style']
    random.seed(case.get('rs', 0))
    text, order = m.__format__(style, _return_order=True) if style else m.__format__('', _return_order=True)
    cx = m._format_cxsmiles(order) if '!x' not in style else None
    full = text if cx is None else text + ' ' + cx
    rec = {'s': chars(text), 'cx': chars(cx or ''), 'maps': 1 if 'm' in style else 0, 'lossy': 1 if '!' in style else 0, 'text': full,
           'drop': {'s': int('!s' in style), 'b': int('!b' in style), 'z': int('!z' in style)}}
    rec.update(project_under(m, order))
    if not style:     # the public path must give the same text
        if str(m) != full:
            rec['s'] = chars(str(m).split()[0])
    kind, val = chy.outcome(smiles, full)
    rec['bout'] = kind if kind != 'ok' else 'ok'
    back = {'atoms': [], 'bonds': [], 'ct': [], 'ax': []}
    if kind == 'ok':
        b = val
        if case['form'] == 'thiele' and 'A' not in style:
            k2, _ = chy.outcome(b.kekule)
            if k2 == 'ok':
                k2, _ = chy.outcome(b.thiele)
            if k2 != 'ok':
                rec['bout'] = 'renormalise-failed'
        elif case['form'] == 'thiele':
            # 'A' style: aromatic bonds written explicitly between upper-case atoms: hydrogens of ring atoms are restored by kekule/thiele too
            k2, _ = chy.outcome(b.kekule)
            if k2 == 'ok':
                chy.outcome(b.thiele)
        if rec['bout'] == 'ok':
            back = project_under(b, list(b._atoms))
    rec['back'] = back
    return rec


def cases_for(smis, forms, styles, seed, norders):
    out = []
    for smi in smis:
        for form in forms:
            for st in styles:
                reps = norders if 'r' in st else 1
                for k in range(reps):
                    out.append({'key': f'{smi}|{form}|{st}|{k}', 'smi': smi, 'form': form, 'style': st, 'rs': seed * 7919 + k})
    return out


def run(ck):
    corp = chy.corpus()
    if ck.quick:
        sel = chy.pick(corp, 220, ck.seed)
        norders = 2
    else:
        sel = corp
        norders = 4
    parts = [('corpus', cases_for(sel, ['kekule', 'thiele'], STYLES, ck.seed, norders)),
             ('exotic', cases_for(sorted(set(EXOTIC)), ['asis', 'kekule', 'thiele'], STYLES, ck.seed, 4 if ck.quick else 12)),
             ('ring-double-bonds', cases_for(RINGDB, ['kekule'], ['r', 'ar', 'mr', 'hr', '', 'a'], ck.seed, 10 if ck.quick else 60)),
             ('spiro-stereo', cases_for(SPIRO + spiro_like(corp, 6 if ck.quick else 60), ['kekule'], ['r', 'ar', 'mr', 'hr'], ck.seed, 20 if ck.quick else 120)),
             ('lossy', cases_for(chy.pick(corp, 100 if ck.quick else 1000, ck.seed, 5), ['kekule'], LOSSY, ck.seed, 1))]
    for name, cases in parts:
        cases = ck.select(name, cases)
        if not cases:
            continue
        allc = cases
        for lo in range(0, len(allc), 12000):   # one TLC run per batch: a trace file of 10^5 texts is too much for one JSON value
            cases = allc[lo:lo + 12000]
            recs = vlib.pmap('checks.c02', 'observe', cases)
            keep = [(c, r) for c, r in zip(cases, recs) if 'skip' not in r]
            ck.ood('unparsable-or-unkekulisable-source', len(cases) - len(keep))
            cases, recs = [c for c, _ in keep], [r for _, r in keep]
            ck.validate(name, 'Trace_C02', cases, recs, step_len=lambda r: len(r['s']))
            ck.count('stereo-atoms', sum(1 for r in recs for a in r['atoms'] if a['p'] != 2))
            ck.count('stereo-bonds', sum(len(r['ct']) for r in recs))
            ck.count('radical-texts', sum(1 for r in recs if r['cx']))
    ck.assumptions += ['aromatic texts are compared after kekule()+thiele() of the molecule read back (hydrogens of aromatic heteroatoms are unknown before)',
                       'allene / cumulene marks are compared between the written molecule and the one read back (r-axis); the reference reader does not interpret them']
    return ck.finish(rule='one case = (molecule, form, style, random order); distinct by that tuple',
                     trusted=['TLC', 'spec/lang/SmilesRead.tla', 'spec/core/SmilesValence.tla', 'harness projection'])
