"""C06 - ring perception returns a minimum cycle basis that the ring marks agree with.

code -> spec: the reported ring set, ring count, components and the in-ring / ring-size marks of atoms and bonds are
recorded for (a) every labelled connected graph up to a bound, (b) corpus molecules and the repository's ring test file
under renumbering / re-insertion, (c) generated fused / spiro / bridged assemblies and macrocycles; TLC (Trace_C06 with
spec/core/Rings.tla) evaluates simple-cycle, count, GF(2) independence, minimum total size (its own Horton + greedy
reference), numbering independence of the size multiset, marks and components.
"""
import itertools
import os
import random

import chy
import vlib


def record(m, m2=None):
    """observations of molecule m; m2: a renumbered / re-inserted rebuild whose ring sizes must be the same multiset"""
    order = list(m._atoms)
    idx = {n: i + 1 for i, n in enumerate(order)}
    rings = [[idx[x] for x in r] for r in m.sssr]
    rec = {'atoms': [{'z': a.atomic_number} for a in m._atoms.values()],
           'bonds': [[idx[n], idx[k], int(b._order)] for n, k, b in m.bonds()],
           'rings': rings, 'rc': m.rings_count, 'ncomp': m.connected_components_count,
           'comps': [sorted(idx[x] for x in c) for c in m.connected_components],
           'ainr': [1 if a.in_ring else 0 for a in m._atoms.values()],
           'asz': [sorted(a.ring_sizes) for a in m._atoms.values()],
           'binr': [[idx[n], idx[k], 1 if b.in_ring else 0] for n, k, b in m.bonds()],
           'sizes2': sorted(len(r) for r in (m2 if m2 is not None else m).sssr)}
    return rec


def build(n, edges, orders=None, shuffle=None):
    from chython import MoleculeContainer
    m = MoleculeContainer()
    nums = list(range(1, n + 1))
    mp = {k: k for k in nums}
    el = list(edges)
    if shuffle is not None:
        new = nums[:]
        shuffle.shuffle(new)
        mp = dict(zip(nums, new))
        shuffle.shuffle(el)
        order = nums[:]
        shuffle.shuffle(order)
    else:
        order = nums
    for k in order:
        m.add_atom(6, mp[k])
    for q, (a, b) in enumerate(el):
        m.add_bond(mp[a], mp[b], 1 if orders is None else orders.get((a, b), 1))
    return m


def refused(n, edges, ex):
    """ring perception raised on this graph: the graph itself (as the driver knows it) and the exception class"""
    return {'atoms': [{'z': 6}] * n, 'bonds': [[a, b, 1] for a, b in edges], 'rings': [], 'rc': 0, 'ncomp': 0, 'comps': [], 'ainr': [0] * n, 'asz': [[]] * n,
            'binr': [], 'sizes2': [], 'exc': type(ex).__name__}


def observe_graph(case):
    from chython.exceptions import ImplementationError
    rnd = random.Random(case['rs'])
    try:
        m = build(case['n'], case['e'])
        m2 = build(case['n'], case['e'], shuffle=rnd)
        return record(m, m2)
    except (ImplementationError, KeyError, IndexError) as ex:
        return refused(case['n'], case['e'], ex)


def connected(n, edges):
    adj = {k: set() for k in range(1, n + 1)}
    for a, b in edges:
        adj[a].add(b)
        adj[b].add(a)
    seen, st = {1}, [1]
    while st:
        x = st.pop()
        for y in adj[x]:
            if y not in seen:
                seen.add(y)
                st.append(y)
    return len(seen) == n, adj


def small_graphs(nmax, maxrings, full=True, rnd=None, sample=None):
    """all labelled connected graphs with n <= nmax vertices, degree <= 4, at most maxrings rings"""
    for n in range(3, nmax + 1):
        pairs = list(itertools.combinations(range(1, n + 1), 2))
        masks = range(1 << len(pairs))
        if sample is not None and n == nmax and (1 << len(pairs)) > sample * 4:
            masks = (rnd.getrandbits(len(pairs)) for _ in range(sample * 40))
        cnt = 0
        for mask in masks:
            edges = [p for q, p in enumerate(pairs) if mask >> q & 1]
            if not (n - 1 <= len(edges) <= n - 1 + maxrings):
                continue
            ok, adj = connected(n, edges)
            if not ok or any(len(v) > 4 for v in adj.values()):
                continue
            yield n, edges
            cnt += 1
            if sample is not None and n == nmax and cnt >= sample:
                break


def observe_mol(case):
    """a molecule from text, observed as parsed and against a renumbered re-inserted rebuild"""
    from chython import smiles, MoleculeContainer
    rnd = random.Random(case['rs'])
    try:
        m = smiles(case['smi'])
    except Exception as e:
        return {'skip': type(e).__name__}
    order = list(m._atoms)
    idx = {n: i + 1 for i, n in enumerate(order)}
    edges = [(idx[a], idx[b]) for a, b, bd in m.bonds() if bd._order != 8]
    try:
        if case.get('renumber'):
            m, _ = chy.renumbered(strip(m), rnd)
        m2, _ = chy.renumbered(strip(m), rnd)
        return record(m, m2)
    except Exception as ex:
        if type(ex).__name__ != 'ImplementationError':
            raise
        return refused(len(order), edges, ex)


def strip(m):
    c = m.copy()
    c.clean_stereo()
    return c


def observe_sdf(case):
    from chython.files import SDFRead
    out = []
    rnd = random.Random(case['rs'])
    with SDFRead(case['file']) as f:
        for m in f:
            m2, _ = chy.renumbered(strip(m), rnd)
            out.append(record(m, m2))
    return out


def ring_assembly(rnd, holder=None):
    """SMILES of a random assembly: chain of rings joined by fusion / spiro / bridge / bond, optional macrocycle"""
    from chython import MoleculeContainer
    m = MoleculeContainer()
    if holder is not None:
        holder.append(m)      # (the object under construction, for the case that ring perception raises while it is being built)
    def ring(k):
        first = None
        prev = None
        atoms = []
        for _ in range(k):
            a = m.add_atom(6)
            atoms.append(a)
            if prev:
                m.add_bond(prev, a, 1)
            prev = a
        m.add_bond(atoms[0], atoms[-1], 1)
        return atoms
    k = rnd.choice([3, 4, 5, 6, 6, 7, 8]) if rnd.random() < .85 else rnd.randint(9, 16)
    cur = ring(k)
    for _ in range(rnd.randint(0, 4)):
        mode = rnd.choice(['fuse', 'spiro', 'bridge', 'link', 'chord'])
        if mode == 'fuse' and len(cur) >= 3:
            i = rnd.randrange(len(cur) - 1)
            a, b = cur[i], cur[i + 1]
            k = rnd.choice([3, 4, 5, 6, 7])
            new = [a]
            prev = a
            for _ in range(k - 2):
                x = m.add_atom(6)
                m.add_bond(prev, x, 1)
                new.append(x)
                prev = x
            if len(m._bonds[b]) < 4 and len(m._bonds[a]) <= 4:
                m.add_bond(prev, b, 1)
            new.append(b)
            cur = new
        elif mode == 'spiro':
            a = rnd.choice(cur)
            if len(m._bonds[a]) > 2:
                continue
            k = rnd.choice([3, 4, 5, 6])
            prev = a
            new = [a]
            for _ in range(k - 1):
                x = m.add_atom(6)
                m.add_bond(prev, x, 1)
                new.append(x)
                prev = x
            m.add_bond(prev, a, 1)
            cur = new
        elif mode == 'bridge' and len(cur) >= 5:
            a, b = rnd.sample(cur, 2)
            if b in m._bonds[a] or len(m._bonds[a]) > 3 or len(m._bonds[b]) > 3:
                continue
            prev = a
            for _ in range(rnd.randint(0, 3)):
                x = m.add_atom(6)
                m.add_bond(prev, x, 1)
                prev = x
            if prev != b and b not in m._bonds[prev]:
                m.add_bond(prev, b, 1)
        elif mode == 'chord' and len(cur) >= 5:
            a, b = rnd.sample(cur, 2)
            if b not in m._bonds[a] and len(m._bonds[a]) < 4 and len(m._bonds[b]) < 4:
                m.add_bond(a, b, 1 if rnd.random() < .8 else 8)
        else:
            a = rnd.choice(cur)
            if len(m._bonds[a]) > 3:
                continue
            x = m.add_atom(rnd.choice([6, 7, 8]))
            m.add_bond(a, x, 1)
            cur2 = ring(rnd.choice([3, 5, 6]))
            m.add_bond(x, cur2[0], 1)
            cur = cur2
    return m


def observe_edits(case):
    """ring sets / components / marks read before and after every edit of a small history (a stale cache must not survive)"""
    from chython import smiles
    rnd = random.Random(case['rs'])
    try:
        m = smiles(case['smi'])
        m.kekule()
        m.clean_stereo()
    except Exception as e:
        return [{'skip': type(e).__name__}]
    out = []

    def look():
        m2, _ = chy.renumbered(m, rnd)
        out.append(record(m, m2))
    look()
    for k in range(case['steps']):
        nums = list(m._atoms)
        op = rnd.choice(['link8', 'link8', 'add', 'del', 'del8', 'del8', 'delatom', 'newfrag', 'std'])
        if k == 0 and case.get('first'):
            op = case['first']
        try:
            if op == 'std':          # group rules rewrite bond orders in place (some make coordinate bonds) and keep what they can of the cache
                m.standardize()
                look()
                continue
            if op in ('link8', 'add') and len(nums) >= 2:
                a, b = rnd.sample(nums, 2)
                if b not in m._bonds[a]:
                    m.add_bond(a, b, 8 if op == 'link8' else 1)
            elif op == 'del':
                bl = [(p, q) for p, q, bd in m.bonds()]
                if bl:
                    m.delete_bond(*rnd.choice(bl))
            elif op == 'del8':
                bl = [(p, q) for p, q, bd in m.bonds() if bd._order == 8]
                if bl:
                    m.delete_bond(*rnd.choice(bl))
            elif op == 'delatom' and len(nums) > 2:
                m.delete_atom(rnd.choice(nums))
            else:
                x = m.add_atom(rnd.choice(['Cu', 'N', 'O', 'Zn']))
                if rnd.random() < .7:
                    m.add_bond(x, rnd.choice(nums), 8)
        except Exception as e:
            out.append({'exc': type(e).__name__})
            break
        look()
    return out


def observe_assembly(case):
    rnd = random.Random(case['rs'])
    holder = []
    try:
        m = ring_assembly(rnd, holder)
        m2, _ = chy.renumbered(m, rnd)
        return record(m, m2)
    except Exception as ex:
        if type(ex).__name__ != 'ImplementationError':
            raise
        m = holder[0]
        order = list(m._atoms)
        idx = {n: i + 1 for i, n in enumerate(order)}
        return refused(len(order), [(idx[a], idx[b]) for a, b, bd in m.bonds()], ex)


def run(ck):
    rnd = random.Random(ck.seed)
    # (a) exhaustive small graphs
    if ck.quick:
        graphs = list(small_graphs(5, 5)) + list(small_graphs(6, 5, rnd=rnd, sample=3000))[-3000:]
        exhaustive = 'all labelled connected graphs <= 5 atoms; 3000 random labelled 6-atom graphs'
    else:
        graphs = list(small_graphs(6, 5)) + [g for g in small_graphs(7, 5, rnd=rnd, sample=30000) if g[0] == 7] + \
                 [g for g in small_graphs(8, 3, rnd=rnd, sample=15000) if g[0] == 8]
        exhaustive = 'all labelled connected graphs <= 6 atoms (<= 5 rings, degree <= 4); 30000 random 7-atom and 15000 random 8-atom (<= 3 rings) graphs'
    # dense polycycles of eight atoms around a three-bridge core (bridgeheads joined by three one-atom bridges, three more atoms, random further
    # bonds up to five rings), each under several numberings: the accepted rings merge in numbering-dependent order
    def dense8(r):
        core = [(1, 3), (1, 4), (1, 5), (2, 3), (2, 4), (2, 5)]
        while True:
            e = set(core)
            deg = {k: sum(1 for x in e if k in x) for k in range(1, 9)}
            for new in (6, 7, 8):          # attach each new atom by two bonds
                for t in r.sample([k for k in range(1, new) if deg[k] < 4], 2):
                    e.add((t, new))
                    deg[t] += 1
                    deg[new] += 1
            if len(e) == 12 and all(v <= 4 for v in deg.values()):
                return sorted(e)
    def dense8b(r):      # the core plus six random further bonds among all eight atoms (every atom at least twice bonded)
        core = [(1, 3), (1, 4), (1, 5), (2, 3), (2, 4), (2, 5)]
        while True:
            e = set(core)
            pairs = [(a, b) for a in range(1, 9) for b in range(a + 1, 9) if (a, b) not in e and not (a <= 5 and b <= 5)]
            e |= set(r.sample(pairs, 6))
            deg = {k: sum(1 for x in e if k in x) for k in range(1, 9)}
            if all(2 <= v <= 4 for v in deg.values()) and connected(8, sorted(e))[0]:
                return sorted(e)
    hard = [[(1, 2), (1, 4), (1, 6), (1, 8), (2, 7), (3, 6), (3, 7), (3, 8), (4, 6), (4, 7), (5, 6), (5, 8)]]      # one skeleton of this family, many numberings
    for q in range(40 if ck.quick else 400):
        e = dense8(rnd) if q % 2 else dense8b(rnd)
        if q < len(hard):
            e = hard[q]
        for _ in range((60 if q < len(hard) else 6) if ck.quick else (400 if q < len(hard) else 12)):
            perm = list(range(1, 9))
            rnd.shuffle(perm)
            graphs.append((8, sorted(tuple(sorted((perm[a - 1], perm[b - 1]))) for a, b in e)))
    seen = set()
    cases = []
    for n, e in graphs:
        key = f'g{n}:' + ','.join(f'{a}-{b}' for a, b in e)
        if key in seen:
            continue
        seen.add(key)
        cases.append({'key': key, 'n': n, 'e': e, 'rs': rnd.randrange(1 << 30)})
    cases = ck.select('small-graphs', cases)
    if cases:
        recs = vlib.pmap('checks.c06', 'observe_graph', cases)
        res = ck.validate('small-graphs', 'Trace_C06', cases, recs)
        ck.ood('theta-gap-or-dense-cage', res['out'].count('"INFO"'))
        ck.exhaustive['small-graphs'] = True
        ck.notes['small-graphs'] = exhaustive
    # (b) corpus
    corp = chy.corpus()
    sel = chy.pick(corp, 150 if ck.quick else 1500, ck.seed)
    cases = [{'key': f'{s}|{k}', 'smi': s, 'renumber': k > 0, 'rs': rnd.randrange(1 << 30)} for s in sel for k in range(2 if ck.quick else 4)]
    cases = ck.select('corpus', cases)
    if cases:
        recs = vlib.pmap('checks.c06', 'observe_mol', cases)
        keep = [(c, r) for c, r in zip(cases, recs) if 'skip' not in r]
        res = ck.validate('corpus', 'Trace_C06', [c for c, _ in keep], [r for _, r in keep])
        ck.ood('theta-gap-or-dense-cage', res['out'].count('"INFO"'))
    # (c) generated assemblies
    cases = ck.select('assemblies', [{'key': f'asm:{ck.seed}:{k}', 'rs': ck.seed * 7 + k} for k in range(400 if ck.quick else 6000)])
    if cases:
        recs = vlib.pmap('checks.c06', 'observe_assembly', cases)
        res = ck.validate('assemblies', 'Trace_C06', cases, recs)
        ck.ood('theta-gap-or-dense-cage', res['out'].count('"INFO"'))
    # (c2) reads interleaved with edits (coordinate bonds between fragments, deletions): derived ring / component data stay right
    sel = chy.pick([x for x in corp if len(x) < 50], 60 if ck.quick else 800, ck.seed, 7) + ['c1ccncc1.N.[Cu]', 'NCCN.[Ni]', 'C1CC1.C1CC1', '[Na+].[Cl-]']
    cases = [{'key': f'edits:{s}:{ck.seed}', 'smi': s, 'rs': ck.seed * 13 + k, 'steps': 6} for k, s in enumerate(sel)]
    # ring bonds that the group rules turn into coordinate bonds (amine- and sulfide-boranes, bridging hydrides): the ring set changes
    # without any atom or bond being added or removed
    dative = ['B1CCCN1(C)C', 'B1CCN1(C)C', 'B1CCCCS1C', 'B1CCCS1C', 'C1CCB2N1(C)CCC2', 'CB1(C)[H]B(C)(C)[H]1', 'CB1CCCC=[N+]1C', 'B1CCCO1C', 'C1CB2CCCN2(C)C1',
              'B1(C)N(C)(C)B(C)N1(C)C', 'C1CCC2(CC1)B(C)N2(C)C', 'c1ccc2B(C)N(C)(C)Cc2c1', 'B1CCCN1(C)C.B1CCCS1C']
    cases += [{'key': f'dative:{s}:{f}', 'smi': s, 'rs': ck.seed * 17 + k, 'steps': 4, 'first': f} for k, s in enumerate(dative) for f in ('std', 'link8')]
    cases = ck.select('after-edits', cases)
    if cases:
        res = vlib.pmap('checks.c06', 'observe_edits', cases)
        recs, cs = [], []
        for c, lst in zip(cases, res):
            if isinstance(lst, dict):
                raise vlib.Machinery(lst.get('_observer_error', '') + lst.get('_tb', ''))
            for q, r in enumerate(lst):
                if 'skip' in r or 'exc' in r:
                    ck.ood('skipped-or-raised:' + str(r.get('exc', r.get('skip'))))
                    continue
                recs.append(r)
                cs.append(dict(c, key=f'{c["key"]}#{q}'))
        res = ck.validate('after-edits', 'Trace_C06', cs, recs)
        ck.ood('theta-gap-or-dense-cage', res['out'].count('"INFO"'))
    # (d) the repository's ring test set
    f = os.path.join(chy.REPO, 'test', 'cycle.sdf')
    if os.path.exists(f) and ck.want('repo-file') and not ck.replay:
        recs = observe_sdf({'file': f, 'rs': ck.seed})
        cs = [{'key': f'cycle.sdf#{k}'} for k in range(len(recs))]
        res = ck.validate('repo-file', 'Trace_C06', cs, recs)
        ck.ood('theta-gap-or-dense-cage', res['out'].count('"INFO"'))
    ck.assumptions += ['minimality and the size multiset are claimed outside the two recorded gaps (three chains of >= 3 bonds between two branch atoms; dense cages), evaluated by TLC']
    return ck.finish(rule='one case = one molecule / graph (with a renumbered rebuild); distinct by graph / text / seed',
                     trusted=['TLC', 'spec/core/Rings.tla (Horton candidates + greedy GF(2) elimination)'])
