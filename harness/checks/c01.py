"""C01 - canonical SMILES, equality and hash depend on the structure only.

code -> spec: for a base molecule, structure-preserving actions (renumber, copy, re-insertion through the API, respelling by the
library's random-order writer and by RDKit, normalisation) and structure-changing actions (bump one attribute, invert one
centre) are applied; base / variant projections with the explicit bijection are recorded; TLC (Trace_C01) verifies that the
variant is what the action claims and then evaluates the property clauses.  Exhaustive: all labelled graphs up to 4 atoms
(= all numberings of every small structure) - canonical string classes must coincide with isomorphism classes (Trace_Canon).
"""
import itertools
import random

import chy
import vlib


def full_projection(m, rings=False):
    order = list(m._atoms)
    idx = {n: i + 1 for i, n in enumerate(order)}
    atoms = [{'n': n, 'z': a.atomic_number, 'c': a._charge, 'i': a._isotope or 0, 'h': chy.ival(a._implicit_hydrogens),
              'r': 1 if a._is_radical else 0, 'p': chy.parity(m, n, idx)} for n, a in m._atoms.items()]
    bonds = sorted([min(idx[n], idx[k]), max(idx[n], idx[k]), int(b._order)] for n, k, b in m.bonds())
    d = {'atoms': atoms, 'bonds': bonds, 'ct': chy.cistrans(m, idx) + chy.axial(m, idx)}
    if rings:
        d['rings'] = [[idx[x] for x in r] for r in m.sssr]
    return d, idx


def allene_or_other_stereo(m, cumulenes=False):
    """stereo marks the projection does not represent: such molecules are skipped.  With cumulenes=True (C01, where configuration is
    only compared between two projections) allene and cumulene marks count as represented (chy.axial)."""
    idx = {n: i + 1 for i, n in enumerate(m._atoms)}
    ax = chy.axial(m, idx) if cumulenes else []
    nodd = sum(1 for n, a in m._atoms.items() if a._stereo is not None and chy.parity(m, n, idx) == 2)
    nct = sum(1 for *_, b in m.bonds() if b._stereo is not None)
    return nodd + nct != len(chy.cistrans(m, idx)) + len(ax)


def normal(m):
    m.kekule()
    m.thiele()
    return m


def variants(m, rnd, nrand, nren=1):
    """yield (action, variant molecule, {base atom number: variant atom number})"""
    from chython import smiles, MoleculeContainer
    ident = {n: n for n in m._atoms}
    # renumber
    nums = list(m._atoms)
    for _ in range(nren):
        new = nums[:]
        rnd.shuffle(new)
        mp = dict(zip(nums, [x + 1000 for x in new]))
        v = m.copy()
        v.remap(mp)
        v.remap({k: k - 1000 for k in v._atoms})
        yield 'renumber', v, {n: mp[n] - 1000 for n in nums}
    yield 'copy', m.copy(), ident
    # the same molecule after calls that end in a stereo re-perception (what they cache must not change its identity)
    v = m.copy()
    v.kekule()           # hydrogens of aromatic atoms cannot be recomputed by the transaction exit
    with v:
        pass
    v.thiele()
    yield 'empty-transaction', v, ident
    v = m.copy()
    try:
        v.canonicalize(fix_tautomers=False)
        if len(v) == len(m):
            yield 'canonicalized-copy', v, ident
    except Exception:
        pass
    if m.connected_components_count == 1:
        yield 'substructure-of-everything', m.substructure(list(m._atoms), recalculate_hydrogens=False), ident
    # respell: the library's writers, atom maps carry the bijection
    for k in range(nrand):
        random.seed(rnd.randrange(1 << 30))
        text = format(m, rnd.choice(['mr', 'mra', 'mrh']))
        yield 'respell-random', normal(smiles(text)), ident
    yield 'respell-canonical-mapped', normal(smiles(format(m, 'm'))), ident
    yield 'respell-aromatic-bonds', normal(smiles(format(m, 'mA'))), ident
    k = m.copy()
    k.kekule()
    yield 'respell-kekule', normal(smiles(format(k, 'mr'))), ident
    # another toolkit's spelling
    try:
        from rdkit import Chem, RDLogger
        RDLogger.DisableLog('rdApp.*')
        rd = Chem.MolFromSmiles(format(m, 'm'))
        if rd is not None:
            for k in range(max(1, nrand // 2)):
                text = Chem.MolToSmiles(rd, doRandom=True)
                yield 'respell-rdkit-random', normal(smiles(text)), ident
            yield 'respell-rdkit-canonical', normal(smiles(Chem.MolToSmiles(rd))), ident
            yield 'respell-rdkit-kekule', normal(smiles(Chem.MolToSmiles(rd, kekuleSmiles=True))), ident
    except ImportError:
        pass


def bumps(m, rnd):
    """structure-changing variants: (action, variant)"""
    from chython import smiles
    nums = list(m._atoms)
    n = rnd.choice(nums)
    v = m.copy()
    with v:
        v.atom(n).charge = 1 if v.atom(n).charge <= 0 else v.atom(n).charge - 1
    yield 'bump-charge', v
    v = m.copy()
    with v:
        v.atom(n).is_radical = not v.atom(n).is_radical
    yield 'bump-radical', v
    iso = {6: 13, 7: 15, 8: 18, 1: 2, 16: 34, 17: 37, 9: 18, 35: 81, 15: 32, 5: 10, 53: 125}
    cands = [x for x in nums if m._atoms[x].atomic_number in iso and not m._atoms[x]._isotope]
    if cands:
        x = rnd.choice(cands)
        v = m.copy()
        with v:
            v.atom(x).isotope = iso[m._atoms[x].atomic_number]
        yield 'bump-isotope', v
    singles = [(a, b) for a, b, bd in m.bonds() if bd._order == 1]
    if singles:
        a, b = rnd.choice(singles)
        v = m.copy()
        v.delete_bond(a, b)
        v.add_bond(a, b, 2)
        yield 'bump-order', v


def mirror(m, rnd):
    from chython import smiles
    import re
    text = format(m, 'm')
    marks = [x for x in re.finditer(r'@@|@', text)]
    if not marks:
        return
    x = rnd.choice(marks)
    new = text[:x.start()] + ('@' if x.group() == '@@' else '@@') + text[x.end():]
    yield 'mirror', normal(smiles(new))


def observe(case):
    from chython import smiles
    rnd = random.Random(case['rs'])
    try:
        m = normal(smiles(case['smi']))
    except Exception as e:
        return [{'skip': type(e).__name__}]
    if allene_or_other_stereo(m, cumulenes=True):
        return [{'skip': 'stereo-not-represented'}]
    g, gidx = full_projection(m, rings=True)
    sg = str(m)
    out = []

    def rec(kind, act, v, mp):
        if allene_or_other_stereo(v, cumulenes=True):
            return
        h, hidx = full_projection(v)
        f = [hidx[mp[n]] for n in m._atoms] if mp is not None and len(v) == len(m) and all(mp[n] in hidx for n in m._atoms) else list(range(1, len(v) + 1))
        out.append({'kind': kind, 'act': act, 'g': g, 'h': h, 'f': f, 'sg': sg, 'sh': str(v), 'eq': 1 if m == v else 0,
                    'heq': 1 if hash(m) == hash(v) else 0, 'smi': case['smi']})
    for act, v, mp in variants(m, rnd, case['nrand'], case.get('nren', 1)):
        rec('same', act, v, mp)
    for act, v in bumps(m, rnd):
        rec('bump', act, v, {n: n for n in m._atoms})
    for act, v in mirror(m, rnd):
        rec('mirror', act, v, {n: n for n in m._atoms})
    return out


# ---------------------------------------------------------------------------------------------- exhaustive small graphs
def small_case(case):
    """all labelled graphs with n atoms over the element alphabet and bond orders none/1/2: canonical strings"""
    from chython import MoleculeContainer
    n, elems = case['n'], case['elems']
    pairs = list(itertools.combinations(range(1, n + 1), 2))
    out = []
    for zs in itertools.product(elems, repeat=n):
        for orders in itertools.product((0, 1, 2), repeat=len(pairs)):
            deg = [0] * (n + 1)
            for (a, b), o in zip(pairs, orders):
                deg[a] += o
                deg[b] += o
            if any(deg[k + 1] > {6: 4, 7: 3, 8: 2}[zs[k]] for k in range(n)):
                continue
            m = MoleculeContainer()
            for k, z in enumerate(zs, 1):
                m.add_atom(z, k)
            for (a, b), o in zip(pairs, orders):
                if o:
                    m.add_bond(a, b, o)
            out.append({'z': list(zs), 'b': [[a, b, o] for (a, b), o in zip(pairs, orders) if o], 's': str(m), 'hash': hash(m) & 0xffff})
    return out


def iso_key(r):
    """the integer code of Trace_Canon.tla (used only to present the records in key order)"""
    n = len(r['z'])
    pidx = {}
    for a, b in itertools.combinations(range(1, 6), 2):
        pidx[(a, b)] = {1: b - 2, 2: 2 + b, 3: 4 + b, 4: 9}[a]
    zd = {6: 1, 7: 2, 8: 0}
    best = None
    for perm in itertools.permutations(range(1, n + 1)):
        f = dict(zip(range(1, n + 1), perm))
        code = n + 6 * (sum(zd[r['z'][a - 1]] * 3 ** (f[a] - 1) for a in range(1, n + 1)) +
                        243 * sum(o * 3 ** pidx[tuple(sorted((f[a], f[b])))] for a, b, o in r['b']))
        best = code if best is None or code < best else best
    return best


def run(ck):
    corp = chy.corpus()
    rnd = random.Random(ck.seed)
    sel = chy.pick(corp, 150 if ck.quick else 1500, ck.seed)
    extra = ['c1cc2ccc3ccc4ccc5ccc6ccc1c1c2c3c4c5c61', 'OC1CCC2(CC1)CCC(O)CC2', 'CC1(C)CCC2(CC1)CCC(C)(C)CC2', 'Oc1cc2c(cc1O)c1cc(O)c(O)cc1c1cc(O)c(O)cc21', 'OC1CCC2(CC1)CCC(N)CC2', 'C1CC2(CCC1)CCC1(CC2)CCCCC1', '[2H][C@](C)(O)F', 'C[C@@]([2H])(O)F', 'F[C@]([2H])(Cl)C', '[2H][C@]1(C)CCCO1', 'N[C@@]([2H])(C)C(O)=O', '[3H][C@](C)(N)C(=O)O', 'C[C@]([2H])(O)[C@@]([2H])(C)O', 'C\\1=C=C(~C/1)=C\\C', 'C\\1=C=C(~C/1)=C\\C.C/1=C=C(~C/1)=C\\C', 'C[C@H](N)O', 'N[C@@H](C)C(=O)O', 'F/C=C/F', 'C/C=C\\C', 'C[C@H](O)[C@@H](N)C', 'OC(=O)[C@H](O)[C@@H](O)C(=O)O', 'OC(=O)[C@H](O)[C@H](O)C(=O)O',
             'C[C@H]1CC[C@@H](C)CC1', 'C1CC1', 'C12C3C1C23', 'C12C3C4C1C5C2C3C45', 'c1ccccc1', 'c1ccc2ccccc2c1', '[Na+].[Cl-]', 'CC(=O)[O-].[NH4+]', '[13CH3]C',
             'C[N+](C)(C)C', 'C[CH2]', '[O-][N+](=O)c1ccccc1', 'O=C1C=CC(=O)C=C1', 'C1CCC2(CC1)CCCCC2', 'CC(C)(C)c1ccc(O)cc1', 'FC(F)(F)C(F)(F)F',
             'C/C=C/C=C/C', 'C/C=C(/C)C(C)=O', 'CC[C@](C)(N)O', 'C[S@](=O)CC', 'c1ccc(cc1)-c1ccccc1', 'C1=CC=CC=C1', 'c1cc[nH]c1', 'c1cnc[nH]1', 'Cc1ncc[nH]1',
             'O=c1cc[nH]cc1', 'OC1=CC=NC=C1', 'c1ccc2c(c1)c1ccccc21', 'c1ccc2c(c1)-c1ccccc1-2', 'c1ccc2c(c1)c1ccccc1c1ccccc21', 'c1ccc2cc3ccccc3cc2c1', 'c1ccc2c(c1)ccc1ccccc12', 'C1CCC2CCCCC2C1',
             'c1ccc2c(c1)Cc1ccccc1-2', 'c1cc2ccc3cccc4ccc(c1)c2c34', 'C1C2CC3CC1CC(C2)C3', 'C12C3C4C1C5C2C3C45', 'c1ccc(cc1)-c1ccc(cc1)-c1ccccc1', 'C1CC2CCC1C2', 'C1CCC2(CC1)OCCO2',
             'C/C(F)=C/O/C=C(\\C)F', 'C/C(F)=C/Cl.C/C(F)=C\\Cl', 'C/C(F)=C/Cl.C/C(F)=C/Cl', 'CC(C)=CCC/C(C)=C/CC/C(C)=C/CC/C=C(\\C)CC/C=C(\\C)CCC=C(C)C',
             'C/C(N)=C/CC/C=C(/C)N', 'F/C(Cl)=C/C/C=C(/F)Cl', 'F/C(Cl)=C/C/C=C(\\F)Cl', 'O/N=C(/C)CC/C(C)=N/O', 'O/N=C(/C)CC/C(C)=N\\O', 'C1=CC=C1', 'C1=CC=CC=CC=C1', 'C1=CC=CC=CC=CC=CC=C1', 'C1=CC2=CC=C1C=C2', 'N1=CC=NC=C1', 'C1=CC=NC=CC=N1', 'C1CC2CCC1C2', 'C1CC2CCC1CC2', 'FC(Cl)=[C@]=C(Br)I', 'FC(Cl)=[C@@]=C(Br)I', 'FC=[C@]=CCl', 'CC=[C@@]=CF', 'CC(F)=[C@]=C(C)CC', 'C/C=C=C=C/C', 'C/C=C=C=C\\C', 'F/C(Cl)=C=C=C(/Br)I',
             'CC=[C@]=C=C=CC', 'C[C@H](O)C=[C@@]=CC', '[12CH3]C', '[12CH3]CC', 'O[12CH2]CO', '[16OH]CCO', '[14NH2]CCN', '[12cH]1ccccc1', '[1H]C([1H])C', 'C[12CH2]C.[13CH4]', 'O[C@H](c1ccccc1)[C@@H](O)c1ccccc1', 'C[C@H](c1ccccc1)[C@@H](C)c1ccccc1',
             'O[C@H](c1ccccc1)[C@H](O)c1ccccc1', 'OC(=O)[C@H](O)[C@@H](O)C(=O)O', 'C[C@H](O)c1ccc(cc1)[C@@H](C)O', 'C(C[C@H](F)Cl)(C[C@H](F)Cl)C[C@@H](F)Cl', 'N(C[C@H](F)Cl)(C[C@H](F)Cl)C[C@@H](F)Cl', 'C(C/C=C/F)(C/C=C/F)C/C=C\\F',
             'C(CC(F)=[C@]=CCl)(CC(F)=[C@]=CCl)CC(F)=[C@@]=CCl', 'C[C@H](F)C([C@H](C)F)([C@@H](C)F)[C@@H](C)F', 'F[C@H](Cl)C[C@@H](F)Cl', 'C(C[C@H](F)Cl)(C[C@H](F)Cl)C[C@H](F)Cl', 'CC=[C@]=CC/C=C/C', 'C1CCCC=[C@]=CCCC1', 'C[Fe]C', '[Fe+2].[O-]C=O.[O-]C=O', 'CC(C)C[C@H](N)C(=O)N[C@@H](C)C(O)=O']
    cases = [{'key': s, 'smi': s, 'rs': rnd.randrange(1 << 30), 'nrand': 3 if ck.quick else 6} for s in sel] + \
            [{'key': s, 'smi': s, 'rs': rnd.randrange(1 << 30), 'nrand': 6 if ck.quick else 20, 'nren': 10 if ck.quick else 40} for s in extra]
    cases = ck.select('actions', cases)
    if cases:
        res = vlib.pmap('checks.c01', 'observe', cases)
        recs, rcases = [], []
        for c, lst in zip(cases, res):
            if isinstance(lst, dict):
                raise vlib.Machinery(f'observer failed on {c["key"]}: {lst.get("_observer_error")}\n{lst.get("_tb")}')
            for k, r in enumerate(lst):
                if 'skip' in r:
                    ck.ood('skipped:' + r['skip'])
                    continue
                recs.append(r)
                rcases.append({'key': f'{c["key"]}#{r["act"]}#{k}', 'smi': c['smi'], 'rs': c['rs'], 'nrand': c['nrand']})
        res = ck.validate('actions', 'Trace_C01', rcases, recs, nontrivial=lambda c: True)
        ck.ood('outside-C01-domain(symmetric centre / cage)', res['out'].count('"ood"'))
        ck.ood('respelling-read-back-is-not-the-same-structure(judged by C02)', res['out'].count('"notspelling"'))
        for r in recs:
            ck.count(r['kind'] + ':' + r['act'])
    # exhaustive: every labelled graph on <= n atoms
    specs = [(2, [6, 7, 8]), (3, [6, 7, 8])] + ([(4, [6, 8])] if ck.quick else [(4, [6, 7, 8]), (5, [6])])
    if ck.want('exhaustive') and not ck.replay:
        allrec = []
        for n, elems in specs:
            allrec += small_case({'n': n, 'elems': elems})
        data = sorted(allrec, key=lambda r: (iso_key(r), r['s']))   # ordering hint only: TLC recomputes the keys and checks the order
        cs = [{'key': f'graph:{r["z"]}:{r["b"]}'} for r in data]
        ck.validate('exhaustive-small-graphs', 'Trace_Canon', cs, data, cfg='CONSTANT CH = 1\nINIT Init\nNEXT Next\nCONSTRAINT Report\nCHECK_DEADLOCK FALSE\n', workers=4)
        ck.exhaustive['exhaustive-small-graphs'] = True
        ck.notes['small-graphs'] = {'specs': specs, 'labelled_graphs': len(data), 'distinct_strings': len({r['s'] for r in data})}
    ck.assumptions += ['allene / cumulene marks are not represented in the projection: molecules carrying them are skipped (counted)',
                       'aromaticity is normalised (kekule + thiele) before comparison, as the property states']
    return ck.finish(rule='one case = (base molecule, action); distinct by (molecule, action, index)',
                     trusted=['TLC', 'spec/core/{Graphs,Sym,Stereo}.tla', 'harness projection; RDKit only as a second writer'])
