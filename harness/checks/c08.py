"""C08 - SMARTS primitives and query atoms match exactly what is documented.

parsing side  every bracket body / bond token generated from the documented subset grammar (spec/lang/Smarts.tla parses it
              independently) must be accepted and give the same query atom / bond; unsupported SMARTS must raise IncorrectSmarts.
matching side one- and two-atom queries for every primitive and pairs of primitives against corpus / special targets: TLC
              (Trace_C07 + Match.tla) derives the atom attributes itself from recorded bonds and the reported ring basis.
"""
import itertools
import random

import chy
import qproj
import vlib
from vlib import chars

ELEMS = ['C', 'N', 'O', 'S', 'Cl', 'Fe', 'A', 'M', 'C,N', 'O,S,N', '#6', '#7,#8', 'Cl,Br,I', 'Na,K']
PRIMS = ['D1', 'D2', 'D3', 'D1,D2', 'D2,D3,D4', 'h0', 'h1', 'h1,h2', 'h3', 'r5', 'r6', 'r5,r6', 'r3', '!R', 'a', 'x0', 'x1', 'x2', 'x1,x2', 'z1', 'z2', 'z3', 'z4', 'z2,z4',
         '+', '-', '+2', '-2', '++', '@', '@@', 'M', 'A']
UNSUPPORTED = ['[C;v4]', '[C;X3]', '[C;R2]', '[C;H1]', '[C;D]', '[C;D2,h1]', '[C;q]', '[;D2]', '[C;Dx]', '[C;$(CC)]', '[C;!D2]', 'C,=;@C', 'C!!C', 'C-,C', 'C,C',
               'C;;C', 'C-;C', 'C-;!!@C', 'C!~C', '[C;r]', '[C;r2x]', 'C!C']
SPECIAL_TARGETS = ['[Na+].[Cl-]', 'C[Fe]C', 'c1ccccc1O', 'C1CC1C2CCCCC2', 'CC(=O)[O-]', 'C[N+](C)(C)C', '[13CH4]', 'C[CH2]', 'C#N', 'C=C=C', 'c1cc[nH]c1', 'OS(=O)(=O)O',
                   'C1CCCCCCCCCCC1', 'FC(F)(F)Cl', 'N[C@@H](C)C(=O)O', 'C[Zn]C', '[Cu+2]', 'CB(O)O', 'C~C'.replace('~', '-'), 'C1CC12CC2']


def parse_atom(case):
    from chython import smarts
    from chython.exceptions import IncorrectSmarts
    body = case['body']
    rec = {'kind': 'atom', 'body': chars(body), 'cls': case['cls'], 'out': 'ok',
           'q': {'kind': '', 'zs': [], 'i': 0, 'c': 0, 'r': 0, 'nb': [], 'hyb': [], 'rs': [], 'hs': [], 'het': [], 'masked': 0, 'st': 0, 'n': 0}}
    try:
        q = smarts('[' + body + ']')
    except IncorrectSmarts:
        rec['out'] = 'IncorrectSmarts'
    except ValueError as e:
        rec['out'] = 'valueerror'
    except Exception as e:
        rec['out'] = 'foreign'
    else:
        p, idx = qproj.pattern_of_query(q)
        a = p['atoms'][0]
        a['n'] = next(iter(q._atoms))
        rec['q'] = a
    return rec


def parse_text(case):
    """a full SMARTS text classified unsupported, or a two-atom text with a bond token"""
    from chython import smarts
    from chython.exceptions import IncorrectSmarts
    rec = {'kind': 'bond', 'tok': chars(case.get('tok', '')), 'cls': case['cls'], 'out': 'ok', 'orders': [], 'inring': -1}
    try:
        q = smarts(case['text'])
    except IncorrectSmarts:
        rec['out'] = 'IncorrectSmarts'
    except ValueError:
        rec['out'] = 'valueerror'
    except Exception:
        rec['out'] = 'foreign'
    else:
        bs = list(q.bonds())
        if len(bs) == 1:
            b = bs[0][2]
            rec['orders'] = sorted(b.order)
            rec['inring'] = -1 if b.in_ring is None else (1 if b.in_ring else 0)
    return rec


def bodies(rnd, quick):
    out = []
    for e in ELEMS:
        out.append(e)
        for p in PRIMS:
            out.append(f'{e};{p}')
        for p1, p2 in itertools.combinations(PRIMS, 2):
            if p1[0] == p2[0] and p1[0] in 'Dhrxz+-@' or {p1[0], p2[0]} <= {'+', '-'} or {p1, p2} <= {'a', 'z1', 'z2', 'z3', 'z4', 'z2,z4'} or {p1[0], p2[0]} <= {'r', '!'}:
                continue       # the same primitive twice: later one wins in the code, not part of the documented subset
            if quick and rnd.random() > .25:
                continue
            out.append(f'{e};{p1};{p2}')
    out += ['13C', '13C;D2', '2H', 'C-', 'N+', 'O-;D1', 'C@', 'C@@;h1', 'C:1', 'C;D2:7', 'C,N;h1:12', 'A;M', 'A;M:3', 'C;h1,h2;z2,z4', 'C;r5,r6;a', 'N;D2;z3;x2', 'S;D4;z3:1',
            'O;D1:2', 'N;D1,D2;z2:3', '35Cl', 'Cl;D1', 'Br,I;D1', 'M;D2', 'M;z1', 'A;!R;D2;h2', 'C;@;h1:1']
    return sorted(set(out))


def match_case(case):
    from chython import smiles, smarts
    try:
        t = smiles(case['t'])
        if not case.get('asis'):      # 'asis': the molecule as the reader leaves an aromatic spelling (bond storage order of the text)
            t.kekule()
            if case.get('thiele'):
                t.thiele()
    except Exception as e:
        return {'skip': 1}
    q = smarts(case['q'])
    order = list(q._atoms)
    pp, pidx = qproj.pattern_of_query(q, order)       # the pattern is what the text says (projected before any copying)
    if case.get('copy'):       # a copy of the query (and a copy of that) must ask for the same thing
        q = q.copy().copy()
    tp, tidx = qproj.target_of(t)
    maps = [[tidx[mp[n]] for n in order] for mp in q.get_mapping(t, automorphism_filter=False)]
    return {'p': pp, 't': tp, 'scope': [], 'filter': 0, 'maps': maps, 'sub': 9, 'lt': 9, 'le': 9, 'eq': 9}


def api_case(case):
    """a one- or two-atom query built through the query API; the pattern handed to TLC is what was requested, not what the object stores"""
    from chython import smiles
    from chython.containers import QueryContainer
    from chython.periodictable import QueryElement, AnyElement, ListElement
    try:
        t = smiles(case['t'])
        t.kekule()
    except Exception:
        return {'skip': 1}

    def source(spec):
        s = smiles(spec['src'])
        s.kekule()
        if spec.get('thiele'):
            s.thiele()
        return s, list(s._atoms)[spec['atom']]

    def build(spec):
        if spec['kind'] == 'from_atom':      # QueryElement.from_atom(atom, <flags>): the atom's own attributes are the request
            s, n = source(spec)
            return QueryElement.from_atom(s.atom(n), **{f: True for f in spec['flags']})
        kw = {k: v for k, v in spec['kw'].items()}
        setter = spec.get('setter')
        if setter:
            late = {setter: kw.pop(setter)}
        if spec['kind'] == 'elem':
            a = QueryElement.from_atomic_number(spec['zs'][0])(**kw)
        elif spec['kind'] == 'any':
            a = AnyElement(**kw)
        else:
            from chython.periodictable import Element
            a = ListElement([Element.from_atomic_number(z).__name__ for z in spec['zs']], **kw)
        if setter:
            setattr(a, setter, late[setter])
        return a

    def want(spec):
        def lst(v):
            return [] if v is None else (list(v) if isinstance(v, (list, tuple)) else [v])
        if spec['kind'] == 'from_atom':
            s, n = source(spec)
            nbrs = s._bonds[n]
            orders = [int(b._order) for b in nbrs.values()]
            hyb = 4 if 4 in orders else 3 if 3 in orders or orders.count(2) >= 2 else 2 if 2 in orders else 1
            fl = spec['flags']
            a = s._atoms[n]
            return {'kind': 'elem', 'zs': [a.atomic_number], 'i': a._isotope or 0, 'c': a._charge, 'r': 1 if a._is_radical else 0,
                    'nb': [sum(1 for x in nbrs if s._atoms[x].atomic_number != 1)] if 'neighbors' in fl else [],
                    'hyb': [hyb] if 'hybridization' in fl else [],
                    'rs': sorted({len(r) for r in s.sssr if n in r}) if 'ring_sizes' in fl else [],
                    'hs': [a._implicit_hydrogens] if 'hydrogens' in fl and a._implicit_hydrogens is not None else [],
                    'het': [sum(1 for x in nbrs if s._atoms[x].atomic_number not in (1, 6))] if 'heteroatoms' in fl else [], 'masked': 0, 'st': 2}
        kw = spec['kw']
        return {'kind': spec['kind'], 'zs': sorted(spec['zs']), 'i': 0, 'c': kw.get('charge', 0), 'r': 0, 'nb': lst(kw.get('neighbors')), 'hyb': lst(kw.get('hybridization')),
                'rs': [], 'hs': lst(kw.get('implicit_hydrogens')), 'het': lst(kw.get('heteroatoms')), 'masked': 0, 'st': 2}
    q = QueryContainer('api')
    for spec in case['atoms']:
        q.add_atom(build(spec))
    pp = {'atoms': [want(spec) for spec in case['atoms']], 'bonds': []}
    if len(case['atoms']) == 2:
        q.add_bond(1, 2, case['order'])
        pp['bonds'] = [[1, 2, [case['order']], -1]]
    tp, tidx = qproj.target_of(t)
    order = list(q._atoms)
    try:
        maps, exc = [[tidx[mp[n]] for n in order] for mp in q.get_mapping(t, automorphism_filter=False)], ''
    except Exception as e:       # a query the API accepted must be searchable
        maps, exc = [], type(e).__name__
    return {'p': pp, 't': tp, 'scope': [], 'filter': 0, 'maps': maps, 'sub': 9, 'lt': 9, 'le': 9, 'eq': 9, 'exc': exc}


def smarts_of_shape(smi):
    """SMILES-shaped text -> SMARTS with the same marks: primitives go after the element ([C@H] -> [C;@;h1])"""
    import re

    def rep(m):
        mm = re.match(r'(\d*)([A-Za-z][a-z]?)(@@|@)?(H\d?)?(.*)', m.group(1))
        iso, sym, ch, h, rest = mm.groups()
        parts = [iso + sym]
        if ch:
            parts.append(ch)
        if h:
            parts.append('h' + (h[1:] or '1'))
        return '[' + ';'.join(parts) + rest + ']'
    return re.sub(r'\[([^\]]+)\]', rep, smi)


def stereo_case(case):
    from chython import smiles, smarts
    rnd = random.Random(case['rs'])
    try:
        t = smiles(case['t'])
        if case.get('renumber'):
            t, _ = chy.renumbered(t, rnd) if False else (t, None)
            nums = list(t._atoms)
            new = nums[:]
            rnd.shuffle(new)
            t.remap({n: n + 1000 for n in nums})
            t.remap({n + 1000: k for n, k in zip(nums, new)})
        q = smarts(smarts_of_shape(case['shape']))
    except Exception as e:
        return {'skip': type(e).__name__}
    order = list(q._atoms)
    pp, pidx = qproj.pattern_of_query(q, order)
    for a in pp['atoms']:
        a['st'] = 0      # the unmarked pattern: what the marks mean is the specification's business
    tp, tidx = qproj.target_of(t)
    tp['par'] = [chy.parity(t, n, tidx) for n in t._atoms]
    tp['ct'] = chy.cistrans(t, tidx)
    exc = ''
    try:
        maps = [[tidx[mp[n]] for n in order] for mp in q.get_mapping(t, automorphism_filter=False)]
    except Exception as e:
        maps, exc = [], type(e).__name__
    return {'sp': list(case['shape']), 'p': pp, 't': tp, 'maps': maps, 'exc': exc}


def run(ck):
    rnd = random.Random(ck.seed)
    bl = bodies(rnd, ck.quick)
    def cls(b):        # any-metal atoms take only D / z / M primitives
        parts = b.split(';')
        if parts[0] == 'M' and any(p[0] in 'hrx+-@!' for p in parts[1:]):
            return 'unsupported'
        return 'subset'
    cases = [{'key': 'atom:' + b, 'body': b, 'cls': cls(b)} for b in bl]
    cases = ck.select('atom-bodies', cases)
    if cases:
        recs = vlib.pmap('checks.c08', 'parse_atom', cases)
        ck.validate('atom-bodies', 'Trace_C08', cases, recs)
    toks = ['-', '=', '#', ':', '~', '-,=', '=,#', '-,:', '=,:', '!:', '!-', '!=', '!#', '-;@', '-;!@', '=;@', '=;!@', '-,=;@', '-,=;!@', '!:;@', '!:;!@', '~;@', ':;@', '#;!@']
    bc = [{'key': 'bond:' + t, 'tok': t, 'text': f'C{t}C', 'cls': 'subset'} for t in toks]
    bc += [{'key': 'unsupported:' + t, 'tok': '', 'text': t, 'cls': 'unsupported'} for t in UNSUPPORTED]
    bc = ck.select('bond-tokens-and-unsupported', bc)
    if bc:
        recs = vlib.pmap('checks.c08', 'parse_text', bc)
        ck.validate('bond-tokens-and-unsupported', 'Trace_C08', bc, recs)
    # matching side
    corp = [s for s in chy.corpus() if len(s) <= 60]
    targets = chy.pick(corp, 40 if ck.quick else 500, ck.seed) + SPECIAL_TARGETS
    queries = ['[' + b + ']' for b in bl if '@' not in b and ':' not in b and cls(b) == 'subset']
    two = [f'[C,N,O]{t}[C,N,O,S]' for t in toks] + [f'[A]{t}[A]' for t in toks]
    mc = []
    for k, t in enumerate(targets):
        for q in rnd.sample(queries, 25 if ck.quick else 80) + rnd.sample(two, 6 if ck.quick else 20):
            mc.append({'key': f'{q}|{t}', 'q': q, 't': t, 'thiele': k % 2 == 0})
    # element classes against the whole table: every element as a lone atom and as X(C)C (quick: every third element and the class borders)
    from chython.periodictable import Element
    border = {1, 2, 3, 4, 5, 10, 13, 14, 31, 32, 33, 34, 35, 36, 43, 50, 51, 52, 53, 54, 83, 84, 85, 86, 87, 113, 116, 117, 118}
    for z in range(1, 119):
        if ck.quick and z % 3 and z not in border:
            continue
        sym = Element.from_atomic_number(z)().atomic_symbol
        for t in (f'[{sym}]', f'C[{sym}]C'):
            for q in ('[M]', '[A]', '[M;D2]', '[M,Se]'.replace('[M,Se]', '[Se,Tc,Ge,Sn]'), f'[{sym}]'):
                mc.append({'key': f'{q}|{t}', 'q': q, 't': t, 'thiele': False})
    # copied queries: bond marks with the value "no" (not in a ring) must survive the copy
    for t in ['C1CC1C2CCCCC2', 'c1ccccc1-c1ccccc1', 'C1CCC1CC', 'CC(=O)OC1CCCC1', 'C1CC2CCC1C2']:
        for q in two[:12] + ['C-;!@C', 'C-;@C', '[C;r3]-;!@[C;r6]', '[A]-;!@[A]', '[A]=,-;!@[A]']:
            mc.append({'key': f'{q}|{t}|copied', 'q': q, 't': t, 'thiele': False, 'copy': True})
    # aromatic spellings taken as the reader leaves them (exocyclic double bonds written before / after the ring bonds of their atom)
    for t in ['c1ccc[nH]c1=O', 'n1ccccc1=O', 'O=c1cccc[nH]1', 'c1cc(=O)cco1', 'O=c1ccocc1', 'c1cc(=S)cc[nH]1', 'Cn1ccccc1=O', 'c1ccc2c(c1)[nH]c(=O)[nH]2', 'O=c1[nH]cccn1', 'c1cnc(=O)[nH]c1']:
        for q in ('[C;a]', '[C;z4]', '[C;z2]', '[C;z4]=O', '[C;a]=[O,S]', '[C;z2]=O', '[N;a]', '[N;z4;h1]', '[O,S;z2]'):
            mc.append({'key': f'{q}|{t}|asis', 'q': q, 't': t, 'asis': True})
    mc = ck.select('matching', mc)
    if mc:
        res = vlib.pmap('checks.c08', 'match_case', mc)
        for r in res:
            if '_observer_error' in r:
                raise vlib.Machinery(r['_observer_error'] + r['_tb'])
        keep = [(c, r) for c, r in zip(mc, res) if 'skip' not in r and len(r['t']['atoms']) <= 70]
        ck.validate('matching', 'Trace_C07', [c for c, _ in keep], [r for _, r in keep])
        ck.count('query-target-pairs', len(keep))
        ck.count('atom-matches', sum(len(r['maps']) for _, r in keep))
    # stereo marks of queries
    shapes = ['ClC(/F)=C/F', 'ClC(\\F)=C/F', 'ClC(/F)=C(/Br)I', 'ClC(/F)=C(Br)/I', 'Cl/C(F)=C(Br)/I', 'FC(/Cl)=C/Br', 'F[C@](Cl)(Br)I', '[C@](F)(Cl)(Br)I', 'F[C@@](Cl)(Br)I', 'I[C@](F)(Cl)Br', 'F[C@H](Cl)Br', '[C@H](F)(Cl)Br', 'F[C@@H](Cl)Br', 'Cl[C@H](F)Br', 'F[C@](Cl)Br', '[C@](F)(Cl)Br', 'Br[C@@](F)Cl',
              'C[C@H](N)O', 'N[C@@H](C)C(=O)O', 'C[C@](N)(O)C', 'F/C=C/Cl', 'F/C=C\\Cl', 'F/C(Cl)=C/Br', 'Cl/C=C/C', 'C/C=C\\C', 'C/C=C/C', 'C(/F)=C/Cl', 'F\\C=C/Cl', 'C[C@H](O)/C=C/C', 'N[C@@H](C)C',
              'C[C@@H]1CCCO1', 'O[C@H]1CC[C@@H](O)CC1'.replace('[C@@H](O)', 'C(O)')]
    stargets = ['ClC(/F)=C/F', 'ClC(/F)=C\\F', 'Cl/C(F)=C(/Br)I', 'Cl/C(F)=C(\\Br)I', 'F[C@H](Cl)Br', 'F[C@@H](Cl)Br', 'F[C@](Cl)(Br)I', 'F[C@@](Cl)(Br)I', 'F[C@](Cl)(Br)C', 'F[C@@](Cl)(Br)C', 'I[C@](F)(Cl)Br', 'F/C=C/Cl', 'F/C=C\\Cl', 'F/C(Cl)=C/Br', 'F/C(Cl)=C\\Br', 'FC(Cl)Br',
                'C[C@H](N)O', 'C[C@@H](N)O', 'N[C@@H](C)C(=O)O', 'N[C@H](C)C(=O)O', 'C[C@](N)(O)CC', 'C[C@@](N)(O)CC', 'C/C=C\\C', 'C/C=C/C', 'CC=CC', 'C[C@H](O)/C=C/C', 'C[C@H](O)/C=C\\C', 'C[C@@H](O)/C=C/C',
                'C[C@@H]1CCCO1', 'C[C@H]1CCCO1', 'O[C@H]1CCC(O)CC1', 'Cl/C=C/C', 'Cl/C=C\\C', 'N[C@@H](C)CC', '[2H][C@](F)(Cl)Br', 'F[C@]([H])(Cl)Br']
    stereo_corp = [x for x in corp if ('@' in x or '/' in x) and len(x) < 50]
    sq = []
    for sh in shapes:
        for k, t in enumerate(stargets + chy.pick(stereo_corp, 6 if ck.quick else 60, ck.seed, 11)):
            for ren in (False, True):
                sq.append({'key': f'stereo|{sh}|{t}|{int(ren)}', 'shape': sh, 't': t, 'renumber': ren, 'rs': rnd.randrange(1 << 30)})
    sq = ck.select('stereo-queries', sq)
    if sq:
        res = vlib.pmap('checks.c08', 'stereo_case', sq)
        for r in res:
            if '_observer_error' in r:
                raise vlib.Machinery(r['_observer_error'] + r['_tb'])
        keep = [(c, r) for c, r in zip(sq, res) if 'skip' not in r]
        out = ck.validate('stereo-queries', 'Trace_StereoQuery', [c for c, _ in keep], [r for _, r in keep])
        if 'MACHINERY' in out['out']:
            raise vlib.Machinery('a SMILES-shaped pattern text is not readable by the reference reader')
        ck.count('stereo-query-matches', sum(len(r['maps']) for _, r in keep))
    # queries built through the API (scalars, lists, setters): the requested attributes are the specification
    ac = []
    # query atoms copied from molecule atoms with every combination of one flag, and with all of them
    flags = ['neighbors', 'hybridization', 'heteroatoms', 'hydrogens', 'ring_sizes']
    for src in ['CC1CC1O', 'c1ccccc1CN', 'C1CC12CCCC2', 'OC(=O)C#N', 'C1CC2CCC1C2', 'CC(C)=O', 'C[N+](C)(C)C', 'c1ccc2ccccc2c1']:
        from chython import smiles as _sm
        try:
            na = len(_sm(src))
        except Exception:
            continue
        for k in range(na):
            for fl in [[f] for f in flags] + [flags]:
                for t in (src, 'CC1CC1O.c1ccccc1CN', 'C1CC12CCCC2.OC(=O)C#N'):
                    ac.append({'key': f'from_atom|{src}|{k}|{"+".join(fl)}|{t}', 't': t, 'atoms': [{'kind': 'from_atom', 'src': src, 'atom': k, 'flags': fl, 'thiele': 'c' in src}]})
    apit = ['C', 'CC', 'CO', 'CC(C)(C)C', 'CC(=O)O', '[Na+].[Cl-]', 'O', 'N#N', 'FC(F)(F)F', 'CS(C)(=O)=O', 'OCCN', 'C=CC#N', 'ClCCl', 'CNC', '[NH4+].[OH-]']
    for t in apit:
        for name in ('neighbors', 'heteroatoms', 'implicit_hydrogens', 'hybridization'):
            for value in ((0, 1, 2, 3, 4, [0], [0, 1], [1, 2], [2, 3, 4]) if name != 'hybridization' else (1, 2, 3, [1, 2], [2, 3])):
                for kind, zs in (('elem', [6]), ('elem', [8]), ('any', []), ('list', [7, 8]), ('list', [6, 9, 17])):
                    for setter in (None, name):
                        if rnd.random() < (.12 if ck.quick else .6):
                            spec = {'kind': kind, 'zs': zs, 'kw': {name: value}}
                            if setter:
                                spec['setter'] = setter
                            ac.append({'key': f'api|{t}|{kind}{zs}|{name}={value}|{"set" if setter else "init"}', 't': t, 'atoms': [spec]})
        for o in (1, 2):
            ac.append({'key': f'api2|{t}|D0-{o}', 't': t, 'order': o, 'atoms': [{'kind': 'any', 'zs': [], 'kw': {'heteroatoms': 0}}, {'kind': 'list', 'zs': [6, 7, 8], 'kw': {'implicit_hydrogens': 0}}]})
    ac = ck.select('api-queries', ac)
    if ac:
        res = vlib.pmap('checks.c08', 'api_case', ac)
        for r in res:
            if '_observer_error' in r:
                raise vlib.Machinery(r['_observer_error'] + r['_tb'])
        keep = [(c, r) for c, r in zip(ac, res) if 'skip' not in r]
        ck.validate('api-queries', 'Trace_C07', [c for c, _ in keep], [r for _, r in keep])
    ck.assumptions += ['the documented subset is the grammar of spec/lang/Smarts.tla; giving the same primitive twice is outside it (unspecified)',
                       'query stereo marks are parsed (compared) but their matching is covered by C16 / C12']
    return ck.finish(rule='one case = one bracket body / bond token / (query, target) pair; distinct by text',
                     trusted=['TLC', 'spec/lang/Smarts.tla', 'spec/sys/Match.tla'])
