"""C03 - the SMILES reader builds exactly the molecule the text denotes and rejects the rest.

code -> spec: every string is given to chython.smiles; the outcome (molecule projection in text order, or exception class)
is recorded; TLC steps the reference reader spec/lang/SmilesRead.tla over the same characters and evaluates the
clauses of spec/trace/Trace_C03.tla.
"""
import itertools
import random

import chy
import tables
import vlib
from vlib import chars

S16 = 'CNOcnlBr()[]=#1.'
S26 = S16 + '-:/\\%20H+@'


def observe(case):
    from chython import smiles
    text = case['s']
    kind, val = chy.outcome(smiles, text)
    rec = {'s': chars(text), 'out': kind, 'atoms': [], 'bonds': [], 'ct': []}
    if kind != 'ok':
        rec['exc'] = val
        return rec
    m = val
    if not hasattr(m, '_atoms'):       # a reaction: handled by the Cx part
        rec['out'] = 'reaction'
        return rec
    idx = {n: i + 1 for i, n in enumerate(m._atoms)}
    mism = (m._meta or {}).get('chython_implicit_mismatch') or {}
    rec['atoms'] = [{'n': n, 'z': a.atomic_number, 'c': a._charge, 'i': a._isotope or 0, 'h': chy.ival(a._implicit_hydrogens),
                     'r': 1 if a._is_radical else 0, 'p': chy.parity(m, n, idx), 'hm': 1 if n in mism else 0}
                    for n, a in m._atoms.items()]
    rec['bonds'] = sorted([min(idx[n], idx[k]), max(idx[n], idx[k]), int(b._order)] for n, k, b in m.bonds())
    rec['ct'] = chy.cistrans(m, idx)
    return rec


def molproj(m):
    idx = {n: i + 1 for i, n in enumerate(m._atoms)}
    return {'atoms': [{'n': n, 'z': a.atomic_number, 'c': a._charge, 'i': a._isotope or 0, 'h': chy.ival(a._implicit_hydrogens),
                       'r': 1 if a._is_radical else 0, 'p': 2, 'hm': 0} for n, a in m._atoms.items()],
            'bonds': sorted([min(idx[n], idx[k]), max(idx[n], idx[k]), int(b._order)] for n, k, b in m.bonds()), 'ct': []}


def observe_line(case):
    """a whole input line: SMILES part, optional CXSMILES block"""
    from chython import smiles
    text = case['s']
    kind, val = chy.outcome(smiles, text)
    parts = text.split()
    rec = {'s': chars(parts[0]) if parts else [], 'cx': chars(parts[1]) if len(parts) > 1 else [], 'out': kind, 'rx': 0,
           'roles': [[], [], []]}
    if kind != 'ok':
        rec['exc'] = val
        return rec
    if hasattr(val, '_atoms'):
        rec['roles'] = [[molproj(val)], [], []]
    else:
        rec['rx'] = 1
        rec['roles'] = [[molproj(m) for m in val.reactants], [molproj(m) for m in val.reagents], [molproj(m) for m in val.products]]
    return rec


POOL = ['C', 'CC', 'O', 'N', 'CO', 'C=O', 'OC=O', 'CC(=O)O', '[Na+]', '[Cl-]', '[K+]', '[OH-]', 'C[O]', '[CH3]', 'C[CH2]', 'c1ccccc1', 'c1ccncc1', 'CCN(CC)CC',
        'ClCCl', 'BrC1CC1', 'C#N', '[NH4+]', 'OS(=O)(=O)O', 'CC(C)=O', 'C1CCOC1', 'Cc1ccccc1', '[Pd]', 'O=C(Cl)c1ccccc1', 'NCc1ccccc1', 'C[N+](C)(C)C', '[O-]C=O',
        '[13CH4]', 'F/C=C/F', 'C[C@H](N)O', '[CH2:1]=[CH2:2]', '[CH3:3][OH:4]',
        # ring-closure bond symbols at one digit, at both, and contradicting ones (the molecule reader and the reaction reader share the rule)
        'C=1CCCCC1', 'C1CCCCC=1', 'C=1CCCCC=1', 'C=1CCCCC-1', 'C#1CCCCCCC=1', 'c:1ccccc1', 'C-1CC1', 'C%10CC%10', 'C=%11CCCC%11']


def gen_lines(rnd, n):
    out = []
    for _ in range(n):
        kind = rnd.random()
        if kind < .25:       # molecule (possibly multi-component) with radicals
            mols = [rnd.choice(POOL) for _ in range(rnd.choice([1, 1, 2, 3]))]
            line = '.'.join(mols)
            roles = None
        else:
            cnt = [rnd.choice([0, 1, 1, 2, 3]) for _ in range(3)]
            if sum(cnt) == 0:
                cnt[rnd.randrange(3)] = 1
            roles = [[rnd.choice(POOL) for _ in range(c)] for c in cnt]
            line = '>'.join('.'.join(r) for r in roles)
            if rnd.random() < .06:
                line = line.replace('>', '', 1) if rnd.random() < .5 else line + '>C'
        natoms = sum(1 for ch in line if ch.isalpha() and ch.isupper() or ch in 'cnos') + 2   # rough upper bound
        cx = []
        mode = rnd.random()
        if mode < .35:
            k = rnd.choice([1, 1, 2, 3])
            idx = sorted(rnd.sample(range(max(1, natoms + (3 if rnd.random() < .15 else -2))), min(k, max(1, natoms - 2))))
            cx.append('^1:' + ','.join(map(str, idx)))
        elif mode < .6 and roles is not None:
            total = sum(len(r) for r in roles)
            groups = []
            base = 0
            for r in roles:
                if len(r) >= 2 and rnd.random() < .7:
                    a = rnd.randrange(len(r) - 1)
                    b = a + 1 if rnd.random() < .8 or len(r) < 3 else len(r) - 1
                    if a != b:
                        groups.append(f'{base + a}.{base + b}')
                base += len(r)
            if rnd.random() < .1 and total >= 2:
                groups.append(f'0.{total - 1}')
            if groups:
                cx.append('f:' + ','.join(groups))
        if cx:
            line += ' |' + ','.join(cx) + '|'
        out.append(line)
    return sorted(set(out))


def all_strings(alphabet, maxlen):
    for L in range(1, maxlen + 1):
        for t in itertools.product(alphabet, repeat=L):
            yield ''.join(t)


def corruptions(s, rnd, k):
    """k single-edit corruptions (delete / insert / substitute one character) of a valid string"""
    alpha = 'CNOSPFIclnosBr()[]=#-+@H/\\.%0123456789'
    out = []
    for _ in range(k):
        op = rnd.randrange(3)
        p = rnd.randrange(len(s) + (op == 1))
        ch = rnd.choice(alpha)
        if op == 0:
            t = s[:p] + s[p + 1:]
        elif op == 1:
            t = s[:p] + ch + s[p:]
        else:
            t = s[:p] + ch + s[p + 1:]
        if t and t != s:
            out.append(t)
    return out


BRACKET_ALPHA = '130CNcnesH245+-@:'


def bracket_bodies(maxlen):
    for L in range(1, maxlen + 1):
        for t in itertools.product(BRACKET_ALPHA, repeat=L):
            yield '[' + ''.join(t) + ']'


def generated_texts(num, seed):
    """complete texts (with the molecule they denote) printed by `tlc -simulate` on the generative grammar"""
    import json
    import os
    import shutil
    import subprocess
    d = os.path.join(vlib.scratch(), f'gen-{seed}')
    os.makedirs(d, exist_ok=True)
    for f in vlib._spec_files():
        shutil.copy(f, d)
    open(os.path.join(d, 'sim.cfg'), 'w').write('CONSTANTS MaxAtoms = 9\n MaxLen = 44\n MaxDepth = 3\nSPECIFICATION GSpec\nCONSTRAINT GenReport\nCHECK_DEADLOCK FALSE\n')
    p = subprocess.run(['tlc', '-simulate', f'num={num}', '-depth', '36', '-workers', '1', '-seed', str(seed + 11), '-config', 'sim.cfg', '-metadir', os.path.join(d, 'meta'),
                        '-noGenerateSpecTE', 'MC_SmilesGen.tla'], cwd=d, stdout=subprocess.PIPE, stderr=subprocess.STDOUT, text=True, timeout=1800)
    out, seen = [], set()
    for line in p.stdout.splitlines():
        if line.startswith('<<"GEN", "') and line.endswith('">>'):
            rec = json.loads(json.loads(line[len('<<"GEN", '):-2]))
            t = ''.join(rec['text'])
            if t not in seen:
                seen.add(t)
                out.append({'key': 'gen:' + t, 'text': t, 'atoms': rec['atoms'], 'bonds': rec['bonds']})
    shutil.rmtree(d, True)
    if len(out) < num // 4:
        raise vlib.Machinery('the simulation of SmilesGen produced too few texts:\n' + p.stdout[-1500:])
    return out


def observe_generated(case):
    from chython import smiles
    kind, val = chy.outcome(smiles, case['text'])
    rec = {'text': case['text'], 'atoms': case['atoms'], 'bonds': case['bonds'], 'out': kind if kind != 'ok' else 'ok', 'obs': {'atoms': [], 'bonds': []}}
    if kind == 'ok':
        m = val
        order = list(m._atoms)
        idx = {n: k + 1 for k, n in enumerate(order)}
        rec['obs'] = {'atoms': [{'z': m._atoms[n].atomic_number, 'c': m._atoms[n]._charge, 'i': m._atoms[n]._isotope or 0} for n in order],
                      'bonds': [[idx[a], idx[b], int(bd._order)] for a, b, bd in m.bonds()]}
    return rec


def run(ck):
    from vlib import pmap
    rnd = random.Random(ck.seed)
    files = {'tables.json': tables.tables_json()}
    parts = []
    # exhaustive short strings
    if ck.quick:
        parts.append(('short16', [{'key': s, 's': s} for s in all_strings(S16, 4)], True))
    else:
        parts.append(('short26', [{'key': s, 's': s} for s in all_strings(S26, 4)], True))
        parts.append(('short12x5', [{'key': s, 's': s} for s in all_strings('CNc()[]=1.l/', 5) if len(s) == 5], True))
    # closure numbers: 0 is not a closure number of the documented language, also right after C / B / Cl / Br look-ahead positions
    parts.append(('closure-digits', [{'key': s, 's': s} for s in all_strings('CBN0l1r', 5 if ck.quick else 6) if '0' in s], True))
    # bracket atom sublanguage
    bl = 3 if ck.quick else 4
    parts.append(('bracket', [{'key': s, 's': s} for s in bracket_bodies(bl)], True))
    if not ck.quick:
        body5 = [s for s in bracket_bodies(5) if len(s) == 7]
        parts.append(('bracket5', [{'key': s, 's': s} for s in chy.pick(body5, 300000, ck.seed)], False))
    # corpus + corruptions
    corp = chy.corpus()
    sel = chy.pick(corp, 500, ck.seed) if ck.quick else corp
    parts.append(('corpus', [{'key': s, 's': s} for s in sel], False))
    cor = []
    for s in (chy.pick(corp, 400, ck.seed, 1) if ck.quick else corp):
        cor.extend(corruptions(s, rnd, 4 if ck.quick else 8))
    cor = sorted(set(cor))
    parts.append(('corrupt', [{'key': s, 's': s} for s in cor], False))
    # hand-written edge cases of the listed language features
    edge = ['(', 'C(', 'C)', 'C1', 'C==C', 'C%12CC%12', '[13CH4]', 'C11', 'C1C1', 'Cl', 'BrC', 'C.C', 'C(.C)', '[nH]1cccc1',
            '[Fe+2]', '[C@H](F)(Cl)Br', 'C0', '[N--]', '[N+-]', 'c1ccccc1c1ccccc1', 'C.(C)', 'C-;@C', 'F/C=C/F', 'F/C=C\\F',
            'C1=C/F.F/1', 'F/C=C/1.F1', 'C/1=C/F.F1', '[C@](F)(Cl)(Br)I', '[C@@](F)(Cl)(Br)I', 'N[C@@H](C)C(=O)O', '[C@H]1(F)CCO1',
            'C%10CC%10', 'C%1', 'C%', 'C=1CC1', 'C1CC=1', 'C=1CC=1', 'C=1CC#1', 'C-1CC1', '[CH3:5][OH:2]', '[CH3:2][OH:2]',
            '[C:0]', '[Cu++]', '[Cu+2]', '[O-2]', '[O--]', '[O---]', '[O-3]', '[Ti+4]', '[Ti++++]', '[235U]', '[2H]O[2H]', '[H][H]',
            'C(C)(C)(C)(C)C', 'c1ccc2ccccc2c1', 'C1CC12CC2', 'C12CC1C2', '[se]1cccc1', '[te]1cccc1', 'b1ccccc1', 'C~C', 'C:C',
            'c:c', 'C/C', 'C\\C', '/C', 'C/', 'C//C', 'C/=C', 'C=/C', 'F/C=C/C=C/F', 'FC(/Cl)=C/Br', 'F[C@]1(Cl)CC1Br',
            'C(F)(/Cl)=C/Br', 'O=C=O', 'FC=C=CF', 'F[C@@H]=C=CF'.replace('[C@@H]', 'C'), 'C[C@H](N)O', '[C@@H](C)(N)O',
            'C1.C1', 'C1.C=1', '[Na+].[Cl-]', 'C..C', '.C', 'C.', 'C(C', 'C((C))', 'C()C', 'C(C)', '(C)C', '(C)', 'CC(', '1CC1',
            '[C', 'C]', '[]', '[[C]]', '[C@@@H]', '[CH5]', '[CH0]', '[C+5]', '[1000C]', '[012C]', '[C:12345]', '[Xx]', '[co]',
            '[cH-]1cccc1', 'c1cc[nH]c1', 'c1ccncc1', '[n+]1ccccc1', 'C[N+](C)(C)C', 'C[N+](=O)[O-]', 'N#N', '[C-]#[O+]', '*', '[*]',
            'C$C', 'CC(=O)O[H]', 'C.[C@H](F)(Cl)Br', '[Na+].[C@@H](F)(Cl)Br', '[C@H](F)(Cl)Br.[C@H](F)(Cl)Br', 'C1.[C@H]1(F)Cl', 'C(.[C@H](F)(Cl)Br)C', 'O.[C@@H](C)(N)O.[C@H](C)(N)O', '[C@H](F)(Cl)[H]', '[C@](F)(Cl)([H])Br']
    # a marked atom that opens two or three ring closures, closed in nested, interleaved and mixed order
    edge += ['C[C@]12CCCC[C@H]2CCCC1', 'C[C@]12CCCC[C@H]1CCCC2', 'O[C@@]12CC[C@@H](C)C2CCO1', 'F[C@]1%12CCC[C@@H]%12OCC1', 'F[C@]1%12CCC[C@@H]1OCC%12', '[C@]12(F)CCC2CCC1', '[C@@]12(F)CCC1CCC2',
             'C[C@]123CCC1CCC2CCC3', 'C[C@]123CCC3CCC2CCC1', 'C[C@]123CCC2CCC3CCC1', 'N[C@@]12CC1CC2', 'N[C@@]12CC2CC1', 'C[C@@H]1CC[C@]21CCCO2', 'C[C@@H]1CC[C@]12CCCO2', 'F[C@]12CC(C1)C2', 'F[C@]12CC(C2)C1']
    # a bond symbol at the opening digit and a direction mark at the closing digit (and the other way round)
    edge += ['F/C=C-1CCCCC/1C', 'F/C=C-1CCCCC\\1C', 'F/C=C1CCCCC/1C', 'F/C=C/1CCCCC1C', 'F/C=C/1CCCCC-1C', 'F\\C=C-1CCCCC/1C', 'C-1CCCCC/1=C/F', 'C/1CCCCC-1=C/F', 'F/C=C-1CCCC/1', 'F/C=C=1CCCC/1', 'C-1=CCCC/1']
    edge = sorted(set(edge))
    parts.append(('edge', [{'key': s, 's': s} for s in edge], False))

    for name, cases, exhaustive in parts:
        cases = ck.select(name, cases)
        if not cases:
            continue
        recs = pmap('checks.c03', 'observe', cases)
        ck.validate(name, 'Trace_C03', cases, recs, step_len=lambda r: len(r['s']), files=files,
                    nontrivial=lambda c: True)
        ck.exhaustive[name] = exhaustive
        ck.count('accepted', sum(1 for r in recs if r['out'] == 'ok'))
        ck.count('rejected', sum(1 for r in recs if r['out'] == 'valueerror'))
        ck.count('stereo-atoms', sum(1 for r in recs for a in r['atoms'] if a['p'] != 2))
        ck.count('stereo-bonds', sum(len(r['ct']) for r in recs))
    # spec -> code: the generative grammar.  Design level: every text the grammar can finish within the bound is read back to the
    # generated molecule by the reference reader (exhaustive); then simulated behaviours are given to the library.
    if not ck.replay:
        ck.model('mc-smiles-gen', 'MC_SmilesGen', 'CONSTANTS MaxAtoms = 3\n MaxLen = %d\n MaxDepth = 2\nSPECIFICATION GSpec\nINVARIANT GenReadAgree\nCHECK_DEADLOCK FALSE\n' % (8 if ck.quick else 10))
    gen = ck.select('generated', generated_texts(300 if ck.quick else 6000, ck.seed)) if not ck.replay else ck.select('generated', [])
    if gen:
        recs = pmap('checks.c03', 'observe_generated', gen)
        ck.validate('generated', 'Trace_Gen', gen, recs)
    # line level: reactions, dots, CXSMILES radicals and fragment groups
    lines = gen_lines(rnd, 1500 if ck.quick else 20000)
    lines += [f'{a}>{b}>{c}' for a in ('C=1CCCCC1', 'C1CCCCC=1', 'C=1CCCCC-1', 'CC') for b in ('', 'OC1CCCCC=1', 'C=1CC#1') for c in ('C1CCCCC1', 'C=1CCCCC=1', 'C-1CC=1')]
    lines += ['C>>C', 'C>C', 'C>>>C', '>>C', 'C>>', '>C>', '>>', 'C.C>>C', 'CC[O] |^1:2|', 'CC[O] |^1:3|', 'C[CH2] |^1:1|', '[CH3].[CH3] |^1:0,1|',
              'C>O>CN |^1:3|', 'C>O>CN |^1:1|', 'C.O>N.[Na+]>CO.Cl |f:0.1,2.3,4.5|', '[Na+].[Cl-]>>[Na+].[Cl-] |f:0.1,2.3|', 'C.C.C>>C |f:0.2|',
              'C>>C |f:0.1|', 'C.[O]>>C[O] |^1:1,3|', 'C[O] |^1:1,1|', 'C |^1:0|', 'C |^1:5|', 'C.C |f:0.1|', '[CH3:1][OH:2]>>[CH3:1].[OH2:2]']
    cases = ck.select('lines', [{'key': s, 's': s} for s in sorted(set(lines))])
    if cases:
        recs = pmap('checks.c03', 'observe_line', cases)
        ck.validate('lines', 'Trace_C03rx', cases, recs)
        ck.count('reactions', sum(r['rx'] for r in recs))
        ck.count('cx-blocks', sum(1 for r in recs if r['cx']))
    ck.assumptions += ['isotope tabulation is taken from the working tree (consistency of that table is C18)',
                       'a branch opened before the first atom is Unspecified (the parser tolerates it)',
                       'CXSMILES blocks and reaction arrows are validated by the Cx part (Trace_Cx)']
    return ck.finish(rule='one case = one text; distinct by text; every text exercises the reader state machine',
                     trusted=['TLC', 'spec/lang/SmilesRead.tla (reference reader)', 'harness projection of stored fields'])
