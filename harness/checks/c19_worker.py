"""worker of C19: runs in a fresh interpreter with its own PYTHONHASHSEED; prints one JSON line per (input, view, call)"""
import json
import sys


def views(m, queries, order=None, only=None):
    """every view of m; order: None = as listed, 'rev' = reversed, an int = shuffled with that seed.  The value of a view must not
    depend on which other views were evaluated before it (what is cached), so all orders must agree."""
    import random
    todo = []
    out = {}

    def put(name, f):
        todo.append((name, f))
    put('str', lambda: str(m))
    put('atoms_order', lambda: sorted(m.atoms_order.items()))
    put('smiles_atoms_order', lambda: list(m.smiles_atoms_order))
    put('format-without-stereo', lambda: format(m, '!s'))
    put('format-hydrogens', lambda: format(m, 'h'))
    put('fast-mapping-to-copy', lambda: sorted((m.get_fast_mapping(m.copy()) or {}).items()))
    put('sssr', lambda: [list(r) for r in m.sssr])
    put('components', lambda: [sorted(c) for c in m.connected_components])
    # the other cached ring views: each one is derived from another (rings_graph from skin_graph, atoms_rings from sssr) and must leave it as it was
    put('skin_graph', lambda: sorted((n, sorted(ms)) for n, ms in m.skin_graph.items()))
    put('rings_graph', lambda: sorted((n, sorted(ms)) for n, ms in m.rings_graph.items()))
    put('atoms_rings', lambda: sorted((n, [list(r) for r in rs]) for n, rs in m.atoms_rings.items()))
    put('atoms_rings_sizes', lambda: sorted((n, sorted(rs)) for n, rs in m.atoms_rings_sizes.items()))
    put('skin_graph-again', lambda: sorted((n, sorted(ms)) for n, ms in m.skin_graph.items()))
    put('linear_hash_set', lambda: sorted(m.linear_hash_set(min_radius=1, max_radius=4)))
    put('linear_hash_set-longer-only', lambda: sorted(m.linear_hash_set(min_radius=3, max_radius=4)))
    put('linear_hash_set-again', lambda: sorted(m.linear_hash_set(min_radius=1, max_radius=4)))
    put('morgan_hash_set-wider', lambda: sorted(m.morgan_hash_set(min_radius=2, max_radius=3)))
    put('morgan_hash_set', lambda: sorted(m.morgan_hash_set(min_radius=1, max_radius=3)))
    put('linear_bits', lambda: sorted(m.linear_bit_set(min_radius=1, max_radius=4, length=1024)))
    put('morgan_bits', lambda: sorted(m.morgan_bit_set(min_radius=1, max_radius=3, length=1024)))
    for k, q in enumerate(queries[:6]):
        put(f'mapping-list:{k}', lambda q=q: [sorted(mp.items()) for mp in q.get_mapping(m, automorphism_filter=False)][:200])
        put(f'mapping-filtered:{k}', lambda q=q: [sorted(mp.items()) for mp in q.get_mapping(m)][:200])
    put('pack', lambda: list(m.pack(compressed=False)))
    half = set(list(m._atoms)[:max(1, len(m._atoms) // 2)])
    for k, q in enumerate(queries[:3]):
        put(f'mapping-scoped:{k}', lambda q=q: [sorted(mp.items()) for mp in q.get_mapping(m, automorphism_filter=False, searching_scope=half)][:200])
    for k, q in enumerate(queries[6:]):     # queries with several components, scope over parts of several components of the molecule
        put(f'mapping-scoped-multi:{k}', lambda q=q: [sorted(mp.items()) for mp in q.get_mapping(m, automorphism_filter=False, searching_scope=half)][:200])
    put('split', lambda: sorted(str(x) for x in m.split()))
    put('eq-copy', lambda: [m == m.copy(), hash(m) == hash(m.copy())])
    if order == 'rev':
        todo.reverse()
    elif isinstance(order, int):
        random.Random(order).shuffle(todo)
    for name, f in todo:
        if only is not None and name != only:
            continue
        try:
            out[name] = f()
        except Exception as e:
            out[name] = 'raise:' + type(e).__name__
    return out


def main():
    import pyxlite
    from chython import smiles, smarts
    pyxlite.install(sys.argv[2])
    inputs = json.load(open(sys.argv[1]))
    queries = [smarts(q) for q in ['[C;D3]', 'C=O', 'c1ccccc1', '[N,O;h1]', 'C-;!@C', '[C;r6]~[A]', 'C.C', 'C.O', 'C.N.O']]
    tag = sys.argv[3]
    for smi in inputs:
        try:
            m = smiles(smi)
            m.kekule()
            m.thiele()
        except Exception as e:
            continue
        first = views(m, queries)
        second = views(m, queries)
        third = views(m.copy(), queries)
        rev = views(m.copy(), queries, 'rev')
        mixed = m.copy()
        shuf = views(mixed, queries, len(smi) * 7 + 3)
        after = views(mixed, queries)
        def normalised(call):
            # the object a normalisation call leaves behind must describe itself like its copy and like itself after a flush
            o = m.copy()
            try:
                getattr(o, call)()
            except Exception as e:
                return {'object': 'raise:' + type(e).__name__}
            res = {}
            for where, x in (('object', o), ('copy', o.copy())):
                try:
                    res[where] = [str(x), sorted(x.atoms_order.items()), list(x.smiles_atoms_order)]
                except Exception as e:
                    res[where] = 'raise:' + type(e).__name__
            o.flush_cache()
            try:
                res['flushed'] = [str(o), sorted(o.atoms_order.items()), list(o.smiles_atoms_order)]
            except Exception as e:
                res['flushed'] = 'raise:' + type(e).__name__
            return res
        norm = {call: normalised(call) for call in ('canonicalize', 'standardize', 'standardize_charges', 'neutralize')}
        canon = norm['canonicalize'].get('object')
        std = norm['standardize'].get('object')
        for call, res in norm.items():
            for where, val in res.items():
                print(json.dumps({'input': smi, 'view': 'after-' + call, 'proc': f'{tag}/{where}', 'val': val}))
        # every view on a copy of its own on which nothing else was evaluated before (nothing cached), and once more right after it
        alone, twice = {}, {}
        for name in first:
            c1 = m.copy()
            alone.update(views(c1, queries, only=name))
            twice.update(views(c1, queries, only=name))
        # one view first, then one of the order-defining views on the same object (what the first view cached must not change it)
        primed = []
        for name in ('format-without-stereo', 'format-hydrogens', 'atoms_order', 'pack', 'linear_hash_set', 'split', 'str'):
            for target in ('str', 'smiles_atoms_order', 'atoms_order', 'fast-mapping-to-copy', 'format-without-stereo'):
                if target == name:
                    continue
                c2 = m.copy()
                views(c2, queries, only=name)
                primed.append((f'after-{name}', views(c2, queries, only=target)))
        for call, vs in (('first', first), ('second', second), ('copy', third), ('reversed-order', rev), ('shuffled-order', shuf), ('after-shuffled', after),
                         ('alone', alone), ('alone-twice', twice), *primed):
            for v, val in vs.items():
                print(json.dumps({'input': smi, 'view': v, 'proc': f'{tag}/{call}', 'val': val}))
        print(json.dumps({'input': smi, 'view': 'canonicalize', 'proc': tag, 'val': canon}))
        print(json.dumps({'input': smi, 'view': 'standardize', 'proc': tag, 'val': std}))


if __name__ == '__main__':
    main()
