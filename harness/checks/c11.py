"""C11 - MDL (V2000 / V3000) and MRV files: write then read preserves the record.

design level  MC_RecordReader: the multi-record reader as a state machine (files of <= 3 records with damaged ones, all call
              sequences to the depth bound): iteration returns exactly the undamaged records, random access the requested one.
spec -> code  TLC behaviours (-simulate) are replayed on real temporary SDF files (indexable mode uses the real grep) and the
              recorded results are validated by Trace_RecordReader.
code -> spec  round trips of molecules and reactions through SDF, ESDF (V3000), RDF, ERDF and MRV, other programs' records
              (RDKit mol blocks, the repository's test files), validated by Trace_C11.
"""
import glob
import io
import os
import random
import re
import shutil
import string
import subprocess
import tempfile

import chy
import vlib
from vlib import chars

# ---------------------------------------------------------------------------------------------- record reader replay
VALID = '''{name}
  verif{note}

{n:3d}{b:3d}  0  0  0  0            999 V2000
{atoms}{bonds}M  END
>  <ID>
{name}

$$$$
'''


NOTES = ['', ' \u00b5mol \u2192 \u00e9t\u00e9', ' \u03b1-\u03b2 \u00c5', ' \u4e2d\u6587']


def molblock(k, damage, note=''):
    """record number k: a chain of k+1 carbons named rec<k>; damage: None | 'counts' | 'atomline' | 'element' | 'noend' | 'bondref';
    note: text after the program name (characters of more than one byte move every later record's byte offset away from its character offset)"""
    n = k + 1
    atoms = ''.join(f'{float(j):10.4f}{0.0:10.4f}{0.0:10.4f} {"C":<3} 0  0  0  0  0  0  0  0  0  0  0  0\n' for j in range(n))
    bonds = ''.join(f'{j:3d}{j + 1:3d}  1  0  0  0  0\n' for j in range(1, n))
    text = VALID.format(name=f'rec{k}', n=n, b=n - 1, atoms=atoms, bonds=bonds, note=note)
    lines = text.split('\n')
    if damage == 'counts':
        lines[3] = ' xx yy  0  0  0  0            999 V2000'
    elif damage == 'atomline':
        lines[4] = '    garbage line that is not an atom'
    elif damage == 'element':
        lines[4] = lines[4].replace(' C  ', ' Xx ')
    elif damage == 'bondref':
        lines[4 + n] = ' 77 78  1  0  0  0  0' if n > 1 else lines[4 + n]
        if n == 1:
            lines[3] = '  1  1  0  0  0  0            999 V2000'
            lines.insert(5, ' 77 78  1  0  0  0  0')
    elif damage == 'noend':
        lines = [x for x in lines if not x.startswith('M  END')]
    return '\n'.join(lines)


_ACT = re.compile(r'^\\\* <(\w+)(?:\((.*?)\))? line', re.M)


def reader_behaviours(num, depth, seed, workers=8):
    d = os.path.join(vlib.scratch(), f'rr-{seed}')
    os.makedirs(d, exist_ok=True)
    for f in vlib._spec_files():
        shutil.copy(f, d)
    cfg = 'CONSTANT MaxRecords = 4\nSPECIFICATION Spec\nINVARIANT TypeOK\nCHECK_DEADLOCK FALSE\n'
    open(os.path.join(d, 'MC_RecordReader.cfg'), 'w').write(cfg)
    p = subprocess.run(['tlc', '-simulate', f'file={d}/tr,num={max(1, num // workers)}', '-depth', str(depth), '-workers', str(workers), '-seed', str(seed),
                        '-metadir', os.path.join(d, 'meta'), '-noGenerateSpecTE', 'MC_RecordReader.tla'], cwd=d, stdout=subprocess.PIPE,
                       stderr=subprocess.STDOUT, text=True, timeout=900)
    if 'Error' in p.stdout:
        raise vlib.Machinery('TLC simulation of RecordReader failed:\n' + p.stdout[-2000:])
    cases, seen = [], set()
    for f in sorted(glob.glob(os.path.join(d, 'tr_*'))):
        text = open(f).read()
        first = text.split('STATE_2')[0]
        fm = re.search(r'file = (<<.*?>>)\s*(?:/\\|\n\n)', first, re.S)
        recs = re.findall(r'\[ok \|-> (TRUE|FALSE), mend \|-> (TRUE|FALSE)\]', fm.group(1) if fm else '')
        file = [{'ok': 1 if a == 'TRUE' else 0, 'mend': 1 if b == 'TRUE' else 0} for a, b in recs]
        calls = []
        for name, args in _ACT.findall(text):
            if name == 'Init':
                continue
            a = 0
            if args:
                a = {'TRUE': 1, 'FALSE': 0}.get(args.strip(), None)
                if a is None:
                    a = int(args.strip())
            calls.append([name, a])
        key = f'{file}|{calls}'
        if calls and key not in seen:
            seen.add(key)
            cases.append({'key': 'rr:' + key, 'file': file, 'calls': calls, 'rs': seed * 131 + len(cases)})
    shutil.rmtree(d, True)
    return cases


def rdf_record(k, damage, rnd, note=''):
    """record k of an RDF file: a molecule record or a one-molecule reaction, with the same metadata"""
    block = molblock(k, damage, note).split('>  <ID>')[0].rstrip('\n') + '\n'
    if rnd.random() < .5:
        return f'$MFMT\n{block}$DTYPE ID\n$DATUM rec{k}\n'
    return f'$RFMT\n$RXN\nrec{k}\n\n\n  1  0\n$MOL\n{block}$DTYPE ID\n$DATUM rec{k}\n'


def replay_reader(case):
    from chython.files import SDFRead, RDFRead
    rnd = random.Random(case['rs'])
    d = tempfile.mkdtemp(prefix='verif-rr-')
    fmt = case.get('fmt', 'sdf')
    path = os.path.join(d, 'f.' + fmt)
    with open(path, 'w', encoding='utf-8') as f:
        if fmt == 'rdf':
            f.write('$RDFILE 1\n$DATM    01/01/26 00:00\n')
        for k, r in enumerate(case['file'], 1):
            dmg = None
            if not r['ok']:
                dmg = 'noend' if not r['mend'] else rnd.choice(['counts', 'atomline', 'element', 'bondref'])
            note = NOTES[(case['rs'] + k) % len(NOTES)] if case['rs'] % 3 == 0 else ''     # a third of the files carry non-ASCII text
            f.write(molblock(k, dmg, note) if fmt == 'sdf' else rdf_record(k, dmg, rnd, note))
    out = []
    try:
        rd = (SDFRead if fmt == 'sdf' else RDFRead)(path, indexable=True)
        try:
            os.remove(rd._cache_path)     # the index cache lives in the system temp dir, keyed by file name
        except Exception:
            pass
        rd.reset_index()
        for op, a in case['calls']:
            k, v = 'ok', 0
            try:
                if op == 'ReadStructure':
                    m = rd.read_structure(current=bool(a))
                    k, v = 'rec', int(m.name[3:])
                elif op == 'ReadMetadata':
                    md = rd.read_metadata(current=bool(a))
                    k, v = 'meta', int(md['ID'][3:])
                elif op == 'NextItem':
                    m = next(rd)
                    k, v = 'rec', int(m.name[3:])
                elif op == 'Seek':
                    rd.seek(a)
                elif op == 'GetItem':
                    m = rd[a]
                    k, v = 'rec', int(m.name[3:])
                elif op == 'Tell':
                    k, v = 'tell', rd.tell()
            except StopIteration:
                k = 'Stop'
            except EOFError:
                k = 'EOF'
            except IndexError:
                k = 'IndexError'
            except ValueError:
                k = 'ValueError'
            except Exception as e:
                k = 'foreign:' + type(e).__name__
            out.append({'op': op, 'a': a, 'k': k, 'v': v, 'tell': rd.tell()})
        rd.close()
    finally:
        shutil.rmtree(d, True)
    return {'file': case['file'], 'calls': out}


# ---------------------------------------------------------------------------------------------- round trips
def molproj(m):
    order = list(m._atoms)
    idx = {n: i + 1 for i, n in enumerate(order)}
    return {'atoms': [{'n': n, 'z': a.atomic_number, 'i': a._isotope or 0, 'c': a._charge, 'r': 1 if a._is_radical else 0, 'p': chy.parity(m, n, idx),
                       'x': int(round(a.x * 10000)), 'y': int(round(a.y * 10000))} for n, a in m._atoms.items()],
            'bonds': sorted([min(idx[a], idx[b]), max(idx[a], idx[b]), int(bd._order)] for a, b, bd in m.bonds()),
            'ct': chy.cistrans(m, idx), 'name': chars(m.name)}


def norm_meta(meta):
    out = []
    for k, v in (meta or {}).items():
        if k.startswith('chython_'):
            continue
        lines = [x.strip() for x in str(v).split('\n')]
        out.append([chars(' '.join(str(k).split())), chars('\n'.join(x for x in lines if x))])
    return out


def layout(m):
    """2D coordinates from RDKit's depiction (stereo-aware), transferred by atom map"""
    from rdkit import Chem, RDLogger
    from rdkit.Chem import AllChem
    RDLogger.DisableLog('rdApp.*')
    rd = Chem.MolFromSmiles(format(m, 'm'))
    if rd is None:
        return False
    AllChem.Compute2DCoords(rd)
    conf = rd.GetConformer()
    got = 0
    for a in rd.GetAtoms():
        n = a.GetAtomMapNum()
        if n in m._atoms:
            p = conf.GetAtomPosition(a.GetIdx())
            m._atoms[n].x, m._atoms[n].y = round(p.x, 4), round(p.y, 4)
            got += 1
    m.flush_cache()
    return got == len(m)


def roundtrip(obj, fmt, cistrans=True):
    from chython.files import SDFRead, SDFWrite, ESDFWrite, RDFRead, RDFWrite, ERDFWrite, MRVRead, MRVWrite
    buf = io.StringIO()
    W = {'sdf': SDFWrite, 'esdf': ESDFWrite, 'rdf': RDFWrite, 'erdf': ERDFWrite, 'mrv': MRVWrite}[fmt]
    w = W(buf)
    w.write(obj)
    w.close()
    text = buf.getvalue()
    if fmt == 'mrv':
        rd = MRVRead(io.BytesIO(text if isinstance(text, bytes) else text.encode()), calc_cis_trans=cistrans)
    else:
        Rd = SDFRead if fmt in ('sdf', 'esdf') else RDFRead
        rd = Rd(io.StringIO(text), calc_cis_trans=cistrans)
    back = next(iter(rd), None)
    return back


def observe(case):
    from chython import smiles, ReactionContainer
    rnd = random.Random(case['rs'])
    rec = {'fmt': case['fmt'], 'exc': '', 'w': [[], [], []], 'b': [[], [], []], 'meta': [], 'bmeta': []}
    try:
        mols = []
        for s in case['mols']:
            if s == '<empty>':      # a placeholder molecule without atoms: the readers ignore such a component and must keep the roles of the others
                from chython import MoleculeContainer
                mols.append(MoleculeContainer())
                continue
            m = smiles(s)
            m.kekule()
            if case.get('thiele'):
                m.thiele()
            if case.get('coords') and not layout(m):
                return {'skip': 'no-layout'}
            if any(a.atomic_number == 1 and any(m._atoms[k]._stereo is not None for k in m._bonds[n]) for n, a in m._atoms.items()):
                return {'skip': 'explicit-hydrogen-on-stereocentre'}      # the one recorded writer / reader asymmetry
            m.name = case.get('name', '')
            if case.get('bignum'):     # atom numbers beyond the three-character column of V2000: the writer must refuse or keep them
                m.remap({n: n + 990 + 7 * k for k, n in enumerate(list(m._atoms))})
            mols.append(m)
    except Exception as e:
        return {'skip': type(e).__name__}
    meta = case.get('meta') or {}
    try:
        if case['kind'] == 'mol':
            obj = mols[0]
            obj.meta.update(meta)
            rec['w'] = [[molproj(obj)], [], []]
            try:
                back = roundtrip(obj, case['fmt'], case.get('cistrans', True))
            except ValueError:
                if case.get('bignum'):
                    return {'skip': 'refused-large-atom-number'}
                raise
            if back is None or not hasattr(back, '_atoms'):
                rec['exc'] = 'nothing-read-back'
            else:
                rec['b'] = [[molproj(back)], [], []]
                rec['bmeta'] = norm_meta(back.meta)
                if not case.get('cistrans', True):    # the default reader does not take double-bond configuration from the drawing
                    rec['w'][0][0]['ct'] = []
                    rec['b'][0][0]['ct'] = []
        else:
            r, a, p = case['shape']
            obj = ReactionContainer(mols[:r], mols[r + a:], mols[r:r + a], meta=dict(meta), name=case.get('name', ''))
            # atom numbers of a reaction must be unique across molecules
            shift = 0
            for m in obj.molecules():
                m.remap({n: n + 10000 for n in list(m._atoms)})
                m.remap({n: n - 10000 + shift for n in list(m._atoms)})
                shift += len(m) + 3
            rec['w'] = [[molproj(m) for m in obj.reactants if len(m)], [molproj(m) for m in obj.reagents if len(m)], [molproj(m) for m in obj.products if len(m)]]
            for role in rec['w']:
                for mp in role:
                    mp['name'] = []
            try:
                back = roundtrip(obj, case['fmt'])
            except ValueError:
                if '<empty>' in case['mols']:      # V2000 and MRV writers refuse a molecule without atoms
                    return {'skip': 'refused-empty-molecule'}
                raise
            if back is None or hasattr(back, '_atoms'):
                rec['exc'] = 'nothing-read-back'
            else:
                rec['b'] = [[molproj(m) for m in back.reactants], [molproj(m) for m in back.reagents], [molproj(m) for m in back.products]]
                for role in rec['b']:
                    for mp in role:
                        mp['name'] = []
                rec['bmeta'] = norm_meta(back.meta)
                if chars(back.name) != chars(obj.name):
                    rec['exc'] = 'reaction-title-changed'
        rec['meta'] = norm_meta(meta)
    except Exception as e:
        rec['exc'] = type(e).__name__
    return rec


def foreign_records(case):
    """records written by another program (RDKit) must be read and give the molecule of the SMILES"""
    from chython import smiles, mdl_mol
    from rdkit import Chem, RDLogger
    RDLogger.DisableLog('rdApp.*')
    s = case['smi']
    rec = {'fmt': case['fmt'], 'exc': '', 'w': [[], [], []], 'b': [[], [], []], 'meta': [], 'bmeta': []}
    try:
        m = smiles(s)
        m.kekule()
        rd = Chem.MolFromSmiles(s)
        if rd is None:
            return {'skip': 'rdkit'}
        Chem.Kekulize(rd, clearAromaticFlags=True)
        from rdkit.Chem import AllChem
        AllChem.Compute2DCoords(rd)
        block = Chem.MolToV3KMolBlock(rd) if case['fmt'] == 'rdkit-v3000' else Chem.MolToMolBlock(rd)
    except Exception as e:
        return {'skip': type(e).__name__}
    try:
        b = mdl_mol(block, calc_cis_trans=True)
        g, h = molproj(m), molproj(b)
        # RDKit keeps the SMILES atom order; names and coordinates are RDKit's: compare constitution and charges only
        for mp in (g, h):
            mp['name'] = []
            for a in mp['atoms']:
                a['x'] = a['y'] = 0
                a['p'] = 2
            mp['ct'] = []
        # kekule forms may differ between the toolkits: compare on the aromatic form
        m.thiele()
        b.thiele()
        g['bonds'], h['bonds'] = molproj(m)['bonds'], molproj(b)['bonds']
        rec['w'], rec['b'] = [[g], [], []], [[h], [], []]
    except Exception as e:
        rec['exc'] = type(e).__name__
    return rec


def observe_wedge(case):
    """configuration across programs: RDKit's record (2D layout + wedges) read by chython, chython's record read by RDKit"""
    import io
    from chython import smiles, mdl_mol
    from chython.files import SDFWrite, ESDFWrite
    from rdkit import Chem, RDLogger
    from rdkit.Chem import AllChem
    from checks.c01 import full_projection, allene_or_other_stereo
    RDLogger.DisableLog('rdApp.*')
    s = case['smi']
    try:
        ref = smiles(s)
        ref.kekule()
        ref.thiele()
        rd = Chem.MolFromSmiles(s)
        if rd is None or allene_or_other_stereo(ref) or any(a._stereo is not None and a.atomic_number != 6 for a in ref._atoms.values()):
            return {'skip': 'outside'}
        if any(a.GetChiralTag() != Chem.ChiralType.CHI_UNSPECIFIED and a.GetAtomicNum() != 6 for a in rd.GetAtoms()):
            return {'skip': 'outside'}
        AllChem.Compute2DCoords(rd)
        dom = full_projection(ref, rings=True)[0]
    except Exception as e:
        return {'skip': type(e).__name__}
    rec = {'fmt': case['fmt'], 'exc': '', 'dom': dom, 'smi': s}
    for k in ('cs', 'cs0', 'cr', 'cr0', 'rs', 'rs0', 'rr', 'rr0'):
        rec[k] = ''
    try:
        kek = Chem.Mol(rd)
        if case['fmt'].endswith('kekule'):
            Chem.Kekulize(kek, clearAromaticFlags=True)
        block = Chem.MolToV3KMolBlock(kek) if case['fmt'].startswith('v3000') else Chem.MolToMolBlock(kek)
        b = mdl_mol(block, calc_cis_trans=True)
        n = b.copy()
        n.kekule()
        n.thiele()
        rec['cs'], rec['cs0'] = str(n), format(n, '!s')
        rec['cr'], rec['cr0'] = str(ref), format(ref, '!s')
        out = io.StringIO()
        # without atom-map numbers: RDKit ranks substituents by them and then labels double bonds whose substituents are otherwise equal
        with (ESDFWrite if case['fmt'].startswith('v3000') else SDFWrite)(out, mapping=False) as w:
            w.write(b)
        r2 = Chem.MolFromMolBlock(out.getvalue().split('$$$$')[0])
        if r2 is None:
            rec['exc'] = 'rdkit-rejects-the-written-record'
            return rec
        for a in r2.GetAtoms():
            a.SetAtomMapNum(0)
        rec['rs'], rec['rs0'] = Chem.MolToSmiles(r2), Chem.MolToSmiles(r2, isomericSmiles=False)
        # the reference on RDKit's side is its reading of its own record of the same drawing (from a drawing RDKit may label a double
        # bond whose substituents are equal; reading the SMILES would not show that and blame the library's record)
        r0 = Chem.MolFromMolBlock(block)
        rec['rr'], rec['rr0'] = Chem.MolToSmiles(r0), Chem.MolToSmiles(r0, isomericSmiles=False)
    except Exception as e:
        rec['exc'] = type(e).__name__
    return rec


def observe_drawing(case):
    """a hand-made V2000 drawing of one carbon centre: substituents at random angles around it (an explicit hydrogen may be one of
    them), one wedge or hash bond that starts at the centre, atoms and bonds in shuffled order.  chython's reading against RDKit's
    reading of the same block (both as RDKit canonical strings)."""
    import math
    from chython import mdl_mol
    from rdkit import Chem, RDLogger
    from checks.c01 import full_projection
    RDLogger.DisableLog('rdApp.*')
    rnd = random.Random(case['rs'])
    subs = rnd.sample(['F', 'Cl', 'Br', 'I', 'N', 'O', 'C', 'S'], 3 if case['h'] else 4)
    if case['h'] == 'explicit':
        subs.insert(rnd.randrange(4), 'H')
    n = len(subs)
    while True:      # angles with gaps of at least 35 degrees
        ang = sorted(rnd.uniform(0, 360) for _ in range(n))
        if all((ang[(k + 1) % n] - ang[k]) % 360 >= 35 for k in range(n)) and \
                (n == 4 or all(abs((ang[a] - ang[b]) % 360 - 180) >= 15 for a in range(n) for b in range(a))):
            break       # (three neighbours with two of them in line: a T-shaped drawing, which the programs read differently - ambiguous by the drawing rules)
    rnd.shuffle(ang)
    if case['h'] == 'explicit' and case.get('opposite'):      # the hydrogen opposite to the wedged atom
        hi = subs.index('H')
        w = rnd.choice([k for k in range(n) if k != hi])
        ang[hi] = (ang[w] + 180 + rnd.uniform(-8, 8)) % 360
        rest = [k for k in range(n) if k not in (hi, w)]
        ang[rest[0]], ang[rest[1]] = (ang[w] + rnd.uniform(60, 120)) % 360, (ang[w] - rnd.uniform(60, 120)) % 360
    else:
        w = rnd.randrange(n)
        if subs[w] == 'H' and rnd.random() < .5:
            w = (w + 1) % n
    atoms = [('C', 0.0, 0.0)] + [(el, 1.3 * math.cos(math.radians(a)), 1.3 * math.sin(math.radians(a))) for el, a in zip(subs, ang)]
    perm = list(range(len(atoms)))
    rnd.shuffle(perm)               # perm[new position] = old index
    pos = {old: new + 1 for new, old in enumerate(perm)}
    flag = rnd.choice([1, 6])
    bonds = []
    for k in range(1, len(atoms)):
        if k - 1 == w:
            bonds.append((pos[0], pos[k], flag))                       # a wedge starts at the stereocentre
        else:
            a, b = (pos[0], pos[k]) if rnd.random() < .5 else (pos[k], pos[0])
            bonds.append((a, b, 0))
    rnd.shuffle(bonds)
    block = 'drawing\n  verif\n\n' + f'{len(atoms):3d}{len(bonds):3d}  0  0  0  0            999 V2000\n'
    for old in perm:
        el, x, y = atoms[old]
        block += f'{x:10.4f}{y:10.4f}{0.0:10.4f} {el:<3} 0  0  0  0  0  0  0  0  0  0  0  0\n'
    for a, b, st in bonds:
        block += f'{a:3d}{b:3d}  1{st:3d}  0  0  0\n'
    block += 'M  END\n'
    rec = {'fmt': 'drawing', 'exc': '', 'dom': {'atoms': [], 'bonds': [], 'ct': [], 'rings': []}, 'smi': block}
    for k in ('cs', 'cs0', 'cr', 'cr0', 'rs', 'rs0', 'rr', 'rr0'):
        rec[k] = ''
    r0 = Chem.MolFromMolBlock(block)
    if r0 is None or not any(a.GetChiralTag() != Chem.ChiralType.CHI_UNSPECIFIED for a in r0.GetAtoms()):
        return {'skip': 'rdkit-sees-no-centre'}
    try:
        b = mdl_mol(block)
        rec['dom'] = full_projection(b, rings=True)[0]
        mine = Chem.MolFromSmiles(str(b))
        if mine is None:
            rec['exc'] = 'rdkit-rejects-the-string-of-the-molecule-read'
            return rec
        rec['cs'], rec['cs0'] = Chem.MolToSmiles(mine), Chem.MolToSmiles(mine, isomericSmiles=False)
        rec['cr'], rec['cr0'] = Chem.MolToSmiles(r0), Chem.MolToSmiles(r0, isomericSmiles=False)
    except Exception as e:
        rec['exc'] = type(e).__name__
    return rec


def tokenise_v2000(text):
    """a V2000 connection table as columns (CTfile definition), nothing of the library involved"""
    lines = text.split('\n')
    cl = lines[3]
    na, nb = int(cl[0:3]), int(cl[3:6])
    atoms = [{'s': l[31:34].strip(), 'dd': int(l[34:36]), 'ccc': int(l[36:39])} for l in lines[4:4 + na]]
    bonds = [[int(l[0:3]), int(l[3:6]), int(l[6:9]), int(l[9:12])] for l in lines[4 + na:4 + na + nb]]
    props = []
    for l in lines[4 + na + nb:]:
        if l.startswith('M  END'):
            break
        if l[:6] in ('M  CHG', 'M  RAD', 'M  ISO'):
            body = l[9:]
            props.append({'kind': l[3:6], 'nn': int(l[6:9]), 'ents': [[int(body[j + 1:j + 4]), int(body[j + 5:j + 8])] for j in range(0, len(body.rstrip()), 8)]})
    return {'na': na, 'nb': nb, 'atoms': atoms, 'bonds': bonds, 'props': props}


def tokenise_v3000(text):
    """a V3000 connection table brought to the record of MdlFields: one one-entry property line per CHG= / MASS= / RAD= key (atom-block codes
    do not exist in V3000, so every charge is 'listed')"""
    lines = [l[7:].split() for l in text.split('\n') if l.startswith('M  V30 ')]
    k = next(j for j, l in enumerate(lines) if l[:1] == ['COUNTS'])
    na, nb = int(lines[k][1]), int(lines[k][2])
    a0 = next(j for j, l in enumerate(lines) if l == ['BEGIN', 'ATOM']) + 1
    a1 = next(j for j, l in enumerate(lines) if l == ['END', 'ATOM'])
    pos, atoms, props = {}, [], []
    for j, l in enumerate(lines[a0:a1], start=1):
        pos[int(l[0])] = j
        atoms.append({'s': l[1], 'dd': 0, 'ccc': 0})
        for kv in l[6:]:
            key, v = kv.split('=', 1)
            if key in ('CHG', 'MASS', 'RAD'):
                props.append({'kind': {'CHG': 'CHG', 'MASS': 'ISO', 'RAD': 'RAD'}[key], 'nn': 1, 'ents': [[j, int(v)]]})
    bonds = []
    if ['BEGIN', 'BOND'] in lines:
        b0, b1 = lines.index(['BEGIN', 'BOND']) + 1, lines.index(['END', 'BOND'])
        for l in lines[b0:b1]:
            cfg = [kv.split('=', 1)[1] for kv in l[4:] if kv.startswith('CFG=')]
            bonds.append([pos.get(int(l[2]), 0), pos.get(int(l[3]), 0), int(l[1]), {'1': 1, '2': 4, '3': 6}.get(cfg[0], 9) if cfg else 0])
    return {'na': na, 'nb': nb, 'atoms': atoms, 'bonds': bonds, 'props': props}


def render_v3000(f, rnd):
    per = {}
    for p in f['props']:
        for a, v in p['ents']:
            per.setdefault(a, []).append({'CHG': 'CHG', 'ISO': 'MASS', 'RAD': 'RAD'}[p['kind']] + f'={v}')
    out = ['', '', '', '  0  0  0     0  0            999 V3000', 'M  V30 BEGIN CTAB', f'M  V30 COUNTS {f["na"]} {f["nb"]} 0 0 0', 'M  V30 BEGIN ATOM']
    for k, a in enumerate(f['atoms'], start=1):
        kv = per.get(k, [])
        rnd.shuffle(kv)
        out.append(f'M  V30 {k} {a["s"]} {k * 1.5:.4f} 0.0000 0 {k}' + ''.join(' ' + x for x in kv))
    out += ['M  V30 END ATOM', 'M  V30 BEGIN BOND']
    for j, (a, b, o, st) in enumerate(f['bonds'], start=1):
        out.append(f'M  V30 {j} {o} {a} {b}')
    out += ['M  V30 END BOND', 'M  V30 END CTAB', 'M  END', '$$$$', '']
    return '\n'.join(out)


def fieldproj(m):
    idx = {n: i + 1 for i, n in enumerate(m._atoms)}
    return {'atoms': [{'s': a.atomic_symbol, 'c': a._charge, 'i': a._isotope or 0, 'r': 1 if a._is_radical else 0} for a in m._atoms.values()],
            'bonds': [[idx[a], idx[b], int(bd._order)] for a, b, bd in m.bonds()]}


def render_v2000(f):
    out = ['', '', '', f'{f["na"]:3d}{f["nb"]:3d}  0  0  0  0            999 V2000']
    for k, a in enumerate(f['atoms']):
        out.append(f'{k * 1.5:10.4f}{0.:10.4f}{0.:10.4f} {a["s"]:3s}{a["dd"]:2d}{a["ccc"]:3d}  0  0  0  0  0  0  0{k + 1:3d}  0  0')
    for a, b, o, st in f['bonds']:
        out.append(f'{a:3d}{b:3d}{o:3d}{st:3d}  0  0  0')
    for p in f['props']:
        out.append(f'M  {p["kind"]}{p["nn"]:3d}' + ''.join(f' {a:3d} {v:3d}' for a, v in p['ents']))
    out += ['M  END', '$$$$', '']
    return '\n'.join(out)


def observe_fields(case):
    """C11 fields: 'w' the library writes a V2000 block for a molecule, 'r' it reads a block rendered from generated fields"""
    from chython import smiles
    from chython.files import SDFRead, SDFWrite, ESDFWrite
    rec = {'dir': case['dir'], 'exc': '', 'f': {'na': 0, 'nb': 0, 'atoms': [], 'bonds': [], 'props': []}, 'm': {'atoms': [], 'bonds': []}}
    if case['dir'] == 'w':
        try:
            m = smiles(case['smi'])
            m.kekule()
        except Exception as e:
            return {'skip': type(e).__name__}
        rec['m'] = fieldproj(m)
        try:
            buf = io.StringIO()
            w = (ESDFWrite if case.get('v3') else SDFWrite)(buf)
            w.write(m)
            w.close()
            rec['f'] = (tokenise_v3000 if case.get('v3') else tokenise_v2000)(buf.getvalue())
        except Exception as e:
            rec['exc'] = 'writer-or-columns:' + type(e).__name__
        return rec
    rec['f'] = case['f']
    try:
        text = render_v3000(case['f'], random.Random(case['rs'])) if case.get('v3') else render_v2000(case['f'])
        back = next(iter(SDFRead(io.StringIO(text), ignore=True)), None)
    except Exception as e:
        rec['exc'] = 'well-formed-block-refused:' + type(e).__name__
        return rec
    if back is None:        # the generated atoms are isolated metal ions and a saturated carbon chain: nothing chemical to object to
        rec['exc'] = 'well-formed-block-refused'
        return rec
    rec['m'] = fieldproj(back)
    return rec


def gen_fields(rnd, v3=False):
    """generated fields: isolated metal atoms (any charge is chemically acceptable) and a carbon chain; charges through the atom-block code
    and / or 'M  CHG' entries, isotopes and radicals through property lines of 1..8 entries; code 4 (doublet radical in the atom block)
    is not generated: the library reads it as no radical (recorded deviation, DESIGN 0.2)"""
    iso = {'Fe': [54, 56, 57], 'Zr': [90, 91], 'Ti': [46, 48], 'U': [235, 238], 'Sn': [118, 120], 'C': [12, 13, 14]}
    nm, nc = rnd.randint(1, 12), rnd.randint(0, 4)
    atoms = [{'s': rnd.choice(['Fe', 'Zr', 'Ti', 'U', 'Sn']), 'dd': 0, 'ccc': 0 if v3 else rnd.choice([0, 0, 1, 2, 3, 5, 6, 7])} for _ in range(nm)] + [{'s': 'C', 'dd': 0, 'ccc': 0} for _ in range(nc)]
    bonds = [[nm + j, nm + j + 1, 1, 0] for j in range(1, nc)]
    props = []
    def lines(kind, ents):
        while ents:
            k = 1 if v3 else rnd.randint(1, 8)
            props.append({'kind': kind, 'nn': len(ents[:k]), 'ents': ents[:k]})
            ents = ents[k:]
    metals = list(range(1, nm + 1))
    chg = rnd.sample(metals, rnd.randint(0, nm))
    lines('CHG', [[k, rnd.choice([-4, -3, -2, -1, 1, 2, 3, 4])] for k in chg])
    lines('ISO', [[k, rnd.choice(iso[atoms[k - 1]['s']])] for k in rnd.sample(range(1, nm + nc + 1), rnd.randint(0, nm + nc))])
    if nc:
        lines('RAD', [[nm + rnd.randint(1, nc), 2]])
    rnd.shuffle(props)
    return {'na': nm + nc, 'nb': len(bonds), 'atoms': atoms, 'bonds': bonds, 'props': props}


def repo_files(case):
    """the repository's own test files (written by other programs) must be read without a foreign exception"""
    from chython.files import SDFRead, RDFRead, MRVRead
    out = []
    for f in sorted(glob.glob(os.path.join(chy.REPO, 'test', '*'))):
        ext = f.rsplit('.', 1)[-1]
        if ext not in ('sdf', 'rdf', 'mrv'):
            continue
        rec = {'fmt': 'repo:' + os.path.basename(f), 'exc': '', 'w': [[], [], []], 'b': [[], [], []], 'meta': [], 'bmeta': []}
        try:
            if ext == 'mrv':
                n = len(list(MRVRead(open(f, 'rb'))))
            else:
                n = len(list((SDFRead if ext == 'sdf' else RDFRead)(f)))
            if n == 0:
                rec['exc'] = 'no-record-read'
        except Exception as e:
            rec['exc'] = type(e).__name__
        out.append(rec)
    return out


def rand_text(rnd, n, alphabet):
    return ''.join(rnd.choice(alphabet) for _ in range(n)).strip() or 'x'


def run(ck):
    rnd = random.Random(ck.seed)
    if not ck.replay:
        ck.model('mc-record-reader', 'MC_RecordReader', open(os.path.join(vlib.SPEC, 'mc', 'MC_RecordReader.cfg')).read())
        beh = reader_behaviours(600 if ck.quick else 6000, 10, ck.seed + 1)
    else:
        beh = []
    # the same behaviours on RDF files (molecule and reaction records); an RDF record keeps its metadata whatever happens to the
    # structure block, so only files whose damaged records keep their "M  END" apply
    beh = beh + [dict(b, fmt='rdf', key='rdf:' + b['key']) for b in beh if all(r['mend'] for r in b['file'])]
    beh = ck.select('reader-behaviours', beh) if not ck.replay else ck.select('reader-behaviours', [])
    if beh:
        recs = vlib.pmap('checks.c11', 'replay_reader', beh)
        ck.validate('reader-behaviours', 'Trace_RecordReader', beh, recs,
                    cfg=f'CONSTANTS MaxRecords = 4\n CH = {min(64, len(recs))}\nINIT TInit\nNEXT TNext\nCONSTRAINT Report\nINVARIANT TraceInv\nCHECK_DEADLOCK FALSE\n',
                    step_len=lambda r: len(r['calls']))
    # round trips
    corp = [s for s in chy.corpus() if len(s) < 70]
    special = ['[Zr+4].[Cl-].[Cl-].[Cl-].[Cl-]', '[Ti+4].[O-2].[O-2]', '[Si-4].[Na+].[Na+].[Na+].[Na+]', 'C[N+](C)(C)C.[Hf+4].[F-]', '[Th+4].[O-]C=O.[Fe+3]', '[C-4].[Li+].[Al+3]',
               '[Na+].[Cl-]', '[Fe+3]', '[O-2]', '[Ti+4]', '[Si-4]', '[13CH4]', '[2H]O[2H]', 'C[CH2]', 'C[O]', 'F/C=C/F', 'F/C=C\\F', 'C[C@H](N)O', 'N[C@@H](C)C(=O)O',
               'c1ccccc1', 'c1cc[nH]c1', 'C[Fe]C', 'C/C=C/C=C\\C', 'COCCCCC(=NOCCN)c1ccc(cc1)C(F)(F)F', 'CC(C)=NO', 'CC=NO', 'C[C@]1(F)CCCO1', 'FC(Cl)=[C@]=C(Br)I', '[235U]', 'C(=O)[O-].[NH4+]', 'CC(C)(C)c1ccc(O)cc1']
    alpha = string.ascii_letters + string.digits + ' _.-+:;,()[]{}#%*/=?!@^~|'
    sel = chy.pick(corp, 60 if ck.quick else 800, ck.seed) + special
    cases = []
    fmts = ['sdf', 'esdf', 'rdf', 'erdf', 'mrv']
    for k, s in enumerate(sel):
        for fmt in fmts:
            meta = {rand_text(rnd, rnd.randint(1, 12), string.ascii_letters + string.digits + '_ .-'): rand_text(rnd, rnd.randint(1, 30), alpha) + ('\n' + rand_text(rnd, 8, alpha) if rnd.random() < .3 else '')
                    for _ in range(rnd.randint(0, 3))}
            cases.append({'key': f'mol:{fmt}:{s}', 'kind': 'mol', 'fmt': fmt, 'mols': [s], 'coords': k % 4 != 3, 'thiele': k % 5 == 0, 'meta': meta,
                          'name': rand_text(rnd, rnd.randint(0, 40), alpha) if rnd.random() < .7 else '', 'rs': rnd.randrange(1 << 30)})
    # metadata whose value lines look like structure-block lines (the block ends at its FIRST 'M  END'; later ones are data)
    for k, s in enumerate(['CCO', 'c1ccccc1O', 'C[C@H](N)O', '[Na+].[Cl-]']):
        for j, meta in enumerate([{'first': 'alpha', 'note': 'terminator is\nM  END of block', 'last': 'omega'}, {'a': 'M  END', 'b': 'x'}, {'a': 'x', 'b': 'y\nM  END\nz'},
                                  {'k1': 'M  V30 END CTAB', 'k2': 'M  CHG  1   1   1\nM  END'}, {'k': 'v\nM  ENDING'}]):
            for fmt in fmts:
                cases.append({'key': f'mol:{fmt}:{s}:block-like-metadata-{j}', 'kind': 'mol', 'fmt': fmt, 'mols': [s], 'coords': k % 2 == 0, 'thiele': False, 'meta': meta, 'name': '',
                              'rs': rnd.randrange(1 << 30)})
    # the default reader (no configuration of double bonds from the drawing): tetrahedral centres, also those that are stereogenic
    # only once other centres are labelled (pseudo-asymmetric chains, ring cis/trans pairs, bridged rings)
    dependent = ['C[C@H](O)[C@H](O)[C@@H](C)O', 'C[C@H](O)[C@@H](O)[C@@H](C)O', 'C[C@H]1CC[C@@H](O)CC1', 'C[C@H]1CC[C@H](O)CC1', 'O[C@H]1C[C@@H](O)C1', 'C[C@H]1C[C@@H](C)C[C@H](C)C1',
                 'O[C@@H]1[C@H](O)[C@@H](O)[C@H](O)[C@@H](O)[C@H]1O', 'C[C@H](F)[C@@H](Cl)[C@H](C)F', 'C[C@@H]1CC[C@]2(CC1)CCO2', 'N[C@@H](C)C(=O)O', 'C[C@H](O)[C@@H](N)C(=O)O']
    for k, s in enumerate(dependent + chy.pick([x for x in corp if '@' in x], 20 if ck.quick else 400, ck.seed, 7)):
        for fmt in fmts:
            cases.append({'key': f'mol:{fmt}:{s}:default-reader', 'kind': 'mol', 'fmt': fmt, 'mols': [s], 'coords': True, 'thiele': False, 'meta': {}, 'name': '', 'cistrans': False,
                          'rs': rnd.randrange(1 << 30)})
    for k, s in enumerate(['CCO', 'CC(=O)N', 'c1ccccc1O', 'C[C@H](N)O', '[Na+].[Cl-]', 'CC(C)(C)O']):
        for fmt in fmts:
            cases.append({'key': f'mol:{fmt}:{s}:large-numbers', 'kind': 'mol', 'fmt': fmt, 'mols': [s], 'coords': k % 2 == 0, 'thiele': False, 'meta': {}, 'name': '', 'bignum': True,
                          'rs': rnd.randrange(1 << 30)})
    shapes = [(1, 0, 1), (2, 1, 1), (1, 0, 0), (0, 0, 1), (0, 1, 0), (3, 3, 3), (1, 2, 0), (0, 2, 2), (2, 0, 2)]
    for k in range(40 if ck.quick else 600):
        shape = rnd.choice(shapes)
        for fmt in ('rdf', 'erdf', 'mrv'):
            cases.append({'key': f'rxn:{fmt}:{shape}:{k}', 'kind': 'rxn', 'fmt': fmt, 'shape': shape, 'mols': [rnd.choice(sel) for _ in range(sum(shape))], 'coords': k % 3 != 0,
                          'meta': {f'k{j}': rand_text(rnd, 10, alpha) for j in range(rnd.randint(0, 2))}, 'name': rand_text(rnd, 12, alpha) if k % 2 else '', 'rs': rnd.randrange(1 << 30)})
    # reactions with a component that has no atoms, at every position of every role
    for k, (shape, pos) in enumerate([((2, 0, 2), 2), ((2, 0, 2), 3), ((2, 0, 2), 0), ((2, 0, 2), 1), ((1, 2, 1), 1), ((1, 2, 1), 2), ((1, 0, 3), 1), ((1, 0, 3), 2), ((3, 1, 1), 2), ((2, 1, 2), 3)]):
        mols = [rnd.choice(sel) for _ in range(sum(shape))]
        mols[pos] = '<empty>'
        for fmt in ('rdf', 'erdf', 'mrv'):
            cases.append({'key': f'rxn:{fmt}:{shape}:empty-at-{pos}', 'kind': 'rxn', 'fmt': fmt, 'shape': shape, 'mols': mols, 'coords': False, 'meta': {}, 'name': '', 'rs': rnd.randrange(1 << 30)})
    # more labelled atoms of one kind than one property line of a V2000 block holds (eight)
    for s in ['[13CH3][13CH2][13CH2][13CH2][13CH2][13CH2][13CH2][13CH2][13CH2][13CH3]', '[2H]C([2H])([2H])C([2H])([2H])C([2H])([2H])C([2H])([2H])[2H]', '[CH2][CH][CH][CH][CH][CH][CH][CH][CH][CH2]',
              '[13CH3][CH][13CH2][CH][13CH2][CH][13CH2][CH][13CH2][CH][13CH2][CH][13CH2][CH][13CH2][CH][13CH2][CH][13CH3]', '[Zr+4].[Zr+4].[Zr+4].[Zr+4].[Zr+4].[Zr+4].[Zr+4].[Zr+4].[Zr+4].[Si-4].[Si-4].[Si-4].[Si-4].[Si-4].[Si-4].[Si-4].[Si-4].[Si-4]',
              '[18OH2].[18OH2].[18OH2].[18OH2].[18OH2].[18OH2].[18OH2].[18OH2].[18OH2].[18OH2].[18OH2].[18OH2].[18OH2].[18OH2].[18OH2].[18OH2].[18OH2]']:
        for fmt in fmts:
            cases.append({'key': f'mol:{fmt}:{s}:many-labels', 'kind': 'mol', 'fmt': fmt, 'mols': [s], 'coords': False, 'thiele': False, 'meta': {}, 'name': '', 'rs': rnd.randrange(1 << 30)})
    cases = ck.select('round-trips', cases)
    if cases:
        res = vlib.pmap('checks.c11', 'observe', cases)
        for r in res:
            if '_observer_error' in r:
                raise vlib.Machinery(r['_observer_error'] + r['_tb'])
        keep = [(c, r) for c, r in zip(cases, res) if 'skip' not in r]
        ck.ood('skipped (no layout / explicit H on a stereocentre / unparsable)', len(cases) - len(keep))
        ck.validate('round-trips', 'Trace_C11', [c for c, _ in keep], [r for _, r in keep])
        for c, r in keep:
            ck.count('format:' + c['fmt'])
    fc = ck.select('other-programs', [{'key': f'{fmt}:{s}', 'smi': s, 'fmt': fmt} for s in chy.pick(corp, 60 if ck.quick else 1500, ck.seed, 2) for fmt in ('rdkit-v2000', 'rdkit-v3000')])
    if fc:
        res = vlib.pmap('checks.c11', 'foreign_records', fc)
        keep = [(c, r) for c, r in zip(fc, res) if 'skip' not in r]
        ck.validate('other-programs', 'Trace_C11', [c for c, _ in keep], [r for _, r in keep])
    # configuration across programs (wedges and 2D geometry), both directions
    stereo = [s for s in corp if '@' in s or '/' in s]
    wsel = chy.pick(stereo, 60 if ck.quick else 1200, ck.seed, 4) + ['C[C@H](N)C(=O)O', 'F/C=C/Cl', 'F/C=C\\Cl', 'N[C@@H](Cc1ccccc1)C(=O)O', 'C/C=C\\[C@@H](C)O', 'C[C@]1(F)CCCO1', 'C[C@@](F)(Cl)Br',
                                                                        'O[C@H]1CC[C@@H](Cl)CC1'.replace('Cl', 'F'), 'C[C@H](O)[C@@H](N)C', 'CC1(C)[C@@H]2CC[C@@]1(C)C(=O)C2', 'C/C(F)=C(/Cl)Br', 'O/N=C/c1ccccc1']
    # hand-made drawings of one centre (explicit hydrogens at any position, also opposite to the wedged atom)
    dc = [{'key': f'drawing:{h}:{opp}:{k}', 'h': h, 'opposite': opp, 'rs': ck.seed * 7777 + k * 13 + (5 if opp else 0) + len(str(h))}
          for k in range(40 if ck.quick else 600) for h, opp in (('', 0), ('implicit', 0), ('explicit', 0), ('explicit', 1))]
    dc = ck.select('drawings', dc)
    if dc:
        res = vlib.pmap('checks.c11', 'observe_drawing', dc)
        for r in res:
            if '_observer_error' in r:
                raise vlib.Machinery(r['_observer_error'] + r['_tb'])
        keep = [(c, r) for c, r in zip(dc, res) if 'skip' not in r]
        ck.ood('drawings: the other program sees no centre in the drawing', len(dc) - len(keep))
        if keep:
            ck.validate('drawings', 'Trace_Wedge', [c for c, _ in keep], [r for _, r in keep])
    wc = ck.select('configuration-across-programs', [{'key': f'wedge:{fmt}:{s}', 'smi': s, 'fmt': fmt} for s in wsel for fmt in ('v2000-aromatic', 'v3000-kekule', 'v2000-kekule')])
    if wc:
        res = vlib.pmap('checks.c11', 'observe_wedge', wc)
        for r in res:
            if '_observer_error' in r:
                raise vlib.Machinery(r['_observer_error'] + r['_tb'])
        keep = [(c, r) for c, r in zip(wc, res) if 'skip' not in r]
        ck.ood('configuration-across-programs: skipped (allene / non-carbon stereocentre / unreadable)', len(wc) - len(keep))
        out = ck.validate('configuration-across-programs', 'Trace_Wedge', [c for c, _ in keep], [r for _, r in keep])
        ck.ood('configuration-across-programs: outside the symmetry domain', out['out'].count('"ood"'))
    # the V2000 fields (CTfile columns): what the writer puts into the charge code / property lines, what the reader takes from them
    labelled = special + ['[13CH3][13CH2][13CH2][13CH2][13CH2][13CH2][13CH2][13CH2][13CH2][13CH3]', '[CH2][CH][CH][CH][CH][CH][CH][CH][CH][CH2]', 'C[N+](C)(C)C.[Hf+4].[F-]',
                          '[Zr+4].[Zr+4].[Si-4].[Si-4].[Cl-].[Na+]', '[Fe+3].[Fe+2].[O-2].[O-2]', '[Al+3].[N-3]', '[14CH3][O]', '[2H][C]([2H])[2H]', 'C[N+]([O-])=O', '[NH4+].[B-](F)(F)(F)F']
    if not ck.replay:
        mcf = lambda name, na: open(os.path.join(vlib.SPEC, 'mc', name + '.cfg')).read().replace('NA = 2', f'NA = {na}')
        ck.model('mc-v2000-fields', 'MC_MdlFields', mcf('MC_MdlFields', 2 if ck.quick else 3))
        ck.model('selftest-mc-v2000-fields-strict', 'MC_MdlFields', mcf('MC_MdlFields_strict', 2), expect_violation='StrictAgrees')
    fcases = [{'key': f'fields:w:{s}', 'dir': 'w', 'smi': s} for s in labelled + chy.pick(corp, 150 if ck.quick else 3000, ck.seed, 9)]
    frnd = random.Random(ck.seed * 31 + 5)
    fcases += [{'key': f'fields:r:{k}', 'dir': 'r', 'f': gen_fields(frnd)} for k in range(300 if ck.quick else 6000)]
    # the same questions for V3000 (CHG= / MASS= / RAD= keys of the atom line, brought to the record of MdlFields as one-entry lines)
    fcases += [{'key': f'fields3:w:{s}', 'dir': 'w', 'smi': s, 'v3': True} for s in labelled + chy.pick(corp, 100 if ck.quick else 2000, ck.seed, 10)]
    fcases += [{'key': f'fields3:r:{k}', 'dir': 'r', 'v3': True, 'rs': k, 'f': gen_fields(frnd, True)} for k in range(200 if ck.quick else 4000)]
    fcases = ck.select('v2000-fields', fcases)
    if fcases:
        res = vlib.pmap('checks.c11', 'observe_fields', fcases)
        for r in res:
            if '_observer_error' in r:
                raise vlib.Machinery(r['_observer_error'] + r['_tb'])
        keep = [(c, r) for c, r in zip(fcases, res) if 'skip' not in r]
        ck.ood('v2000-fields: molecule unparsable / generated block refused by the reader', len(fcases) - len(keep))
        out = ck.validate('v2000-fields', 'Trace_MdlFields', [c for c, _ in keep], [r for _, r in keep])
        ck.count('v2000-fields: blocks whose strict CTfile reading (M  CHG zeroes unlisted atoms) differs', out['out'].count('"strict"'))
        for c, r in keep:
            ck.count(('fields-v3000:' if c.get('v3') else 'fields-v2000:') + c['dir'])
    if ck.want('repository-files') and not ck.replay:
        recs = repo_files({})
        ck.validate('repository-files', 'Trace_C11', [{'key': r['fmt']} for r in recs], recs)
    ck.assumptions += ['double-bond configuration is compared where the written 2D geometry shows the stored sign (TLC evaluates the cross products): the formats carry it only through coordinates',
                       'coordinates come from RDKit\'s depiction (stereo-aware); molecules with an explicit hydrogen on a stereocentre are skipped (the recorded asymmetry)',
                       'metadata and titles are compared modulo the documented per-line strip']
    return ck.finish(rule='one case = one call sequence on a file, or one (object, format) round trip; distinct by key',
                     trusted=['TLC', 'spec/sys/RecordReader.tla', 'spec/trace/Trace_C11.tla', 'spec/sys/MdlFields.tla', 'spec/trace/Trace_MdlFields.tla', 'RDKit for 2D layout and as the other program'])
