"""C04 - implicit hydrogen counts and valence errors follow the element valence rules.

code -> spec: (a) every atom environment of the bounded grid is built through add_atom / add_bond and the stored count and the
answers of check_implicit are recorded; (b) every atom of corpus / exotic molecules in Kekule form; (c) whole molecules with
their check_valence set, formula, charge, radical flag and mass.  TLC (Trace_C04 with spec/core/Valence.tla) evaluates the rule
interpreter (tables exported from the working tree, documented semantics), the literal core valence model and the sums.
"""
import itertools
import random

import chy
import tables
import vlib

EXOTIC = ['C[N+](C)(C)C', 'OP(O)(=O)O', 'CS(=O)(=O)O', '[O-][Cl+3]([O-])([O-])O', 'F[P-](F)(F)(F)(F)F', '[Fe+2]', '[CH3]', 'C[S+](C)C', 'O=[N+]([O-])C',
          '[SiH4]', 'CB(O)O', '[Na+].[Cl-]', 'N#[N+][N-]C', '[C-]#[O+]', 'C=[N+]=[N-]', 'OS(=O)O', 'O=S=O', 'ClI(Cl)Cl', '[AlH3]', '[Mg+2]', 'C[Mg]Br', '[Cu]',
          '[H][H]', '[2H]O[2H]', 'OO', '[O][O]', '[NH4+]', '[OH3+]', '[BH4-]', 'P', 'S', 'FS(F)(F)(F)(F)F', 'C(C)(C)(C)(C)C', 'O(C)(C)C', 'CN(=O)=O', 'C=[O+]C',
          '[CH2-]C', '[CH2+]C', 'C[NH-]', 'C[O-]', 'C[OH+]C', 'FB(F)F', 'F[B-](F)(F)F', '[B+](C)C', 'C#[O+]', 'CC#[N+][O-]', 'C[N+]#N', 'C[N]C', 'C[O]', 'C[CH]C',
          'ClC(Cl)(Cl)Cl', 'BrCBr', 'ICI', 'C[Si](C)(C)C', 'CP(C)C', 'CSC', 'CS(C)=O', 'O=P(C)(C)C', 'C[S](C)(C)C', 'F[Cl]', 'N=O', '[N]=O', 'O=[N]=O', 'N(=O)[O]']


def env_case(case):
    from chython import MoleculeContainer
    from chython.periodictable import Element
    z, c, r, env = case['z'], case['c'], case['r'], case['env']
    m = MoleculeContainer()
    m.add_atom(Element.from_atomic_number(z)(charge=c, is_radical=bool(r)), 1)
    for k, (o, nz) in enumerate(env, 2):
        m.add_atom(Element.from_atomic_number(nz)(), k)
        m.add_bond(1, k, o)
    a = m.atom(1)
    return {'kind': 'atom', 'z': z, 'c': c, 'r': r, 'env': env, 'h': chy.ival(a.implicit_hydrogens), 'hc': chy.ival(a.implicit_hydrogens), 'built': 1,
            'adm': [[h, 1 if m.check_implicit(1, h) else 0] for h in range(0, 5)]}


def mol_atoms(case):
    """atom records (deduplicated by the caller) and one molecule record"""
    from chython import smiles
    from chython.periodictable import H
    built = 0
    try:
        if case.get('hyd'):
            # a centre with k explicit hydrogen atoms (more than any valence state admits for the larger k), then implicify_hydrogens():
            # it removes as many hydrogens as some valence state explains; what it stores must be what the rules give for what is left
            from chython import MoleculeContainer
            from chython.periodictable import Element
            z, c, k, sub = case['hyd']
            m = MoleculeContainer()
            m.add_atom(Element.from_atomic_number(z)(charge=c), 1)
            for j in range(k):
                m.add_bond(1, m.add_atom('H'), 1)
            for j in range(sub):
                m.add_bond(1, m.add_atom('C'), 1)
            m.implicify_hydrogens()
            built = 1
        else:
            m = smiles(case['smi'])
            m.kekule()
            if case.get('implicify'):      # explicit hydrogens everywhere, two more on one atom, then back
                rnd = random.Random(case['implicify'])
                m.explicify_hydrogens()
                heavy = [n for n, a in m._atoms.items() if a.atomic_number != 1]
                x = rnd.choice(heavy)
                for j in range(rnd.choice([1, 2])):
                    m.add_bond(x, m.add_atom('H'), 1)
                m.implicify_hydrogens()
                built = 1
    except Exception as e:
        return {'skip': type(e).__name__}
    if case.get('edit'):
        # a transaction mixing attribute changes with structural edits elsewhere, and edits outside transactions:
        # afterwards every stored count must be the one the rules give
        rnd = random.Random(case['edit'])
        built = 1
        try:
            nums = list(m._atoms)
            with m:
                for n in rnd.sample(nums, min(3, len(nums))):
                    a = m._atoms[n]
                    if rnd.random() < .5:
                        a.charge = max(-4, min(4, a.charge + rnd.choice([-1, 1])))
                    else:
                        a.is_radical = not a.is_radical
                x = m.add_atom(rnd.choice(['C', 'O', 'N', 'Cl']))
                m.add_bond(rnd.choice(nums), x, 1)
                bl = [(p, q) for p, q, b in m.bonds() if b._order == 1 and x not in (p, q)]
                if bl and rnd.random() < .5:
                    m.delete_bond(*rnd.choice(bl))
            if rnd.random() < .5:
                m.delete_atom(rnd.choice(nums))
        except Exception as e:
            return {'skip': 'edit:' + type(e).__name__}
    atoms = []
    mc = m.copy()
    for n, a in m._atoms.items():
        env = sorted([int(b._order), m._atoms[k].atomic_number] for k, b in m._bonds[n].items())
        mc.calc_implicit(n)
        atoms.append({'kind': 'atom', 'z': a.atomic_number, 'c': a._charge, 'r': 1 if a._is_radical else 0, 'env': env,
                      'h': chy.ival(a._implicit_hydrogens), 'hc': chy.ival(mc._atoms[n]._implicit_hydrogens), 'built': built, 'adm': [[h, 1 if m.check_implicit(n, h) else 0] for h in range(0, 5)]})
    idx = {n: i + 1 for i, n in enumerate(m._atoms)}
    sym2z = {a.atomic_symbol: a.atomic_number for a in m._atoms.values()}
    sym2z['H'] = 1
    try:
        mass = int(round(m.molecular_mass * 1000))
        brutto = sorted([sym2z[s], c] for s, c in m.brutto.items())
    except Exception:
        mass, brutto = 0, []
    mol = {'kind': 'mol', 'atoms': [{'z': a.atomic_number, 'c': a._charge, 'r': 1 if a._is_radical else 0, 'h': chy.ival(a._implicit_hydrogens),
                                     'mass': int(round(a.atomic_mass * 1000))} for a in m._atoms.values()],
           'cv': sorted(idx[n] for n in m.check_valence()), 'brutto': brutto, 'charge': int(m), 'radical': 1 if m.is_radical else 0,
           'mass': mass, 'hmass': int(round(H().atomic_mass * 1000))}
    return {'atoms': atoms, 'mol': mol}


def env_grid(centres, charges, neigh, maxb):
    types = [(o, z) for o in (1, 2, 3) for z in neigh if not (z == 1 and o > 1) and not (z in (9, 17) and o > 1)]
    for z in centres:
        for c in charges:
            for r in (0, 1):
                for k in range(0, maxb + 1):
                    for env in itertools.combinations_with_replacement(types, k):
                        yield {'z': z, 'c': c, 'r': r, 'env': [list(e) for e in env]}


def exception_envs():
    """every environment mentioned in an exception of any element, plus/minus one hydrogen-like variation"""
    from chython.periodictable import Element
    els = {x.atomic_number.fget(None): x.__name__ for x in Element.__subclasses__()}
    out = []
    for z, t in enumerate(tables.valence_tables(), 1):
        for c, r, h, env in t['exc']:
            out.append({'z': z, 'c': c, 'r': r, 'env': [list(e) for e in env]})
            if env:
                out.append({'z': z, 'c': c, 'r': r, 'env': [list(e) for e in env[:-1]]})
            out.append({'z': z, 'c': c, 'r': r, 'env': [list(e) for e in env] + [[1, 6]]})
            # hydrogens of the rule replaced by further neighbours (of the pattern's own kinds and carbon): "at least" semantics
            for tt in range(1, h + 1):
                for extra in {tuple(e) for e in env if e[0] == 1} | {(1, 6)}:
                    out.append({'z': z, 'c': c, 'r': r, 'env': [list(e) for e in env] + [list(extra)] * tt})
                if tt >= 2:
                    for extra in {tuple(e) for e in env if e[0] == 1}:
                        out.append({'z': z, 'c': c, 'r': r, 'env': [list(e) for e in env] + [list(extra)] * (tt - 2) + [[2, extra[1]]]})
        for v in t['common']:
            for k in range(0, min(v, 6) + 1):
                out.append({'z': z, 'c': 0, 'r': 0, 'env': [[1, 6]] * k})
    return out


def run(ck):
    files = {'tables.json': tables.all_tables_json()}
    centres = [5, 6, 7, 8, 9, 14, 15, 16, 17, 35, 53]
    if ck.quick:
        grid = list(env_grid(centres, (-1, 0, 1), (1, 6, 8), 4))
    else:
        grid = list(env_grid(centres, (-2, -1, 0, 1, 2), (1, 6, 7, 8), 4)) + list(env_grid(centres, (-1, 0, 1), (9, 16, 17, 6), 3))
    grid += exception_envs()
    seen, cases = set(), []
    for g in grid:
        key = f"{g['z']}:{g['c']}:{g['r']}:{sorted(map(tuple, g['env']))}"
        if key not in seen:
            seen.add(key)
            g['key'] = key
            cases.append(g)
    cases = ck.select('environment-grid', cases)
    if cases:
        recs = vlib.pmap('checks.c04', 'env_case', cases)
        ck.validate('environment-grid', 'Trace_C04', cases, recs, files=files)
        ck.exhaustive['environment-grid'] = True
        ck.count('core-model-domain', sum(1 for r in recs if r['z'] in (5, 6, 7, 8, 9) and r['c'] in (-1, 0, 1)))
    corp = chy.corpus()
    sel = chy.pick(corp, 300 if ck.quick else 4200, ck.seed) + EXOTIC
    extra = []
    extra += [{'key': f'hydride:{z}:{c}:{k}:{sub}', 'smi': f'hydride:{z}:{c}:{k}:{sub}', 'hyd': [z, c, k, sub]}
                   for z in (5, 6, 7, 8, 9, 14, 15, 16, 17, 33, 34, 35, 53) for c in (-1, 0, 1) for k in range(0, 7) for sub in (0, 1, 2)]
    extra += [{'key': f'implicified:{s}:{k}', 'smi': s, 'implicify': ck.seed * 991 + k + 1} for k, s in enumerate(chy.pick(corp, 100 if ck.quick else 1000, ck.seed, 6))]
    mcases = ck.select('molecules', extra + [{'key': s, 'smi': s} for s in sel] +
                       [{'key': f'edited:{s}:{k}', 'smi': s, 'edit': ck.seed * 977 + k + 1} for k, s in enumerate(chy.pick(corp, 150 if ck.quick else 1500, ck.seed, 4))])
    if mcases:
        res = vlib.pmap('checks.c04', 'mol_atoms', mcases)
        arecs, acases, mrecs, mc = [], [], [], []
        seen = set()
        for c, r in zip(mcases, res):
            if 'skip' in r:
                ck.ood('unparsable-or-unkekulisable')
                continue
            mrecs.append(r['mol'])
            mc.append(c)
            for a in r['atoms']:
                k = f"{a['z']}:{a['c']}:{a['r']}:{a['env']}:{a['h']}:{a['built']}"
                if k not in seen:
                    seen.add(k)
                    arecs.append(a)
                    acases.append({'key': 'env:' + k, 'smi': c['smi']})
        ck.validate('molecule-atoms', 'Trace_C04', acases, arecs, files=files)
        ck.validate('molecules', 'Trace_C04', mc, mrecs, files=files)
    ck.assumptions += ['mass is checked as a linear identity in milli-dalton integers (TLC has no reals)',
                       'the core valence model is asserted only on B C N O F (charge -1..+1 / neutral radicals) and the lowest valence of Si P S Cl Br I']
    return ck.finish(rule='one case = one atom environment (element, charge, radical, bond multiset) or one molecule; distinct by environment',
                     trusted=['TLC', 'spec/core/Valence.tla'])
