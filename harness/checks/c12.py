"""C12 - stereo signs are permutation-consistent and agree with an independent toolkit.

code -> spec (Trace_C12): exhaustive sign tables of _translate_tetrahedron_sign / _translate_cis_trans_sign /
_translate_allene_sign for every neighbour order / admissible pair; toolkit agreement through RDKit's reading of the original
text and of chython's rewriting; all 2^k label combinations of asymmetric molecules; labels kept only on stereogenic centres.
(The meaning of @ / @@ and / \\ themselves is judged by the reference reader in C03 and C02.)
"""
import itertools
import random
import re

import chy
import vlib
from checks.c01 import full_projection, allene_or_other_stereo

CENTRES = ['[C@](F)(Cl)(Br)I', '[C@@](F)(Cl)(Br)I', '[C@H](F)(Cl)Br', '[C@@H](F)(Cl)Br', 'F[C@H](Cl)Br', 'F[C@]([H])(Cl)Br', 'F[C@@](Cl)([H])Br',
           'C[C@H](N)O', 'N[C@@H](C)C(=O)O', 'C[C@]1(F)CCCO1', 'C[C@@H]1CCCO1', 'O1CC[C@@]2(C1)CCCN2', 'C[C@H](O)c1ccccc1', '[2H][C@](F)(Cl)Br',
           # a hydrogen-bearing centre that opens a later component; centres that are stereogenic only through the configuration of their arms
           'CC.[C@H](F)(Cl)Br', 'CC.[C@@H](F)(Cl)Br', '[Na+].[C@@H](C)(O)C([O-])=O', 'O.[C@@H](N)(C)C(=O)O', 'Cl.[C@H](N)(C)C(=O)O.O', 'C/C=C/[C@H](O)/C=C\\C', 'C/C=C/[C@@H](O)/C=C\\C',
           '[C@H](O)(/C=C/C)/C=C\\C', 'C/C=C/[C@H](N)/C=C\\C', 'C(\\C)=C/[C@](C)(N)/C=C\\C', 'Cl/C=C/[C@H](O)/C=C\\Cl']
DOUBLES = ['F/C(Cl)=C(/Br)I', 'F/C(Cl)=C(\\Br)I', 'F/C=C/Cl', 'F/C=C\\Cl', 'F/C(Cl)=C/Br', '[H]/C(F)=C(/[H])Cl', 'C/C=C/C=C/C', 'C/C=N/O', 'C/C=C=C=C/C',
           'F/C(Cl)=C=C=C(/Br)I', 'C1CCC/C=C/CCCC1']
ALLENES = ['FC(Cl)=[C@]=C(Br)I', 'FC(Cl)=[C@@]=C(Br)I', 'FC=[C@]=CCl', 'CC=[C@@]=CF', 'FC([H])=[C@]=C([H])Cl']


def tetra_tables(case):
    from chython import smiles
    m = smiles(case['smi'])
    out = []
    for n, env in m.stereogenic_tetrahedrons.items():
        if m._atoms[n]._stereo is None:
            continue
        hyd = [x for x in m._bonds[n] if m._atoms[x].atomic_number == 1]
        full = list(env) + hyd
        rows = []
        for k in (3, 4):
            if k > len(full) and not (k == 4 and len(full) == 3):
                continue
            pool = full if len(full) >= k else full
            for perm in itertools.permutations(pool, min(k, len(pool))):
                if len(perm) == 3 and len(full) == 4 and hyd and hyd[0] in perm:
                    continue       # a three-membered order must omit the hydrogen, not another neighbour
                if len(perm) == 3 and len(full) == 4 and not hyd:
                    continue       # four heavy neighbours: three-membered orders are pyramids seen from the fourth: separate semantics
                try:
                    s = m._translate_tetrahedron_sign(n, perm)
                except Exception as e:
                    s = 'raise:' + type(e).__name__
                rows.append({'env': list(perm), 's': (1 if s else 0) if isinstance(s, bool) else 9})
        out.append({'kind': 'tetra', 'rows': rows, 'hyd': hyd[0] if hyd else 0, 'smi': case['smi'], 'centre': n})
    return out


def ends_tables(case):
    from chython import smiles
    m = smiles(case['smi'])
    out = []

    def subs(a, partner):
        return [x for x, b in m._bonds[a].items() if x != partner and b._order != 8]
    for (n, k), env in m.stereogenic_cis_trans.items():
        i, j = m._stereo_cis_trans_centers[n]
        if m._bonds[i][j]._stereo is None:
            continue
        path = next(p for p in m.cumulenes if p[0] in (n, k) and p[-1] in (n, k))
        s1 = subs(n, path[1] if path[0] == n else path[-2])
        s2 = subs(k, path[-2] if path[-1] == k else path[1])
        rows = []
        for x in s1:
            for y in s2:
                try:
                    s = m._translate_cis_trans_sign(n, k, x, y)
                    rows.append({'x': x, 'y': y, 's': 1 if s else 0, 'canon': 1})
                except Exception as e:
                    rows.append({'x': x, 'y': y, 's': 9, 'canon': 1})
                # every other way of naming the same pair must describe the same relation
                for args in ((k, n, y, x), (n, k, y, x), (k, n, x, y)):
                    try:
                        s = m._translate_cis_trans_sign(*args)
                        rows.append({'x': x, 'y': y, 's': 1 if s else 0, 'canon': 0})
                    except Exception:
                        rows.append({'x': x, 'y': y, 's': 9, 'canon': 0})
        out.append({'kind': 'ends', 'rows': rows, 'smi': case['smi'], 'bond': [n, k]})
    for c, env in m.stereogenic_allenes.items():
        if m._atoms[c]._stereo is None:
            continue
        t1, t2 = m._stereo_allenes_terminals[c]
        path = next(p for p in m.cumulenes if len(p) % 2 and p[len(p) // 2] == c)
        s1 = subs(path[0], path[1])
        s2 = subs(path[-1], path[-2])
        rows = []
        for x in s1:
            for y in s2:
                for args in ((c, x, y), (c, y, x)):
                    try:
                        s = m._translate_allene_sign(*args)
                        rows.append({'x': x, 'y': y, 's': 1 if s else 0, 'canon': 1 if args[1] == x else 0})
                    except Exception:
                        rows.append({'x': x, 'y': y, 's': 9, 'canon': 1 if args[1] == x else 0})
        out.append({'kind': 'ends', 'rows': rows, 'smi': case['smi'], 'allene': c})
    return out


def toolkit(case):
    from chython import smiles
    from rdkit import Chem, RDLogger
    RDLogger.DisableLog('rdApp.*')
    t = case['smi']
    rec = {'kind': 'toolkit', 't': t, 'ok': 0, 'rd1': '', 'rd2': '', 'g': {'atoms': [], 'bonds': [], 'ct': [], 'rings': []}}
    try:
        m = smiles(t)
        m.kekule()
        m.thiele()
    except Exception:
        return rec
    if allene_or_other_stereo(m) or any(a._stereo is not None and a.atomic_number != 6 for a in m._atoms.values()) \
            or re.search(r'\[\d*(?!C[@H+\-\]:])[A-Za-z]{1,2}@', t):
        return rec         # non-carbon stereocentres (also when only the text marks them) / allenes: outside the claim
    r1 = Chem.MolFromSmiles(t)
    r2 = Chem.MolFromSmiles(str(m))
    if r1 is None or r2 is None:
        return rec
    g, _ = full_projection(m, rings=True)
    rec.update({'ok': 1, 'rd1': Chem.MolToSmiles(r1), 'rd2': Chem.MolToSmiles(r2), 'g': g, 'cs': str(m)})
    out = [rec]
    # the library's other spellings of the same molecule (random order, asymmetric closures) read by the independent toolkit
    rnd = random.Random(case.get('rs', 0))
    for k in range(case.get('nrand', 3)):
        random.seed(rnd.randrange(1 << 30))
        text = format(m, rnd.choice(['r', 'ra', 'rh']))
        rk = Chem.MolFromSmiles(text)
        if rk is None:
            continue
        out.append(dict(rec, rd2=Chem.MolToSmiles(rk), cs=text))
    # the other toolkit's spellings (marks at closing ring digits, other first atoms, other neighbour orders) read by the library
    for k in range(case.get('nrand', 3)):
        t2 = Chem.MolToSmiles(r1, doRandom=True)
        try:
            m2 = smiles(t2)
            m2.kekule()
            m2.thiele()
            r3 = Chem.MolFromSmiles(str(m2))
        except Exception:
            continue
        if r3 is None or allene_or_other_stereo(m2):
            continue
        g2, _ = full_projection(m2, rings=True)
        out.append(dict(rec, t=t2, rd2=Chem.MolToSmiles(r3), cs=str(m2), g=g2))
    return out


def isomers(case):
    from chython import smiles
    t = case['smi']
    try:
        m = smiles(t)
        m.kekule()
        m.thiele()
    except Exception:
        return {'skip': 1}
    text = format(m, 'm')
    marks = [x for x in re.finditer(r'@@|@', text)]
    k = len(marks)
    if not 1 <= k <= 4 or allene_or_other_stereo(m) or chy.cistrans(m, {n: i + 1 for i, n in enumerate(m._atoms)}):
        return {'skip': 1}
    strings = []
    for combo in itertools.product((0, 1), repeat=k):
        s = text
        for flip, x in sorted(zip(combo, marks), key=lambda q: -q[1].start()):
            if flip:
                s = s[:x.start()] + ('@' if x.group() == '@@' else '@@') + s[x.end():]
        v = smiles(s)
        v.kekule()
        v.thiele()
        # every label must have survived, otherwise the combination is not a distinct isomer description
        if sum(1 for a in v._atoms.values() if a._stereo is not None) != k:
            return {'skip': 1}
        strings.append(str(v))
    g, _ = full_projection(m, rings=True)
    return {'kind': 'isomers', 'g': g, 'strings': strings, 'k': k, 'smi': t}


def kept(case):
    from chython import smiles
    t = case['smi']
    try:
        m = smiles(t)
    except Exception:
        return {'skip': 1}
    if any(a._implicit_hydrogens is None for a in m._atoms.values()):
        try:
            m.kekule()
        except Exception:
            return {'skip': 1}
    g, idx = full_projection(m, rings=True)
    # positions (text order = atom order) of bracket atoms that carry a chirality mark in the text
    marks = []
    pos = 0
    for tok in re.finditer(r'\[[^\]]*\]|Cl|Br|[BCNOPSFIbcnops]', t.split()[0]):
        pos += 1
        if tok.group().startswith('[') and '@' in tok.group():
            marks.append(pos)
    if pos != len(m):
        return {'skip': 1}
    return {'kind': 'kept', 'g': g, 'marks': marks, 'smi': t}


def run(ck):
    rnd = random.Random(ck.seed)
    corp = chy.corpus()
    stereo = [s for s in corp if '@' in s or '/' in s or '\\' in s]
    recs, cases = [], []

    def add(part, fn, items):
        items = ck.select(part, items)
        if not items:
            return
        res = vlib.pmap('checks.c12', fn, items)
        rr, cc = [], []
        for c, r in zip(items, res):
            for q, x in enumerate(r if isinstance(r, list) else [r]):
                if isinstance(x, dict) and '_observer_error' in x:
                    raise vlib.Machinery(f'observer failed: {c} {x["_observer_error"]}\n{x["_tb"]}')
                if 'skip' in x:
                    ck.ood('skipped:' + part)
                    continue
                rr.append(x)
                cc.append({'key': f'{c["smi"]}#{q}', 'smi': c['smi']})
        if rr:
            res = ck.validate(part, 'Trace_C12', cc, rr)
            ck.ood('outside-domain:' + part, res['out'].count('"ood"'))
    sel = chy.pick(stereo, 60 if ck.quick else 600, ck.seed)
    add('tetrahedral-tables', 'tetra_tables', [{'smi': s} for s in CENTRES + sel])
    add('double-bond-and-allene-tables', 'ends_tables', [{'smi': s} for s in DOUBLES + ALLENES + sel])
    ck.exhaustive['tetrahedral-tables'] = True
    ck.exhaustive['double-bond-and-allene-tables'] = True
    sel2 = chy.pick(stereo, 250 if ck.quick else len(stereo), ck.seed, 3)
    polycyclic = ['O=C1CC[C@H]2[C@@H]1CC[C@@H]1COC[C@H]21', 'C[C@]12CC[C@H]3[C@@H](CCc4cc(O)ccc34)[C@@H]1CC[C@@H]2O',
                  'C[C@@H]1C[C@H]2[C@@H]3CCC4=CC(=O)C=C[C@]4(C)[C@@]3(F)[C@@H](O)C[C@]2(C)[C@@]1(O)C(=O)CO', 'CN1[C@H]2CC[C@@H]1[C@H]([C@H](C2)OC(=O)c1ccccc1)C(=O)OC',
                  'C[C@H]1CC[C@@H]2[C@@H](C1)CC[C@H]1CCCC[C@@H]21'.replace('C[C@H]1CC', 'O[C@H]1CC'), 'O=C1N[C@@H]2CS[C@@H](CCCCC(=O)O)[C@@H]2N1']
    closures = ['C/C=C1CC(C)CCC\\1', 'C1(=C/C)CC(C)CCC/1', 'C1=C/CCCCCCC/1', 'C1=C\\CCCCCCC/1', 'C/C=C1/CCCC(C)C1', 'F/C=C1/CCCC(=O)C1', 'C[C@H]1CC[C@]2(CC1)CCO2', 'C[C@H]1CC[C@@]2(CC1)CCO2',
                'O[C@H]1C[C@]2(C1)CCS2', 'O[C@H]1C[C@@]2(C1)CCS2', 'C[C@H]1CC[C@@H](O)CC1', 'C[C@H]1CC[C@H](O)CC1', 'C[C@@]12CCCC[C@H]1CCCC2', 'C1CC/C=C/CCC1']
    add('toolkit', 'toolkit', [{'smi': s, 'rs': ck.seed * 31 + k, 'nrand': 3 if ck.quick else 10} for k, s in enumerate(CENTRES + DOUBLES + polycyclic + closures + sel2)])
    add('isomers', 'isomers', [{'smi': s} for s in ['C[C@H](N)O', 'C[C@H](O)[C@@H](N)CC', 'C[C@H](O)[C@@H](N)[C@H](F)CC', 'N[C@@H](C)C(=O)N[C@@H](CO)C(=O)O',
                                                     'C[C@H]1CC[C@@H](N)C(=O)O1', 'C[C@@H]1C[C@H](O)[C@@H](N)CO1'] + sel2])
    nonstereo = ['C[C@H](C)O', 'C[C@@H](C)C', 'F[C@H](F)Cl', 'C[C@](C)(N)O', 'C[C@H](N)O', 'CC[C@H](C)O', '[C@H](F)(Cl)Br', 'C[C@H]1CCCCC1', 'C[C@@](F)(Cl)C',
                 'N[C@@H](C)C(=O)O', 'OC[C@H](O)CO', 'C[C@H](Cl)C[C@@H](Cl)C', 'F[C@](F)(F)Cl']
    add('kept', 'kept', [{'smi': s} for s in nonstereo + chy.pick(stereo, 300 if ck.quick else len(stereo), ck.seed, 9)])
    ck.assumptions += ['the meaning of @/@@ and / \\\\ is judged by the reference reader in C03/C02; here: permutation algebra, toolkit agreement, isomer separation, stereogenicity',
                       'toolkit agreement is claimed for carbon stereocentres and double bonds inside C01\'s symmetry domain',
                       'wedge bonds (add_wedge / _wedge_map) are exercised by C11 through 2D coordinates']
    return ck.finish(rule='one case = one centre / double bond table, or one molecule; distinct by (text, centre)',
                     trusted=['TLC', 'spec/core/{Stereo,Sym}.tla', 'RDKit as second reader/writer of texts (never the judge of a sign table)'])
