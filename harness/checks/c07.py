"""C07 - substructure search returns exactly the set of valid embeddings.

code -> spec: recorded get_mapping calls (molecule patterns cut from the target or from other molecules, one and two components;
query patterns from SMARTS and from the built-in rule tables; salts as targets; all combinations of automorphism_filter and
searching_scope; the operators) are validated by TLC (Trace_C07) against the declarative Embeddings of spec/sys/Match.tla
computed by TLC's own backtracking enumerator - soundness, completeness and absence of duplicates.
design level: MC_LazyProduct - the generator behind multi-component searches yields the Cartesian product exactly once each.
"""
import random

import chy
import qproj
import vlib

SMARTS = ['[C;D3]', 'C=O', '[O;D1]', '[N;D3;z1]', 'c1ccccc1', '[C;r5,r6]', '[A;!R]', 'C-,=C', 'C!:C', 'C~C', '[O,N;h1]', '[#6;x2]', '[C;z2]=[O,S]', 'C-;@C', 'C-;!@C',
          '[N;D2;z3;x2](=[N;D2;z2])=[N;D1]', '[C;D3;z2](=O)[O;D1]', '[S;D4;z3]([O;D1])(=[N;D1,D2;z2])(=[A])[A]', 'CC.O', '[Cl,Br].[Na,K]', '[M]', '[M][O;D1]', 'C(C)(C)C',
          '[C;a]', '[N;a;h1]', 'C1CC1', '[C;r3]', 'F', '[A]~[A]~[A]', '[C;h2]', '[C;h3][C;h2]']


def cut(t, rnd, k):
    start = rnd.choice(list(t._atoms))
    sel = [start]
    while len(sel) < k:
        fr = [x for n in sel for x in t._bonds[n] if x not in sel]
        if not fr:
            break
        sel.append(rnd.choice(fr))
    return sel


def record(p, pproj, pidx, porder, t, scope, flt, ops=True):
    tp, tidx = qproj.target_of(t)
    kw = {'automorphism_filter': bool(flt)}
    if scope is not None:
        kw['searching_scope'] = scope
    rec = {'p': pproj, 't': tp, 'scope': sorted(tidx[x] for x in scope) if scope is not None else [], 'filter': 1 if flt else 0, 'maps': [],
           'sub': 9, 'lt': 9, 'le': 9, 'eq': 9, 'exc': ''}
    try:      # a search that raises, or returns a mapping without one of the pattern atoms, is an observation (clause search-raised)
        rec['maps'] = [[tidx[mp[n]] for n in porder] for mp in p.get_mapping(t, **kw)]
        if ops:
            rec.update({'sub': int(p.is_substructure(t)), 'le': int(p <= t), 'lt': int(p < t), 'eq': int(p.is_equal(t))})
    except (KeyError, IndexError, TypeError, ValueError) as e:
        rec['maps'] = []
        rec['exc'] = type(e).__name__
        rec.update({'sub': 9, 'lt': 9, 'le': 9, 'eq': 9})
    return rec


def observe(case):
    from chython import smiles, smarts
    rnd = random.Random(case['rs'])
    try:
        t = smiles(case['t'])
        t.kekule()
        if case.get('thiele'):
            t.thiele()
    except Exception as e:
        return [{'skip': type(e).__name__}]
    out = []
    kind = case['kind']
    if kind == 'cut':
        for k in case['sizes']:
            sel = cut(t, rnd, k)
            if rnd.random() < .3 and len(t) > len(sel) + 2:      # a second component cut elsewhere
                rest = [x for x in t._atoms if x not in sel and not any(y in sel for y in t._bonds[x])]
                if rest:
                    sel = sel + [rnd.choice(rest)]
            p = t.substructure(sel)
            order = [n for n in sel if n in p._atoms]
            pp, pidx = qproj.pattern_of_molecule(p, order)
            scope = None
            if rnd.random() < .35:
                scope = set(rnd.sample(list(t._atoms), max(1, len(t) * 2 // 3))) | set(sel if rnd.random() < .5 else [])
            out.append(record(p, pp, pidx, order, t, scope, rnd.random() < .5))
    elif kind == 'other':
        try:
            o = smiles(case['p'])
            o.kekule()
        except Exception as e:
            return [{'skip': type(e).__name__}]
        for k in case['sizes']:
            sel = cut(o, rnd, k)
            p = o.substructure(sel)
            order = [n for n in sel if n in p._atoms]
            pp, pidx = qproj.pattern_of_molecule(p, order)
            out.append(record(p, pp, pidx, order, t, None, rnd.random() < .5))
        pp, pidx = qproj.pattern_of_molecule(t)
        out.append(record(t, pp, pidx, list(t._atoms), t, None, 0))        # the molecule against itself: automorphisms
    elif kind == 'pair':      # two molecules with the same graph that differ in configuration marks only (the matcher does not look at them)
        try:
            o = smiles(case['p'])
            o.kekule()
        except Exception as e:
            return [{'skip': type(e).__name__}]
        for a, b in ((o, t), (t, o)):
            pp, pidx = qproj.pattern_of_molecule(a)
            out.append(record(a, pp, pidx, list(a._atoms), b, None, 0))
    else:
        q = smarts(case['p']) if isinstance(case['p'], str) else None
        order = list(q._atoms)
        pp, pidx = qproj.pattern_of_query(q, order)
        for flt in (0, 1):
            scope = None
            if flt and rnd.random() < .4:
                scope = set(rnd.sample(list(t._atoms), max(1, len(t) // 2)))
            out.append(record(q, pp, pidx, order, t, scope, flt))
        if case.get('component_scopes'):      # scopes that leave out whole components of the target (every non-empty proper subset of them)
            comps = [sorted(c) for c in t.connected_components]
            for mask in range(1, (1 << len(comps)) - 1):
                scope = {x for k, c in enumerate(comps) if mask >> k & 1 for x in c}
                for flt in (0, 1):
                    out.append(record(q, pp, pidx, order, t, scope, flt, ops=False))
    return out


def observe_lazy(case):
    from chython._functions import lazy_product

    def gen(k):           # a real generator (consumed lazily), items 1..k
        for x in range(1, k + 1):
            yield x
    return {'lens': case['lens'], 'out': [list(t) for t in lazy_product(*[gen(k) for k in case['lens']])]}


LAZY_CFG = '''SPECIFICATION Spec
INVARIANT TypeOK
INVARIANT NoDuplicates
INVARIANT OnlyProductMembers
INVARIANT DoneComplete
INVARIANT DiagonalFirst
PROPERTY EventuallyComplete
CHECK_DEADLOCK FALSE
CONSTANT MaxLen = %d
 NGen = %d
'''


def run(ck):
    rnd = random.Random(ck.seed)
    corp = [s for s in chy.corpus() if len(s) <= 60]
    salts = ['[Na+].[Cl-]', 'CC(=O)[O-].[Na+]', 'CC(=O)O.CC(=O)O', 'C[N+](C)(C)C.[Cl-].O', 'c1ccccc1.c1ccccc1', 'OC(=O)C(O)=O.NCCN', '[K+].[K+].[O-]C(=O)C([O-])=O',
             'CCO.CCO.CCO', 'C1CC1.C1CC1', 'O=C=O.O']
    nt = 60 if ck.quick else 800
    targets = chy.pick(corp, nt, ck.seed) + salts
    cases = []
    for k, t in enumerate(targets):
        cases.append({'key': f'cut:{t}', 'kind': 'cut', 't': t, 'sizes': [1, 2, 3, 4, 6], 'rs': rnd.randrange(1 << 30), 'thiele': k % 3 == 0})
        cases.append({'key': f'other:{t}', 'kind': 'other', 't': t, 'p': rnd.choice(corp), 'sizes': [2, 3, 5], 'rs': rnd.randrange(1 << 30)})
        for s in rnd.sample(SMARTS, 5 if ck.quick else 12):
            cases.append({'key': f'smarts:{s}:{t}', 'kind': 'smarts', 't': t, 'p': s, 'rs': rnd.randrange(1 << 30), 'thiele': k % 2 == 0})
    # element lists with two-letter symbols whose letters spell other elements, against targets that contain those
    for s in ['[Cl,Br]-C', '[Si,P]', '[N,O]-C', 'C-[F,Cl,Br,I]', '[Sn,Na]~[A]', '[Co,Ni]', '[Cl,Br].[Na,K]']:
        for t in ['CCCl', 'BrCCB(C)C', 'CSC', 'C[Si](C)(C)I', 'NCCO', 'CC(F)CI', 'C=O.[Co]', 'N[Na]', '[Na+].[Cl-].NC']:
            cases.append({'key': f'smarts:{s}:{t}', 'kind': 'smarts', 't': t, 'p': s, 'rs': rnd.randrange(1 << 30), 'thiele': False})
    for a, b in [('C[C@H](N)O', 'C[C@@H](N)O'), ('C[C@H](N)O', 'CC(N)O'), ('F/C=C/F', 'F/C=C\\F'), ('F/C=C/F', 'FC=CF'), ('C[C@H]1CC[C@@H](C)CC1', 'C[C@H]1CC[C@H](C)CC1'), ('N[C@@H](C)C(=O)O', 'N[C@H](C)C(=O)O'),
                 ('CC=[C@]=CF', 'CC=[C@@]=CF'), ('C/C=C/C=C\\C', 'C/C=C/C=C/C'), ('CCO', 'CCO'), ('CCO', 'OCC'), ('CCO', 'CCN')]:
        cases.append({'key': f'pair:{a}:{b}', 'kind': 'pair', 't': b, 'p': a, 'rs': rnd.randrange(1 << 30), 'thiele': False})
    # patterns of several components under scopes that exclude whole components of the target
    for s in ['C.O', 'CC.N', 'C.N.O', 'CO.CN', 'C.C', '[O;D1].[N;D1]', 'CC']:
        for t in ['CCO.CCN.O', 'CCO.CCN', 'C[N+](C)(C)C.[Cl-].O', 'OCCO.NCCN.CC', 'CC.CC.CC']:
            cases.append({'key': f'smarts:{s}:{t}:component-scopes', 'kind': 'smarts', 't': t, 'p': s, 'rs': rnd.randrange(1 << 30), 'thiele': False, 'component_scopes': True})
    # cycles that exist only through a coordinate bond (ring perception ignores them, the matcher must not), acyclic patterns on them
    for s in ['CCO', 'NCCN', 'CCCC', 'C~O', 'CC', 'C1CO1', 'N~N']:
        for t in ['C1C~O1', 'N1CCN~1', 'C1CC~C1.CCCC', 'C1CCO~1', 'N1CC~N1', 'C1C~C1', 'O1CCN~1.NCCO']:
            cases.append({'key': f'smarts:{s}:{t}', 'kind': 'smarts', 't': t, 'p': s, 'rs': rnd.randrange(1 << 30), 'thiele': False})
    cases = ck.select('searches', cases)
    if cases:
        res = vlib.pmap('checks.c07', 'observe', cases)
        recs, rc = [], []
        for c, lst in zip(cases, res):
            if isinstance(lst, dict):
                raise vlib.Machinery(f'observer failed on {c["key"]}: {lst.get("_observer_error")}\n{lst.get("_tb")}')
            for q, r in enumerate(lst):
                if 'skip' in r:
                    ck.ood('unparsable')
                    continue
                if len(r['t']['atoms']) > 60 or len(r['maps']) > 3000:
                    ck.ood('too-large-for-the-complete-enumerator')
                    continue
                recs.append(r)
                rc.append(dict(c, key=f'{c["key"]}#{q}'))
        ck.validate('searches', 'Trace_C07', rc, recs)
        ck.count('mappings', sum(len(r['maps']) for r in recs))
        ck.count('with-scope', sum(1 for r in recs if r['scope']))
        ck.count('two-component-patterns', sum(1 for r in recs if any('.' in str(x) for x in [1]) and False))
    # lazy_product: the real generator on every combination of lengths (binding of MC_LazyProduct to the code)
    import itertools
    lcases = [{'key': f'lens:{l}', 'lens': list(l)} for n in (1, 2, 3) for l in itertools.product(range(0, 5 if n < 3 else 4), repeat=n)]
    lcases = ck.select('lazy-product-calls', lcases)
    if lcases:
        lrecs = vlib.pmap('checks.c07', 'observe_lazy', lcases)
        ck.validate('lazy-product-calls', 'Trace_Lazy', lcases, lrecs)
        ck.exhaustive['lazy-product-calls'] = True
    # design level: lazy_product
    if not ck.replay:
        ck.model('mc-lazy-product', 'MC_LazyProduct', LAZY_CFG % ((2, 2) if ck.quick else (3, 3)))
    ck.assumptions += ['completeness is evaluated for targets up to 60 atoms and result sets up to 3000 mappings (larger ones are counted as out of domain)',
                       'match_stereo is not exercised here (configuration of matches: C12 / C16)']
    return ck.finish(rule='one case = one get_mapping call (pattern, target, scope, filter); distinct by that tuple',
                     trusted=['TLC', 'spec/sys/Match.tla'])
