"""C18 - periodic table data are complete and mutually consistent.

Exhaustive and complete: one record per element (118) with every lookup, table key, reference isotope copy (element classes, the
two .pyx tables), mass computability and the query / dynamic variants, validated by TLC against spec/sys/Tables.tla (standard
symbol table literal in the spec); every (element, isotope, charge, hydrogen count, radical) is packed, compared with the
spec-level encoder and unpacked (Trace_C10); the matcher layout gives every attribute value its own bit (MC_Mask).
"""
import json
import os
import re

import chy
import tables
import vlib
from checks.c09 import MASK_CFG
from checks import c10


def pyx_list(path, name):
    src = open(path).read()
    body = re.search(name + r'(?:\[:\])? = \[(.*?)\]', src, re.S).group(1)
    return [x.strip() for x in body.replace('\n', ' ').split(',')]


def element_records():
    from chython.periodictable import Element, QueryElement, DynamicElement
    pack_ref = [int(x) for x in pyx_list(os.path.join(chy.REPO, 'chython/containers/_pack_v2.pyx'), 'common_isotopes')]
    unpack_ref = [int(x) for x in pyx_list(os.path.join(chy.REPO, 'chython/containers/_unpack_v0v2.pyx'), 'common_isotopes')]
    unpack_sym = pyx_list(os.path.join(chy.REPO, 'chython/containers/_unpack_v0v2.pyx'), 'elements')
    out = []
    for z in range(1, 119):
        rec = {'z': z, 'sym': '', 'by_sym': 0, 'by_num': '', 'dist': [], 'mass': [], 'mdl': 0, 'pack_ref': pack_ref[z] if z < len(pack_ref) else -999,
               'unpack_ref': unpack_ref[z] if z < len(unpack_ref) else -999, 'unpack_sym': unpack_sym[z] if z < len(unpack_sym) else '',
               'mass_nat': 0, 'mass_iso': [], 'qz': 0, 'qsym': 0, 'dz': 0, 'dsym': 0, 'qname': '', 'dname': '', 'rules': 0, 'nrules': -1, 'qch': [], 'ech': []}
        try:
            cls = Element.from_atomic_number(z)
            e = cls()
            rec['sym'] = e.atomic_symbol
            rec['by_num'] = cls.__name__
            rec['by_sym'] = Element.from_symbol(e.atomic_symbol)().atomic_number
            rec['dist'] = sorted(e.isotopes_distribution)
            rec['mass'] = sorted(e.isotopes_masses)
            rec['mdl'] = e.mdl_isotope
            try:
                rec['mass_nat'] = 1 if e.atomic_mass > 0 else 0
            except Exception:
                rec['mass_nat'] = 0
            for i in rec['dist']:
                try:
                    rec['mass_iso'].append(1 if cls(i).atomic_mass > 0 else 0)
                except Exception:
                    rec['mass_iso'].append(0)
            try:
                rec['qz'] = QueryElement.from_atomic_number(z)().atomic_number
                rec['qsym'] = QueryElement.from_symbol(e.atomic_symbol)().atomic_number
                rec['qname'] = QueryElement.from_atomic_number(z)().atomic_symbol
            except Exception:
                pass
            for ch in range(-4, 5):      # the whole charge range on the element and on the query variant (constructor and setter)
                try:
                    q = QueryElement.from_atomic_number(z)(charge=ch)
                    q2 = QueryElement.from_atomic_number(z)()
                    q2.charge = ch
                    if q.charge == ch and q2.charge == ch:
                        rec['qch'].append(ch)
                except Exception:
                    pass
                try:
                    if cls(charge=ch).charge == ch:
                        rec['ech'].append(ch)
                except Exception:
                    pass
            try:
                rec['dz'] = DynamicElement.from_atomic_number(z)(None).atomic_number
                rec['dsym'] = DynamicElement.from_symbol(e.atomic_symbol)(None).atomic_number
                rec['dname'] = DynamicElement.from_atomic_number(z)(None).atomic_symbol
            except Exception:
                pass
            try:
                rules = e._compiled_valence_rules
                rec['rules'] = 1
                rec['nrules'] = sum(len(v) for v in rules.values())
            except Exception:
                pass
        except Exception as ex:
            rec['exc'] = type(ex).__name__
        out.append(rec)
    return out


def run(ck):
    from chython.periodictable import Element
    recs = element_records()
    cases = [{'key': f'element:{r["z"]}'} for r in recs]
    if ck.want('elements') and not ck.replay:
        ck.validate('elements', 'Tables', cases, recs, files={'tables.json': tables.all_tables_json()})
        ck.exhaustive['elements'] = True
    # every (element, isotope) x charge x hydrogens x radical through the pack format
    iso = tables.iso_table()
    gc = []
    for z in range(1, 119):
        for i in [0] + iso[z - 1]:
            for c, h, r in ((-4, -1, 0), (4, 6, 1), (0, 0, 0), (-1, 3, 1), (2, 5, 0)):
                gc.append({'what': 'atom', 'z': z, 'iso': i, 'c': c, 'r': r, 'n': 1 + (z * 31 + i) % 4095, 'h': h, 'rs': 0})
    for c in range(-4, 5):
        for h in (-1, 0, 1, 2, 3, 4, 5, 6):
            for r in (0, 1):
                gc.append({'what': 'atom', 'z': 6, 'iso': 0, 'c': c, 'r': r, 'n': 9, 'h': h, 'rs': 0})
    if ck.quick:
        gc = gc[::3] + gc[-144:]
    for q, g in enumerate(gc):
        g['key'] = f'pack:{g["z"]}:{g["iso"]}:{g["c"]}:{g["h"]}:{g["r"]}:{q}'
    gc = ck.select('pack-representability', gc)
    if gc:
        files = {'tables.json': json.dumps({'mdl': [Element.from_atomic_number(z)().mdl_isotope for z in range(1, 119)]})}
        r2 = vlib.pmap('checks.c10', 'grid_case', gc)
        ck.validate('pack-representability', 'Trace_C10', gc, r2, files=files)
        ck.exhaustive['pack-representability'] = not ck.quick
    if not ck.replay:
        ck.model('matcher-bit-layout', 'MC_Mask', MASK_CFG)
    ck.assumptions += ['"contain the reference isotope" is read as: the three copies of the reference isotope agree and every tabulated isotope is representable relative to it (MDL\'s reference is the rounded mass, not always a tabulated isotope)']
    return ck.finish(rule='one case = one element record / one (element, isotope, charge, hydrogens, radical) pack point; finite and enumerated completely in the thorough tier',
                     trusted=['TLC', 'spec/sys/Tables.tla (standard symbol table literal)', 'spec/sys/Pack.tla', 'spec/sys/Mask.tla'])
