"""C10 - binary pack format: lossless round trip, stable published layout.

The .pyx sources (_pack_v2.pyx, _unpack_v0v2.pyx) are executed through the pyx-lite translation via the real
MoleculeContainer.pack / unpack / pack_len, ReactionContainer.* and chython.unpack.  TLC (Trace_C10 with spec/sys/Pack.tla)
requires pack() bytes to equal the spec-level Encode of the projection byte for byte, unpack(pack(m)) to project to m
(coordinates as IEEE half bits computed by TLC in integer arithmetic), the length helpers to report the true counts, the
published packs of pach/SI.zip to re-encode to the shipped bytes, and reaction frames to be role-correct also with empty roles.
"""
import itertools
import json
import math
import os
import random
import struct
import zipfile
import zlib

import chy
import vlib

_installed = False


def install():
    global _installed
    if not _installed:
        import pyxlite
        pyxlite.install(chy.REPO)
        _installed = True


def coord(x):
    if x == 0:
        return {'zero': 1, 's': 0, 'e': 0, 'm': 0}
    f, e = math.frexp(abs(x))
    return {'zero': 0, 's': 1 if x < 0 else 0, 'e': e, 'm': int(f * (1 << 25))}


def half(x):
    return struct.unpack('>H', struct.pack('>e', x))[0]


def pproj(m, back=False):
    atoms = []
    try:
        ctt = m._stereo_cis_trans_terminals
    except Exception:
        ctt = {}
    for n, a in m._atoms.items():
        d = {'num': n, 'z': a.atomic_number, 'iso': a._isotope or 0, 'chg': a._charge, 'rad': 1 if a._is_radical else 0,
             'h': chy.ival(a._implicit_hydrogens), 'st': chy.stereo_val(a._stereo), 'nbr': list(m._bonds[n]),
             'ord': [int(b._order) for b in m._bonds[n].values()], 'bst': [chy.stereo_val(b._stereo) for b in m._bonds[n].values()],
             'term': [list(ctt.get(n, (0, 0))) if b._stereo is not None else [0, 0] for b in m._bonds[n].values()]}
        if back:
            d['xh'], d['yh'] = half(a.x), half(a.y)
        else:
            d['x'], d['y'] = coord(a.x), coord(a.y)
        atoms.append(d)
    return {'atoms': atoms}


def to_v0(raw, m):
    """the pack in the earlier layout: header byte 0, bond orders five per two bytes (0 + 5 x 3 bits); everything else is the same"""
    n = len(m._atoms)
    nb = sum(len(x) for x in m._bonds.values()) // 2
    o_start = 4 + 9 * n + 3 * nb
    o_len = (nb * 3 + 7) // 8
    bits = ''.join(f'{b:08b}' for b in raw[o_start:o_start + o_len])
    orders = [int(bits[3 * k:3 * k + 3], 2) for k in range(nb)]
    out = bytearray()
    for k in range(0, nb, 5):
        g = orders[k:k + 5] + [0] * (5 - len(orders[k:k + 5]))
        w = g[0] << 12 | g[1] << 9 | g[2] << 6 | g[3] << 3 | g[4]
        out += bytes([w >> 8, w & 255])
    return bytes([0]) + bytes(raw[1:o_start]) + bytes(out) + bytes(raw[o_start + o_len:])


def observe(m, shipped=None):
    import chython
    from chython import MoleculeContainer
    rec = {'kind': 'mol', 'm': pproj(m), 'bytes': [], 'back': {'atoms': []}, 'plen': -1, 'dispatch': 0, 'shipped': list(shipped) if shipped else [], 'exc': '',
           'cs': '', 'cref': '', 'dunder': [], 'v0': [], 'back0': {'atoms': []}, 'exc0': '', 'dispatch0': 0}
    try:
        raw = m.pack(compressed=False)
        rec['bytes'] = list(raw)
        rec['dunder'] = list(zlib.decompress(bytes(m)))
        v0 = to_v0(raw, m)
        rec['v0'] = list(v0)
        try:
            b0 = MoleculeContainer.unpack(v0, compressed=False)
            rec['back0'] = pproj(b0, back=True)
            rec['dispatch0'] = 1 if pproj(chython.unpack(zlib.compress(v0)), back=True) == rec['back0'] else 0
        except Exception as e:
            rec['exc0'] = type(e).__name__
        b = MoleculeContainer.unpack(raw, compressed=False)
        rec['back'] = pproj(b, back=True)
        rec['plen'] = MoleculeContainer.pack_len(m.pack())
        b2 = chython.unpack(m.pack())
        rec['dispatch'] = 1 if pproj(b2, back=True) == rec['back'] else 0
    except Exception as e:
        rec['exc'] = type(e).__name__
    return rec


def decorate(m, rnd, warm=False):
    """random atom numbers up to 4095 and coordinates over (and beyond) the half-float range"""
    nums = rnd.sample(range(1, 4096), len(m))
    m.remap({n: 5000 + k for k, n in enumerate(list(m._atoms))})
    m.remap({5000 + k: nums[k] for k in range(len(nums))})
    if warm:      # the binary form is asked for before the coordinates change: the next one must follow them
        try:
            bytes(m), m.pack(), str(m)
        except Exception:
            pass
    for a in m._atoms.values():
        kind = rnd.random()
        if kind < .6:
            a.x, a.y = rnd.uniform(-30, 30), rnd.uniform(-30, 30)
        elif kind < .7:
            a.x, a.y = rnd.choice([0.0, 1.0, -1.0, 0.5, 65504.0, 65520.0, 1e5, -7e4]), rnd.choice([6.1e-5, 6.0e-8, 5.9e-8, 2.9e-8, 1e-9, -3e-6])
        elif kind < .8:
            a.x, a.y = 2.0 ** rnd.randint(-26, 17), -(2.0 ** rnd.randint(-26, 17)) * rnd.uniform(1, 2)
        else:
            a.x, a.y = rnd.uniform(-2, 2) * 10 ** rnd.randint(-8, 5), rnd.uniform(-2, 2) * 10 ** rnd.randint(-8, 5)
    return m


def mol_case(case):
    from chython import smiles
    install()
    rnd = random.Random(case['rs'])
    try:
        m = smiles(case['smi'])
        if case['form'] == 'kekule':
            m.kekule()
        elif case['form'] == 'thiele':
            m.kekule()
            m.thiele()
    except Exception:
        return {'skip': 1}
    if case.get('decorate'):
        decorate(m, rnd, warm=case['rs'] % 2)
    return observe(m)


def grid_case(case):
    """single atoms over the whole table / bond-order runs"""
    from chython import MoleculeContainer
    from chython.periodictable import Element
    install()
    rnd = random.Random(case['rs'])
    m = MoleculeContainer()
    if case['what'] == 'atom':
        e = Element.from_atomic_number(case['z'])
        try:
            m.add_atom(e(case['iso'] or None, charge=case['c'], is_radical=bool(case['r'])), case['n'])
        except Exception as ex:      # every grid point is a tabulated (element, isotope, charge) combination: refusing it is an observation
            return {'kind': 'mol', 'm': {'atoms': []}, 'bytes': [], 'back': {'atoms': []}, 'plen': -1, 'dispatch': 0, 'shipped': [],
                    'exc': 'construct-' + type(ex).__name__, 'cs': '', 'cref': '', 'dunder': [], 'v0': [], 'back0': {'atoms': []}, 'exc0': '', 'dispatch0': 0}
        if case.get('h') is not None:
            m._atoms[case['n']]._implicit_hydrogens = None if case['h'] < 0 else case['h']
    elif case['what'] == 'star':       # one centre with k neighbours
        m.add_atom('Fe', 1)
        for k in range(case['k']):
            m.add_atom(rnd.choice(['C', 'N', 'O', 'Cl']), k + 2)
            m.add_bond(1, k + 2, rnd.choice([1, 8]))
    else:
        orders = case['orders']
        for k in range(len(orders) + 1):
            m.add_atom('C', case['start'] + k)
        for k, o in enumerate(orders):
            m.add_bond(case['start'] + k, case['start'] + k + 1, o)
    return observe(m)


def shipped_case(case):
    from chython import MoleculeContainer
    install()
    z = zipfile.ZipFile(os.path.join(chy.REPO, 'pach', 'SI.zip'))
    from chython import smiles
    out = []
    corp = chy.corpus()
    for i in case['ids']:
        raw = zlib.decompress(z.read(f'data/{i}.pach'))
        m = MoleculeContainer.unpack(raw, compressed=False)
        rec = observe(m, shipped=raw)
        # the published pack must still decode to the constitution of the matching row of pach/lipophilicity.csv
        try:
            a = m.copy()
            a.kekule()
            a.thiele()
            b = smiles(corp[i])
            b.kekule()
            b.thiele()
            rec['cs'], rec['cref'] = format(a, '!s'), format(b, '!s')
        except Exception as e:
            rec['cs'], rec['cref'] = 'raise:' + type(e).__name__, corp[i]
        out.append(rec)
    return out


def rxn_case(case):
    from chython import smiles, ReactionContainer, MoleculeContainer
    import chython
    install()
    rnd = random.Random(case['rs'])
    pool = ['C', 'CC', 'CO', 'c1ccccc1', '[Na+]', 'CC(=O)O', 'N', 'C=C', 'F/C=C/F', 'C[C@H](N)O']
    r, a, p = case['r'], case['a'], case['p']
    mols = [smiles(rnd.choice(pool)) for _ in range(r + a + p)]
    rec = {'kind': 'rxn', 'r': r, 'a': a, 'p': p, 'packs': [list(m.pack(compressed=False)) for m in mols], 'bytes': [], 'plen': [[], [], []],
           'natoms': [len(m) for m in mols], 'br': -1, 'ba': -1, 'bp': -1, 'bpacks': [], 'exc': ''}
    try:
        rx = ReactionContainer(mols[:r], mols[r + a:], mols[r:r + a])
        raw = rx.pack(compressed=False)
        rec['bytes'] = list(raw)
        rec['plen'] = [list(x) for x in ReactionContainer.pack_len(rx.pack())]
        b = ReactionContainer.unpack(raw, compressed=False)
        rec['br'], rec['ba'], rec['bp'] = len(b.reactants), len(b.reagents), len(b.products)
        rec['bpacks'] = [list(m.pack(compressed=False)) for m in list(b.reactants) + list(b.reagents) + list(b.products)]
        b2 = chython.unpack(rx.pack())
        if not isinstance(b2, ReactionContainer) or len(b2.reactants) != len(b.reactants):
            rec['exc'] = 'dispatch-mismatch'
    except Exception as e:
        rec['exc'] = type(e).__name__
    return rec


def run(ck):
    import tables
    from chython.periodictable import Element
    rnd = random.Random(ck.seed)
    files = {'tables.json': json.dumps({'mdl': [Element.from_atomic_number(z)().mdl_isotope for z in range(1, 119)]})}
    corp = chy.corpus()
    sel = chy.pick(corp, 150 if ck.quick else 2000, ck.seed)
    special = ['F/C=C/F', 'C/C=C=C=C/C', 'FC(Cl)=[C@]=C(Br)I', 'FC(Cl)=[C@@]=C(Br)I', 'CC=[C@]=CC', 'CC=[C@@]=CC', 'CC(F)=[C@]=C(C)CC', 'CC(F)=[C@@]=C(C)CC', 'C/C=C=C=C\\C', 'C[C@H](N)O', '[Na+].[Cl-]', 'c1ccccc1', 'c1cc[nH]c1', 'C[CH2]', '[13CH4]', '[2H]O[2H]', 'C~C'.replace('~', '-'),
               'C[Fe](C)(C)(C)(C)C', 'O=S(=O)(O)O', '[Fe+3]', '[O-2]', '[Ti+4]', '[C-4]'.replace('[C-4]', '[Si-4]')]
    cases = [{'key': f'{s}|{f}|{d}', 'smi': s, 'form': f, 'decorate': d, 'rs': rnd.randrange(1 << 30)}
             for s in sel + special for f, d in (('kekule', 0), ('thiele', 1), ('asis', 1))]
    cases = ck.select('molecules', cases)
    if cases:
        recs = vlib.pmap('checks.c10', 'mol_case', cases)
        keep = [(c, r) for c, r in zip(cases, recs) if 'skip' not in r]
        out = ck.validate('molecules', 'Trace_C10', [c for c, _ in keep], [r for _, r in keep], files=files)
        ck.ood('outside-format-limits', out['out'].count('"ood"'))
    # the table: every element x tabulated isotope, charges, hydrogens, radical; boundary atom numbers
    gc = []
    iso = tables.iso_table()
    for z in range(1, 119):
        for i in [0] + iso[z - 1]:
            gc.append({'what': 'atom', 'z': z, 'iso': i, 'c': rnd.choice(range(-4, 5)), 'r': rnd.choice([0, 1]), 'n': rnd.choice([1, 15, 16, 255, 256, 4095]),
                       'h': rnd.choice([-1, 0, 1, 2, 3, 4, 5, 6])})
    for c in range(-4, 5):
        for h in (-1, 0, 3, 6):
            gc.append({'what': 'atom', 'z': 26, 'iso': 0, 'c': c, 'r': 0, 'n': 7, 'h': h})
    for n in range(0, 18):          # all phases of the 3-bit packer and of the 12-bit pair toggle
        for _ in range(3 if ck.quick else 12):
            gc.append({'what': 'chain', 'orders': [rnd.choice([1, 2, 3, 4, 8]) for _ in range(n)], 'start': rnd.choice([1, 14, 250, 4000])})
    for k in range(0, 16):
        gc.append({'what': 'star', 'k': k})
    for q, g in enumerate(gc):
        g['key'] = f'grid:{q}:{json.dumps(g, sort_keys=True)}'
        g['rs'] = rnd.randrange(1 << 30)
    gc = ck.select('grid', gc)
    if gc:
        recs = vlib.pmap('checks.c10', 'grid_case', gc)
        ck.validate('grid', 'Trace_C10', gc, recs, files=files)
        ck.exhaustive['grid'] = True
    # published packs
    ids = list(range(4200))
    if ck.quick:
        ids = chy.pick(ids, 240, ck.seed)
    sc = ck.select('published-packs', [{'key': f'SI.zip:{ids[k]}..', 'ids': ids[k:k + 30]} for k in range(0, len(ids), 30)])
    if sc and not ck.replay:
        res = vlib.pmap('checks.c10', 'shipped_case', sc)
        recs, cs = [], []
        for c, lst in zip(sc, res):
            if isinstance(lst, dict):
                raise vlib.Machinery(lst.get('_observer_error', '') + lst.get('_tb', ''))
            for i, r in zip(c['ids'], lst):
                recs.append(r)
                cs.append({'key': f'SI.zip:data/{i}.pach'})
        ck.validate('published-packs', 'Trace_C10', cs, recs, files=files)
    # reactions: every (r, a, p) with small counts; 255 in the thorough tier
    counts = [t for t in itertools.product((0, 1, 2, 3), repeat=3) if t != (0, 0, 0)]
    if not ck.quick:
        counts += [(255, 0, 1), (0, 255, 0), (1, 1, 255), (2, 0, 0), (0, 0, 2)]
    rc = ck.select('reactions', [{'key': f'rxn:{r}:{a}:{p}', 'r': r, 'a': a, 'p': p, 'rs': rnd.randrange(1 << 30)} for r, a, p in counts])
    if rc:
        recs = vlib.pmap('checks.c10', 'rxn_case', rc)
        ck.validate('reactions', 'Trace_C10', rc, recs, files=files)
        ck.exhaustive['reactions'] = True
    ck.assumptions += ['the C code is not executed: the .pyx sources are translated by harness/pyxlite.py with C integer semantics (stores truncated to the declared width, C division, bounds-checked arrays)',
                       'version-0 packs are not exercised (none is shipped)']
    return ck.finish(rule='one case = one molecule / grid point / published pack / reaction shape; distinct by key',
                     trusted=['TLC', 'spec/sys/Pack.tla', 'harness/pyxlite.py'])
