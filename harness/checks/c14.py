"""C14 - normalisation conserves composition, is idempotent, numbering independent, and produces the documented spellings.

code -> spec (spec/sys/Normalize.tla, spec/trace/Trace_C14.tla): histories of normalisation calls on a molecule and on a renumbered
twin are recorded (abstract state after every call); TLC evaluates the conservation laws on every step, idempotence and the
explicify/implicify inverse on every pair of consecutive calls, and equivariance against the twin.
"""
import random
from collections import Counter

import chy
import vlib
from checks.c01 import full_projection

OPS = ['canonicalize', 'standardize', 'fix_resonance', 'standardize_charges', 'neutralize', 'explicify', 'implicify', 'kekule', 'thiele', 'tautomers']


def state(m, light=False):
    try:
        st = _state(m, light)
        st['broken'] = 0
        return st
    except Exception as e:   # the object itself is inconsistent (an adjacency that names a missing atom, ...)
        g = {'atoms': [], 'bonds': []}
        return {'heavy': [], 'q': 0, 'h': -1, 'ih': -1, 'bad': 0, 'xh': 0, 's': 'broken:' + type(e).__name__, 'kek': 1, 'bh': 0, 'g': g, 'ga': g, 'sa': '', 'broken': 1}


def _state(m, light=False):
    heavy = Counter((a.atomic_number, a._isotope or 0) for a in m._atoms.values() if a.atomic_number != 1 or a._isotope not in (None, 1))  # D and T are kept
    ih = [a._implicit_hydrogens for a in m._atoms.values()]
    bad = sum(1 for x in ih if x is None)
    hat = sum(1 for a in m._atoms.values() if a.atomic_number == 1)
    xh = 0
    for n, a in m._atoms.items():
        if a.atomic_number == 1 and a._isotope in (None, 1) and len(m._bonds[n]) == 1:
            (k, b), = m._bonds[n].items()
            if int(b._order) == 1 and m._atoms[k].atomic_number != 1:
                xh += 1
    try:
        s = str(m)
    except Exception as e:
        s = 'str-failed:' + type(e).__name__
    st = {'heavy': [[z, i, c] for (z, i), c in sorted(heavy.items())], 'q': sum(a._charge for a in m._atoms.values()),
          'h': -1 if bad else sum(ih) + hat, 'ih': -1 if bad else sum(ih), 'bad': bad, 'xh': xh, 's': s,
          'kek': 0 if any(int(b._order) == 4 for *_, b in m.bonds()) else 1,
          'bh': sum(1 for n, a in m._atoms.items() if a.atomic_number == 1 and len(m._bonds[n]) > 1)}
    if not light:
        st['g'] = gproj(m)
        # the aromatic normal form: which Kekule structure kekule() picks depends on the atom order, so numbering independence is
        # stated on the Thiele form of the state (thiele without tautomer fixing; decided by C05)
        st['ga'], st['sa'] = st['g'], s
        if st['kek'] and not bad:
            try:
                t = m.copy()
                if t.thiele(fix_tautomers=False):
                    st['ga'], st['sa'] = gproj(t), str(t)
            except Exception:
                pass
    return st


def gproj(m):
    return {'atoms': [{'n': n, 'z': a.atomic_number, 'i': a._isotope or 0, 'c': a._charge, 'r': 1 if a._is_radical else 0,
                              'h': -1 if a._implicit_hydrogens is None else a._implicit_hydrogens} for n, a in sorted(m._atoms.items())],
            'bonds': sorted([min(a, b), max(a, b), int(bd._order)] for a, b, bd in m.bonds())}


def apply(m, op, ft, limit, doc=0):
    step = {'op': op, 'ft': ft, 'ret': 0, 'exc': '', 'forms': [], 'rules': []}
    try:
        if op == 'canonicalize':
            r = m.canonicalize(fix_tautomers=bool(ft), logging=True)
            step['rules'] = sorted({x[2] for x in r if x[1] >= 0})
        elif op == 'canonicalize-keep-kekule':
            r = m.canonicalize(fix_tautomers=bool(ft), keep_kekule=True, logging=True)
            step['rules'] = sorted({x[2] for x in r if x[1] >= 0})
        elif op == 'standardize':
            r = m.standardize(fix_tautomers=bool(ft), logging=True)
            step['rules'] = sorted({x[2] for x in r if x[1] >= 0})
        elif op == 'fix_resonance':
            r = m.fix_resonance()
        elif op == 'standardize_charges':
            r = m.standardize_charges()
        elif op == 'neutralize':
            r = m.neutralize()
        elif op == 'explicify':
            r = m.explicify_hydrogens()
        elif op == 'implicify':
            r = m.implicify_hydrogens()
        elif op == 'kekule':
            r = m.kekule()
        elif op == 'thiele':
            r = m.thiele(fix_tautomers=bool(ft))
        elif op == 'tautomers':
            forms = []
            for k, t in enumerate(m.enumerate_tautomers(limit=limit)):
                forms.append(state(t, light=True))
                if k >= limit:
                    break
            step['forms'] = forms
            r = len(forms)
        step['ret'] = len(r) if isinstance(r, list) else int(r)
    except Exception as e:
        step['exc'] = type(e).__name__
    step['st'] = state(m)
    step['st']['doc'] = doc
    return step


def graft(base, group, rnd):
    """bond a hydrogen-bearing carbon of the group to a hydrogen-bearing carbon of the base (both lose a hydrogen)"""
    from chython import smiles
    b = smiles(base)
    g = smiles(group)
    g.remap({n: n + len(b) + 10 for n in list(g._atoms)})
    ca = [n for n, a in b._atoms.items() if a.atomic_number == 6 and (a._implicit_hydrogens or 0) >= 1 and all(int(x._order) != 4 for x in b._bonds[n].values())]
    cb = [n for n, a in g._atoms.items() if a.atomic_number == 6 and (a._implicit_hydrogens or 0) >= 1]
    u = b | g
    if ca and cb:
        u.add_bond(rnd.choice(ca), rnd.choice(cb), 1)
    return u


def observe(case):
    from chython import smiles
    rnd = random.Random(case['rs'])
    try:
        if case.get('graft'):
            m = graft(case['smi'], case['graft'], rnd)
        else:
            m = smiles(case['smi'])
        for op in case.get('prep', ()):
            getattr(m, op)()
    except Exception as e:
        return {'skip': type(e).__name__}
    s0 = state(m)
    s0['doc'] = 1 if case['kind'] == 'doc' else 0
    try:
        dom = full_projection(m, rings=True)[0]
    except Exception:
        dom = None
    rec = {'kind': case['kind'], 'key': case['key'], 'eqv': case.get('eqv', 0) if dom is not None else 0, 'dom': dom or {}, 's0': s0, 'steps': [], 'f': [], 't0': {}, 'tsteps': [], 'same': 1}
    twin = None
    if rec['eqv']:
        nums = list(m._atoms)
        new = nums[:]
        rnd.shuffle(new)
        f = dict(zip(nums, new))
        twin = m.copy()
        twin.remap({n: n + 100000 for n in nums})
        twin.remap({n + 100000: f[n] for n in nums})
        rec['f'] = [[a, b] for a, b in f.items()]
        rec['t0'] = state(twin)
    for k, (op, ft) in enumerate(case['ops']):
        rec['steps'].append(apply(m, op, ft, case.get('limit', 40), s0['doc']))
        if k == 0 and case['kind'] == 'doc':  # the documented spelling is what one call produces
            try:
                want = smiles(case['want'])
                rec['same'] = int(m == want and str(m) == str(want))
                rec['want'] = str(want)
            except Exception as e:
                rec['same'] = 0
                rec['want'] = type(e).__name__
        if twin is not None:
            rec['tsteps'].append(apply(twin, op, ft, case.get('limit', 40)))
    return rec


def doc_pairs():
    from chython.algorithms.standardize.test.test_groups import data
    return list(data)


NEUTRAL = ['CC(=O)[O-].[Na+]', 'C[NH3+].[Cl-]', '[O-]c1ccccc1', '[NH3+]CC([O-])=O', 'C[N+](C)(C)C.[OH-]', 'CC(=O)[O-]', 'C[NH3+]', 'CS(=O)(=O)[O-].[K+]', 'c1cc[nH+]cc1',
           '[O-]C(=O)CC[NH3+]', 'OP(=O)([O-])[O-].[Na+].[Na+]', 'C[S-]', 'CC#[C-].[Li+]', 'C[O-].[Na+]', '[NH4+].[Cl-]', 'Nc1cc[nH+]cc1', 'OC(=O)CC(=O)[O-]']
HYDRO = ['[2H]C([2H])O', '[2H]O[2H]', '[3H]c1ccccc1', 'C[2H]', '[H]C([H])([H])O', '[H]c1ccccc1', '[H][H]', '[2H][H]', '[H]N([H])C(C)=O', '[H]OC(=O)C[N+]([H])([H])[H]', 'C[C@]([H])(N)O', '[H][C@]1(C)CCCO1', '[H][C@@]12CCCC[C@]1([H])CCCC2', 'F/C=C/[H]', '[H]/C(F)=C(/[H])Cl', 'N[C@@H]1CC[C@H](O)CC1', '[H]/C(C)=C(/[H])C', 'C[C@H]1CCCO1']
RESON = ['C[n+]1cc[nH]c1CC', 'Cn1cc[nH+]c1CC', 'CCC1=[NH+]C=CN1C', 'Cn1c[n+](CC)cc1', 'C[n+]1cc[nH]c1', 'CCc1[nH]cc[n+]1C', 'C[n+]1ccn(C)c1C', 'Cc1[nH]cc[nH+]1', 'Cc1cc[nH+][nH]1', 'Cc1c[nH]c(\\C=C\\2/C(=O)Nc3ccccc23)c1CCC(=O)O', 'C/C=C/C(=O)C', 'CC(=O)/C=C/c1ccccc1', 'C/C=C/C=C/C(C)=O', 'O=C1CCCC[C@@H]1C', 'C[C@H](C(C)=O)CC', 'C[N+](=O)[O-]', 'CN(=O)=O', 'C[N+](C)=CC=C[CH-]C', 'C=[N+]=[N-]', '[CH2-]C=[N+](C)C', 'C[S+]([O-])C', 'O=C1C=CC(=O)C=C1', 'CC(=O)C', 'OC=CC', 'Oc1ncccc1', 'O=c1cccc[nH]1',
         'Oc1nc(O)ccn1', 'CC(O)=CC(C)=O', 'N=C(N)N', 'NC(N)=[NH2+]', 'C[n+]1ccccc1[O-]', 'Cc1[nH]cnc1', 'c1cnc[nH]1', 'OC1=CC=CC=C1', 'CC(=N)O', 'CN=C(C)O', 'C1=CC=CC=C1',
         '[Fe+2].c1cc[cH-]c1.c1cc[cH-]c1', 'C[N+]1=CN(C)C=C1', 'Cn1cc[n+](C)c1', '[O-][n+]1ccccc1', 'C[P+](C)(C)[CH2-]', 'CS(C)(=O)=O', 'OS(=O)O', 'O=[N+]([O-])c1ccccc1']


def run(ck):
    rnd = random.Random(ck.seed)
    corp = chy.corpus()
    docs = doc_pairs()
    cases = []

    def add(kind, smi, ops, eqv, **kw):
        key = f"{kind}|{smi}|{kw.get('graft', '')}|{','.join(o + str(f) for o, f in ops)}|{','.join(kw.get('prep', ()))}"
        cases.append(dict(kind=kind, smi=smi, ops=ops, eqv=eqv, key=key, rs=rnd.randrange(1 << 30), **kw))

    n = 50 if ck.quick else 900
    sel = chy.pick(corp, n, ck.seed) + NEUTRAL + RESON + HYDRO
    for k, s in enumerate(sel):
        fixed = k < n  # the fixed corpus: numbering independence is claimed with tautomer fixing too
        ft = k % 2
        add('hist', s, [('canonicalize', ft), ('canonicalize', ft)], 1 if (not ft or fixed) else 0)
        add('hist', s, [('standardize', ft), ('standardize', ft), ('standardize_charges', 0), ('standardize_charges', 0)], 1 if (not ft or fixed) else 0)
        if k % 4 == 3 or k >= n:
            add('hist', s, [('canonicalize-keep-kekule', ft), ('canonicalize-keep-kekule', ft), ('thiele', 0)], 1 if (not ft or fixed) else 0)
        if k % 3 == 0 or s in HYDRO:
            add('hist', s, [('explicify', 0), ('implicify', 0), ('explicify', 0), ('implicify', 0), ('implicify', 0), ('explicify', 0), ('explicify', 0)], 1, prep=('kekule',))
            add('hist', s, [('neutralize', 0), ('neutralize', 0), ('fix_resonance', 0), ('fix_resonance', 0)], 1)
        if k % 3 == 1:
            ops = [(rnd.choice(OPS[:9]), 0) for _ in range(rnd.randint(3, 5))]
            add('hist', s, ops, 1)
        if (k % 6 == 2 or k >= n) and len(s) < 45:
            add('hist', s, [('tautomers', 0)], 1 if fixed else 0, limit=30)
    # documented spellings, alone and grafted on corpus molecules
    for raw, want in docs:
        add('doc', raw, [('standardize', 1), ('standardize', 1)], 0, want=want)
    small = [s for s in corp if len(s) < 40]
    # the same group twice on one atom (overlapping matches that share the any-atom of a rule)
    for raw, want in docs:
        if raw[0] == 'C' and want[0] == 'C' and len(raw) > 2 and raw[1] not in '=#(' and want[1] not in '=#(' and not any(ch.isdigit() or ch in '.| ' for ch in raw[1:] + want[1:]):
            add('doc', f'C({raw[1:]}){raw[1:]}', [('standardize', 1), ('standardize', 1)], 0, want=f'C({want[1:]}){want[1:]}')
    for k, (raw, want) in enumerate(docs if not ck.quick else rnd.sample(docs, 40)):
        base = rnd.choice(small)
        ft = 0
        add('hist', base, [('standardize', ft), ('standardize', ft), ('canonicalize', ft), ('canonicalize', ft)], 1, graft=raw)
    cases = ck.select('histories', cases)
    if cases:
        res = vlib.pmap('checks.c14', 'observe', cases)
        for r in res:
            if '_observer_error' in r:
                raise vlib.Machinery(r['_observer_error'] + r['_tb'])
        keep = [(c, r) for c, r in zip(cases, res) if 'skip' not in r]
        ck.ood('inputs the reader or the preparation refuses', len(cases) - len(keep))
        out = ck.validate('histories', 'Trace_C14', [c for c, _ in keep], [r for _, r in keep])
        ck.ood('valence-invalid inputs (only heavy-atom conservation and documented spellings apply)', out['out'].count('"ood"'))
        ck.count('calls', sum(len(r['steps']) for _, r in keep))
    return ck.finish(rule='one case = one history (input, calls) with its renumbered twin; distinct by key',
                     trusted=['TLC', 'spec/sys/Normalize.tla'])
