"""C16 - template application edits exactly what the template names.

code -> spec (spec/sys/Template.tla, spec/trace/Trace_C16.tla): for every match of a template on a molecule the structure, the template
(pattern atoms with mask flags, replacement atoms and bonds), the match and the product are recorded; TLC computes the product the
template denotes (numbers, attributes, bonds, deleted and detached atoms, frame) and compares; identity templates, the documented
deprotection tests, and Reactor runs on reordered / renumbered reactants are further record kinds.
"""
import itertools
import os
import random

import chy
import tables
import vlib
from checks.c05 import mproj

SYNTH = [  # (pattern, replacement, delete_atoms, valence-consistent)
    ('[A:1]-[O;D1:2]', '[A:1]-[Cl:2]', True, 1),                                   # matched atom, stated element
    ('[C:1][O;D1:2]', '[A:1][A:2][C:3](=[O:4])[C:5]', True, 1),                     # new atoms
    ('[C:1][O;D1:2]', '[A:1][A:2][13C;h3:3]', True, 1),                             # new atom with isotope and stated hydrogens
    ('[C:1][Cl,Br,I;D1:2]', '[A:1]', True, 1),                                      # deleted atom
    ('[N:1][C:2](=[O:3])', '[A:1]', True, 1),                                       # deleted atoms with the fragment hanging on them
    ('[C:1][O:2][C:3]', '[A:1][A:2]', True, 1),                                     # ether cleavage: what hangs on C:3 goes unless it is tied to the rest
    ('[C:1][S:2]', '[A:1]', True, 1),                                               # deleted ring / chain sulfur
    ('[C:1][N;D3:2]', '[A:1]', True, 1),                                            # deleted branching atom (two fragments, rings through it)
    ('[C:1]([O;M:2])[Cl,Br:3]', '[A:1]', True, 1),                                  # masked atom is neither named nor deleted
    ('[C;M:1][C:2](=[O;M:3])[O;D1:4]', '[A:2][N:4]', True, 1),                      # masked neighbours, element change
    ('[N;D3;z1:1]', '[A;+:1]', True, 1),                                            # charge
    ('[C:1]=[C:2]', '[A:1]-[A:2]', True, 1),                                        # bond order
    ('[C;z1;h1,h2,h3:1]-[C:2]=[O:3]', '[A:1]=[A:2]-[A:3]', True, 1),
    ('[C:1][N;D1:2]', '[A:1][N;+:2](=[O:3])[O;-:4]', True, 1),
    ('[C:1]#[N:2]', '[A:1](=[O:3])[A:2]', True, 1),
    ('[C:1][Cl,Br,I;D1:2]', '[A:1]', False, 1),                                     # delete_atoms off: the halogen stays, the bond goes
    ('[C:1][O;D1:2]', '[A:1].[A:2]', True, 1),                                      # bond removed, both atoms named
    ('[C;D3;z1:1]([O:2])([N:3])[C:4]', '[A;@@:1]([A:2])([A:3])[A:4]', True, 1),     # stereo override
    ('[C;D3;z1:1]([O:2])([N:3])[C:4]', '[A;@:1]([A:4])([A:3])[A:2]', True, 1),       # stereo override, neighbours named in another order
    ('[C;D2:1]=[C;D2:2]', '[A;@:1]1O[A;@@:2]1', True, 1),                            # marks on atoms that carry a ring closure of the replacement
    ('[C;D2:1]=[C;D2:2]', 'O1[A;@:1][A;@:2]1', True, 1),
    ('[C;D2:1]=[C;D2:2]', '[A;@@:1]1[A;@:2]O1', True, 1),
    ('[C;D2:1]=[C;D2:2]', '[A;@:1]1[C:3][A;@@:2]1', True, 1),
    ('[C;D2:1]=[C;D2:2]', '[C:3]1[A;@:1][A;@:2]1', True, 1),
    ('[C:1][O;D1:2]', '[A:1][S:2]', True, 1),
    ('[C:1][Cl,Br;D1:2]', '[A:1][O:2]', True, 1),                                   # halide to alcohol (can make two substituents of a centre equal)
    ('[c:1][Cl,Br:2]', '[A:1][C:3]#[N:4]', True, 1),
    ('[C:1][O;D1:2]', '[A:1][A:2][C;h1:3]', True, 0),                               # a stated hydrogen count that is not the default one
]
IDENT = ['[C:1][O:2]', '[C:1]=[C:2]', '[N:1][C:2]=[O:3]', '[C:1]([A:2])([A:3])[A:4]', '[c:1]:[c:2]', '[C:1][C:2]', '[A:1]~[A:2]~[A:3]']


def numbered(m):
    ident = {n: n for n in m._atoms}
    return {'atoms': [{'n': n, 'z': a.atomic_number, 'i': a._isotope or 0, 'c': a._charge, 'r': 1 if a._is_radical else 0, 'h': chy.ival(a._implicit_hydrogens),
                       'p': chy.parity(m, n, ident)} for n, a in sorted(m._atoms.items())],
            'bonds': sorted([min(a, b), max(a, b), int(bd._order)] for a, b, bd in m.bonds())}


def template_proj(q, r, delete):
    from chython.periodictable import AnyElement
    from chython.containers import MoleculeContainer
    pat = [{'n': n, 'masked': 1 if a.masked else 0} for n, a in q.atoms()]
    ratoms = []
    for n, a in r.atoms():
        anyel = isinstance(a, AnyElement)
        if isinstance(r, MoleculeContainer):
            h = chy.ival(a._implicit_hydrogens)
        else:
            h = a.implicit_hydrogens[0] if len(a.implicit_hydrogens) == 1 else -1
        ratoms.append({'n': n, 'any': 1 if anyel else 0, 'z': 0 if anyel else a.atomic_number, 'i': 0 if anyel else (a.isotope or 0), 'c': a.charge, 'r': 1 if a.is_radical else 0, 'h': h})
    rbonds = []
    for a, b, bd in r.bonds():
        o = bd.order if isinstance(bd.order, int) else bd.order[0]
        rbonds.append([a, b, int(o)])
    return {'pat': pat, 'rep': {'atoms': ratoms, 'bonds': rbonds}, 'del': bool(delete)}


def observe_apply(case):
    from chython import smiles, smarts
    from chython.reactor import Transformer
    try:
        m = smiles(case['smi'])
        m.kekule()
        if case.get('renumber'):   # before aromatisation: hydrogens of aromatic atoms cannot be recomputed on re-insertion
            m, _ = chy.renumbered(m, random.Random(case['rs']))
        if case.get('thiele'):
            m.thiele(fix_tautomers=False)
        q, r = smarts(case['pattern']), smarts(case['replacement'])
    except Exception as e:
        return [{'skip': type(e).__name__}]
    out = []
    try:
        flt = case.get('filter', True)
        t = Transformer(q, r, delete_atoms=case['delete'], automorphism_filter=flt, fix_aromatic_rings=bool(case.get('thiele')), fix_tautomers=False)  # aromatic input: hydrogens of patched ring atoms come back with kekule + thiele
        maps = [dict(mp) for mp in q.get_mapping(m, automorphism_filter=flt)]
        if not maps:
            return [{'skip': 'no-match'}]
        S = numbered(m)
        prods = list(t(m))
        T = template_proj(q, r, case['delete'])
        T['fix'] = 1 if case.get('thiele') else 0
        images = [sorted(mp.values()) for mp in maps]
        for k, mp in enumerate(maps[:case.get('maxmatch', 6)]):
            rec = {'kind': 'apply', 'exc': '', 'key': f"{case['key']}|match{k}", 'S': S, 'T': T, 'mu': [[a, b] for a, b in mp.items()], 'images': images, 'nprod': len(prods),
                   'filtered': 1 if flt else 0, 'rt': 1, 'Pdom': {'atoms': [], 'bonds': [], 'ct': [], 'rings': []}, 'valid': case.get('valid', 0) if not m.check_valence() else 0, 'bad': 0, 'P': {'atoms': [], 'bonds': []}, 'Pp': {'atoms': [], 'bonds': [], 'rings': []}}
            rec['req'] = []
            if k < len(prods):
                p = prods[k]
                rec['P'] = numbered(p)
                # configuration the replacement itself requests on a matched atom: the raw mark refers to the replacement's own neighbour
                # order, followed by the neighbours the atom keeps from the structure (in the structure's order)
                for rn, ra in r.atoms():
                    if getattr(ra, 'stereo', None) is None or rn not in mp or mp[rn] not in p._atoms:
                        continue
                    pn = mp[rn]
                    new_nb = [x for x in p._bonds[pn] if x not in m._atoms]
                    seq, ok = [], True
                    for x in r._bonds[rn]:
                        if x in mp:
                            seq.append(mp[x])
                        elif len(new_nb) == 1:
                            seq.append(new_nb[0])
                        else:
                            ok = False
                    seq += [y for y in m._bonds[pn] if y in p._bonds[pn] and y not in seq]
                    heavy = [y for y in seq if y in p._atoms and p._atoms[y].atomic_number != 1]
                    if ok and len(set(seq)) == len(seq) and set(seq) == set(p._bonds[pn]) and heavy == seq and len(seq) in (3, 4):
                        rec['req'].append({'n': pn, 'raw': 1 if ra.stereo else 0, 'seq': seq})
                if not any(int(b._order) == 4 for *_, b in p.bonds()):   # the valence model of the spec reads Kekule forms
                    rec['Pp'] = mproj(p)
                rec['bad'] = len(p.check_valence())
                # the product must be what its own canonical text denotes (a label left on a centre that the edit made
                # non-stereogenic disappears on reading: C02 holds for every molecule, so a difference is the patcher's)
                try:
                    from chython import smiles as _smiles
                    q2 = _smiles(str(p))
                    if case.get('thiele'):
                        q2.kekule()
                        q2.thiele(fix_tautomers=False)
                    rec['rt'] = 1 if str(q2) == str(p) else 0
                    if not rec['rt']:
                        from checks.c01 import full_projection
                        rec['Pdom'] = full_projection(p, rings=True)[0]
                except Exception:
                    rec['rt'] = 0
            out.append(rec)
    except Exception as e:
        out.append({'kind': 'apply', 'exc': type(e).__name__ + ':' + str(e)[:80], 'key': case['key'] + '|exc'})
    return out


def observe_identity(case):
    from chython import smiles, smarts
    from chython.reactor import Transformer
    try:
        m = smiles(case['smi'])
        m.kekule()
        m.thiele()
        q = smarts(case['pattern'])
    except Exception as e:
        return [{'skip': type(e).__name__}]
    try:
        t = Transformer(q, smarts(case['pattern'].replace('[C', '[A').replace('[N', '[A').replace('[c', '[A')) if case.get('anyrep') else q, fix_tautomers=False)
        p = next(t(m), None)
        if p is None:
            return [{'skip': 'no-match'}]
        return [{'kind': 'identity', 'exc': '', 'key': case['key'], 'S': numbered(m), 'P': numbered(p), 'sS': str(m), 'sP': str(p)}]
    except Exception as e:
        return [{'kind': 'identity', 'exc': type(e).__name__ + ':' + str(e)[:80], 'key': case['key']}]


def deprotection_docs():
    from chython.reactor import deprotection
    out = []
    for name in deprotection._groups:
        for rule in getattr(deprotection, '_' + name):
            if len(rule) >= 4:
                out.append((name, rule[0], rule[1], rule[2], rule[3], list(rule[4:])))
    return out


def observe_doc(case):
    from chython import smiles, smarts
    from chython.reactor import Transformer
    rec = {'kind': 'doc', 'exc': '', 'key': case['key'], 'same': 1}
    try:
        t = Transformer(smarts(case['pattern']), smarts(case['replacement']))
        m = smiles(case['smi'])
        m.canonicalize()
        p = next(t(m), None)
        if case['want'] is None:   # a decoy: the template must not apply
            rec['same'] = int(p is None)
        else:
            w = smiles(case['want'])
            w.canonicalize()
            rec['same'] = int(p is not None and str(p) == str(w))
            rec['got'] = str(p)
    except Exception as e:
        rec['exc'] = type(e).__name__ + ':' + str(e)[:80]
    return [rec]


def reactor_templates():
    from chython.reactor import reactions
    out = []
    for name in reactions.__all__:
        if name in ('PreparedReactor', 'prepare_reactor'):
            continue
        tpl = getattr(reactions, name + '_template', None) or vars(reactions).get(name + '_template')
        if not isinstance(tpl, dict):
            continue
        for c in tpl['templates']:
            groups = [c[x] for x in 'ABCD' if x in c]
            for rs in itertools.product(*groups):
                out.append((name, list(rs), c['product']))
    return out


def observe_reactor(case):
    from chython import smiles, smarts
    from chython.reactor import Reactor
    rnd = random.Random(case['rs'])
    try:
        mols = []
        for s in case['mols']:
            m = smiles(s)
            m.canonicalize()
            mols.append(m)
        pats = [smarts(x) for x in case['patterns']]
        prod = smarts(case['product'])
    except Exception as e:
        return [{'skip': type(e).__name__}]
    rec = {'kind': 'reactor', 'exc': '', 'key': case['key'], 'ref': [], 'alt': [], 'numbers': [], 'bad': 0}
    try:
        rx = Reactor(pats, [prod], one_shot=case['one_shot'], automorphism_filter=False)
        a = list(itertools.islice(rx(*mols), 40))
        if not a:
            return [{'skip': 'no-match'}]
        alt = []
        for m in mols:
            c, _ = chy.renumbered(m, rnd)   # colliding and shuffled numbers
            alt.append(c)
        alt.reverse()
        b = list(itertools.islice(rx(*alt), 40))
        def sig(r):
            return '.'.join(sorted(str(x) for x in r.products))
        rec['ref'] = sorted({sig(r) for r in a})
        rec['alt'] = sorted({sig(r) for r in b})
        if len(a) == 40 or len(b) == 40:    # truncated enumerations are not comparable
            rec['ref'] = rec['alt'] = []
        rec['numbers'] = [[n for x in r.products for n in x._atoms] for r in a + b]
        rec['bad'] = sum(len(x.check_valence()) for r in a + b for x in r.products)
    except Exception as e:
        rec['exc'] = type(e).__name__ + ':' + str(e)[:80]
    return [rec]


def observe_stages(case):
    """Reactor(one_shot=False) against the single-stage relation recorded with one-shot reactors on single molecules"""
    from chython import smiles, smarts
    from chython.reactor import Reactor
    ids = {}

    def mid(m):
        return ids.setdefault(str(m), len(ids) + 1)
    rec = {'key': case['key'], 'start': [], 'limit': case['limit'], 'step': [], 'outs': [], 'oneshot': [], 'exc': ''}
    mols = [smiles(s) for s in case['mols']]
    for m in mols:
        m.canonicalize()
    pat, prod = smarts(case['pattern']), smarts(case['product'])      # (the templates are the driver's own: unreadable = driver error)
    try:
        one = Reactor([pat], [prod], one_shot=True, automorphism_filter=False)
        many = Reactor([pat], [prod], one_shot=False, polymerise_limit=case['limit'], automorphism_filter=False)
        rec['start'] = [mid(m) for m in mols]
        # the single-stage relation, level by level (data collection only: the closure is computed by TLC)
        store = {mid(m): m for m in mols}
        done = {}
        frontier = list(store)
        for _ in range(case['limit'] + 1):
            nxt = []
            for k in frontier:
                if k in done:
                    continue
                res = []
                for r in one(store[k].copy()):
                    p = r.products
                    if len(p) != 1:
                        raise ValueError('template gave several molecules')
                    j = mid(p[0])
                    store.setdefault(j, p[0])
                    res.append(j)
                    nxt.append(j)
                done[k] = sorted(set(res))
                if len(done) > 400:
                    return [{'skip': 'too-many-molecules'}]
            frontier = nxt
        rec['step'] = [{'m': k, 'res': v} for k, v in sorted(done.items())]
        outs = list(itertools.islice(many(*[m.copy() for m in mols]), 3000))
        if len(outs) == 3000:
            return [{'skip': 'too-many-results'}]
        rec['outs'] = [sorted(mid(x) for x in r.products) for r in outs]
        rec['oneshot'] = [sorted(mid(x) for x in r.products) for r in one(*[m.copy() for m in mols])]
    except Exception as e:
        rec['exc'] = type(e).__name__ + ':' + str(e)[:80]
    return [rec]


def observe_stages2(case):
    """Reactor(one_shot=False) with two patterns: both orders of the reactants against the single-stage relation over ordered pairs"""
    from chython import smiles, smarts
    from chython.reactor import Reactor
    ids, store = {}, {}

    def mid(m):
        k = ids.setdefault(str(m), len(ids) + 1)
        store.setdefault(k, m)
        return k
    rec = {'key': case['key'], 'start': [], 'limit': case['limit'], 'step2': [], 'size': [], 'outs': [], 'outs2': [], 'exc': ''}
    mols = [smiles(s) for s in case['mols']]
    for m in mols:
        m.canonicalize()
    pats, prod = [smarts(x) for x in case['patterns']], smarts(case['product'])
    try:
        one = Reactor(pats, [prod], one_shot=True, automorphism_filter=False)
        many = Reactor(pats, [prod], one_shot=False, polymerise_limit=case['limit'], automorphism_filter=False)
        rec['start'] = [mid(m) for m in mols]
        done = {}

        def step2(a, b):
            if (a, b) not in done:
                res = set()
                for r in one(store[a].copy(), store[b].copy()):
                    if len(r.products) != 1:
                        raise ValueError('template gave several molecules')
                    res.add(mid(r.products[0]))
                done[(a, b)] = sorted(res)
                if len(done) > 600:
                    raise OverflowError
            return done[(a, b)]
        entries = {((rec['start'][0], rec['start'][1]), ()), ((rec['start'][1], rec['start'][0]), ())}
        for _ in range(case['limit']):      # data collection only (which ordered pairs occur): the closure itself is TLC's
            nxt = set()
            for ch, rest in entries:
                for new in step2(*ch):
                    prod_ = (new,) + rest
                    for k in range(len(prod_)):
                        r2 = tuple(sorted(prod_[:k] + prod_[k + 1:]))
                        for x in ch:
                            nxt.add(((prod_[k], x), r2))
                            nxt.add(((x, prod_[k]), r2))
            entries = nxt
        rec['step2'] = [{'a': a, 'b': b, 'res': v} for (a, b), v in sorted(done.items())]
        o1 = list(itertools.islice(many(*[m.copy() for m in mols]), 3000))
        o2 = list(itertools.islice(many(*[m.copy() for m in mols[::-1]]), 3000))
        if len(o1) == 3000 or len(o2) == 3000:
            return [{'skip': 'too-many-results'}]
        rec['outs'] = [sorted(mid(x) for x in r.products) for r in o1]
        rec['outs2'] = [sorted(mid(x) for x in r.products) for r in o2]
        rec['size'] = [sum(1 for a in store[k]._atoms.values() if a.atomic_number != 1) for k in range(1, len(ids) + 1)]
    except OverflowError:
        return [{'skip': 'too-many-pairs'}]
    except Exception as e:
        rec['exc'] = type(e).__name__ + ':' + str(e)[:80]
    return [rec]


def observe(case):
    return {'recs': {'apply': observe_apply, 'identity': observe_identity, 'doc': observe_doc, 'reactor': observe_reactor, 'stages': observe_stages, 'stages2': observe_stages2}[case['part']](case)}


# centres / double bonds that an edit makes non-stereogenic (the label has to go), each at an even and an odd pool position
DESYM = ['C[C@H](CCl)CO', 'C[C@H](CCl)CO', 'OC[C@H](C)CS', 'OC[C@H](C)CS', 'C/C=C(/CO)CCl', 'C/C=C(/CO)CCl', 'C[C@H](CBr)CO', 'C[C@H](CBr)CO', 'OC[C@@H](F)CCl', 'OC[C@@H](F)CCl',
         'CC(=O)OC[C@H](C)CO', 'CC(=O)OC[C@H](C)CO', 'C[C@H](CO)CS', 'CC[C@](C)(CO)CCl', 'CC[C@](C)(CO)CCl']
RINGY = ['C1CCSCC1', 'CC1CSCCN1C', 'C1CC2CCC1N2C', 'CN1CCCCC1', 'CN1CCC2CCCCC2C1', 'CSC1CCCS1', 'C1CSC2(CCCC2)S1', 'CN1C2CCC1CC(O)C2', 'CC(=O)N1CCCC1C(=O)O', 'COC1CCCO1',
         'C1COC2(CCCCC2)O1', 'CN(C)CC1CCCN1C', 'COC1OC(CO)C(O)C1O', 'ClC1CCC(Br)CC1O', 'O=C(N1CCCC1)c1ccccc1', 'CC(=O)NC1CCCCC1NC(C)=O', 'CSc1ccccc1', 'C1CC2(CSC2)C1',
         'N#Cc1ccc(Br)cc1', 'C=CC1CC=CCC1', 'C[C@H](O)[C@@H](N)C(=O)O', 'C[C@@H](Cl)[C@H](C)O', 'O[C@H]1CC[C@@H](Cl)CC1', 'N[C@@H](CO)C(=O)O', 'C[C@H](N)C(=O)N[C@@H](C)C(=O)O']


def run(ck):
    rnd = random.Random(ck.seed)
    files = {'tables.json': tables.all_tables_json()}
    corp = [s for s in chy.corpus() if len(s) < 60]
    pool = chy.pick(corp, 60 if ck.quick else 700, ck.seed) + RINGY + DESYM
    cases = []
    for ti, (p, r, d, valid) in enumerate(SYNTH):
        for k, s in enumerate(pool):
            cases.append({'part': 'apply', 'key': f'apply|{p}>>{r}|del{int(d)}|{s}|{k % 3}', 'smi': s, 'pattern': p, 'replacement': r, 'delete': d, 'valid': valid,
                          'thiele': k % 2 == 0, 'renumber': k % 3 == 1, 'filter': k % 4 != 3, 'rs': rnd.randrange(1 << 30), 'maxmatch': 3 if ck.quick else 8})
    docs = deprotection_docs()
    for name, p, r, smi, want, decoys in docs:   # the built-in deprotection collection on its own test molecules and on corpus molecules
        cases.append({'part': 'apply', 'key': f'apply|{p}>>{r}|del1|{smi}|doc', 'smi': smi, 'pattern': p, 'replacement': r, 'delete': True, 'valid': 1, 'thiele': True, 'renumber': True,
                      'filter': True, 'rs': rnd.randrange(1 << 30)})
    from chython.reactor import deprotection
    allrules = [(n, rule[0], rule[1]) for n in deprotection._groups for rule in getattr(deprotection, '_' + n)]
    for k, s in enumerate(pool):
        for n, p, r in rnd.sample(allrules, 6 if ck.quick else 25):
            cases.append({'part': 'apply', 'key': f'apply|{p}>>{r}|del1|{s}|corpus', 'smi': s, 'pattern': p, 'replacement': r, 'delete': True, 'valid': 1, 'thiele': True, 'renumber': k % 2 == 0,
                          'filter': True, 'rs': rnd.randrange(1 << 30), 'maxmatch': 3})
    apply_cases = ck.select('applications', cases)
    cases = []
    for p in IDENT:
        for k, s in enumerate(pool[:40 if ck.quick else 400] + RINGY):
            cases.append({'part': 'identity', 'key': f'identity|{p}|{s}|{k % 2}', 'smi': s, 'pattern': p, 'anyrep': k % 2 == 1})
    ident_cases = ck.select('identity', cases)
    cases = []
    for name, p, r, smi, want, decoys in docs:
        cases.append({'part': 'doc', 'key': f'doc|{name}|{smi}', 'pattern': p, 'replacement': r, 'smi': smi, 'want': want})
        for dsmi in decoys:
            cases.append({'part': 'doc', 'key': f'doc|{name}|{dsmi}|decoy', 'pattern': p, 'replacement': r, 'smi': dsmi, 'want': None})
    doc_cases = ck.select('documented', cases)
    cases = []
    acids = ['CC(=O)O', 'OC(=O)c1ccccc1', 'OC(=O)CCC(=O)O', 'CC(C)C(=O)O', 'OC(=O)C1CC1']
    amines = ['CN', 'NCc1ccccc1', 'CNC', 'C1CCNCC1', 'NCCN', 'Nc1ccccc1', 'CC(C)N']
    halides = ['Brc1ccccc1', 'Clc1ccncc1', 'Ic1ccc(C)cc1', 'Brc1ccc(Br)cc1']
    boron = ['OB(O)c1ccccc1', 'CC1(C)OB(OC1(C)C)c1ccccc1', 'OB(O)c1ccc(F)cc1']
    others = ['CC=O', 'O=Cc1ccccc1', 'CC(C)=O', 'C#Cc1ccccc1', 'CC#C', 'O=C=Nc1ccccc1', 'CN=C=O', 'CS(=O)(=O)Cl', 'O=S(=O)(Cl)c1ccccc1', 'CO', 'OCc1ccccc1', 'CC(C)O']
    everything = acids + amines + halides + boron + others
    for name, pats, prod in reactor_templates():
        for k in range(3 if ck.quick else 14):
            mols = [rnd.choice(everything) for _ in pats] + ([rnd.choice(everything)] if k % 3 == 2 else [])
            cases.append({'part': 'reactor', 'key': f'reactor|{name}|{pats}|{mols}|{k % 2}', 'patterns': pats, 'product': prod, 'mols': mols, 'one_shot': k % 2 == 0, 'rs': rnd.randrange(1 << 30)})
    # directed: reactants that do react
    directed = {'amidation': (acids, amines), 'esterification': (acids, ['CO', 'OCc1ccccc1', 'CC(C)O']), 'suzuki_miyaura': (halides, boron), 'sulfonamidation': (['CS(=O)(=O)Cl', 'O=S(=O)(Cl)c1ccccc1'], amines),
                'amine_isocyanate': (amines, ['O=C=Nc1ccccc1', 'CN=C=O']), 'reductive_amination': (['CC=O', 'O=Cc1ccccc1', 'CC(C)=O'], amines), 'sonogashira': (halides, ['C#Cc1ccccc1', 'CC#C']),
                'buchwald_hartwig': (halides, amines)}
    for name, pats, prod in reactor_templates():
        if name in directed and len(pats) == 2:
            for a, b in itertools.islice(itertools.product(*directed[name]), 4 if ck.quick else 30):
                for order in ((a, b), (b, a)):
                    cases.append({'part': 'reactor', 'key': f'reactor|{name}|{pats}|{list(order)}|directed', 'patterns': pats, 'product': prod, 'mols': list(order), 'one_shot': True,
                                  'rs': rnd.randrange(1 << 30)})
    # synthetic reactor templates with new atoms: their numbers collide with the molecules that do not take part
    for k, (a, b) in enumerate(itertools.product(['CCO', 'OCc1ccccc1', 'CC(C)O', 'OCCO'], ['CN', 'c1ccccc1', 'CC(=O)O', 'CCCCCC'])):
        for pats, prod in ((['[C:1][O;D1:2]'], '[A:1][A:2][C:3](=[O:4])[C:5]'), (['[C:1][O;D1:2]', '[C:3][N;D1:4]'], '[A:1][A:2][C:5](=[O:6])[A:4][A:3]')):
            cases.append({'part': 'reactor', 'key': f'reactor|synthetic|{pats}|{[a, b]}|{k % 2}', 'patterns': pats, 'product': prod, 'mols': [a, b] if k % 2 else [b, a], 'one_shot': k % 3 != 0,
                          'rs': rnd.randrange(1 << 30)})
    # a reactant with several matches of the second pattern (every combination with one match of the first must give its own product)
    for k, (a, b) in enumerate([('CCO', 'NCC(C)N'), ('OCCO', 'NCCCN'), ('CC(O)CO', 'NCCN'), ('CO', 'NCC(N)CN'), ('OCC(C)O', 'CC(N)CN')]):
        for pats, prod in ((['[C:1][O;D1:2]', '[C:3][N;D1:4]'], '[A:1][A:2][C:5](=[O:6])[A:4][A:3]'), (['[C:1][O;D1:2]', '[C:3][N;D1:4]'], '[A:1][A:2][S:5](=[O:6])(=[O:7])[A:4][A:3]')):
            for shot in (True, False):
                cases.append({'part': 'reactor', 'key': f'reactor|synthetic|{pats}|{prod}|{[a, b]}|several-matches|{int(shot)}', 'patterns': pats, 'product': prod, 'mols': [a, b], 'one_shot': shot,
                              'rs': rnd.randrange(1 << 30)})
    seen, uc = set(), []
    for c in cases:
        if c['key'] not in seen:
            seen.add(c['key'])
            uc.append(c)
    reactor_cases = ck.select('reactors', uc)
    # multi-stage mode: the work-list machine of ReactorQueue.tla (model checked for every small relation) and recorded runs against it
    if not ck.replay:
        mcq = lambda name: open(os.path.join(vlib.SPEC, 'mc', name + '.cfg')).read()
        ck.model('mc-reactor-queue', 'MC_ReactorQueue', mcq('MC_ReactorQueue_quick' if ck.quick else 'MC_ReactorQueue'), timeout=1800)
        for name, inv in (('MC_ReactorQueue_sens_lifo', 'BreadthFirst'), ('MC_ReactorQueue_sens_nodedup', 'NoDuplicates'), ('MC_ReactorQueue_sens_limit', 'BreadthFirst')):
            ck.model('selftest-' + name, 'MC_ReactorQueue', mcq(name), expect_violation=inv)
    if not ck.replay:
        ck.model('mc-reactor-queue-two-patterns', 'MC_ReactorQueue2', mcq('MC_ReactorQueue2_quick' if ck.quick else 'MC_ReactorQueue2'), timeout=3000)
        # without the growth assumption the work-list can miss mixtures (a mixture is keyed without the pair that led to it): TLC must show that
        ck.model('selftest-MC_ReactorQueue2_any', 'MC_ReactorQueue2', mcq('MC_ReactorQueue2_any'), expect_violation='OrderFree')
    two = [(['[C:1](=[O:2])[O;D1:3]', '[N;D1:4][C:5]'], '[C:1](=[O:2])[N:4][C:5]'), (['[C:1](=[O:2])[O;D1:3]', '[O;D1:4][C;z1:5]'], '[C:1](=[O:2])[O:4][C:5]'),
           (['[C;z1:1][Br:2]', '[O;D1:3][C;z1:4]'], '[C:1][O:3][C:4]')]
    two_inputs = [['OC(=O)CC(=O)O', 'NCCN'], ['OC(=O)CCC(=O)O', 'NCCO'], ['OC(=O)CCN', 'NCC(=O)O'], ['OC(=O)CN', 'OC(=O)CCN'], ['OC(=O)CO', 'OCC(=O)O'], ['BrCCBr', 'OCCO'], ['BrCCO', 'OCCBr'],
                  ['OC(=O)c1ccc(cc1)C(=O)O', 'OCCO'], ['CC(=O)O', 'NCCN'], ['OC(=O)CC(=O)O', 'CN']]
    s2cases = [{'part': 'stages2', 'key': f'stages2|{pp}>>{q}|{mols}|{lim}', 'patterns': pp, 'product': q, 'mols': mols, 'limit': lim}
               for pp, q in two for mols in two_inputs for lim in ((1, 2) if ck.quick else (1, 2, 3))]
    s2cases = ck.select('multi-stage-two-patterns', s2cases)
    if s2cases:
        res = vlib.pmap('checks.c16', 'observe', s2cases)
        recs, keys, skipped = [], [], 0
        for c, r in zip(s2cases, res):
            if '_observer_error' in r:
                raise vlib.Machinery(r['_observer_error'] + r['_tb'])
            for x in r['recs']:
                if 'skip' in x or not x['outs'] and not x['exc']:
                    skipped += 1
                    continue
                recs.append(x)
                keys.append(c)
        ck.ood('multi-stage-two-patterns: template does not match / enumeration too large', skipped)
        if recs:
            out = ck.validate('multi-stage-two-patterns', 'Trace_Reactor2', keys, recs)
            ck.ood('multi-stage-two-patterns: a product is not larger than its reactants (completeness not claimed)', out['out'].count('"ood"'))
    stage_templates = [('[C;h1,h2,h3:1]', '[C:1]Cl'), ('[O;D1;h1:1]', '[O:1]C'), ('[C:1][Cl:2]', '[C:1]'), ('[C;h2,h3:1]-[C;h2,h3:2]', '[C:1]=[C:2]'), ('[N;h1,h2:1]', '[N:1]C(C)=O'),
                       ('[C:1]=[C:2]', '[C:1]1[C:2]O1'), ('[C:1](=[O:2])[O;D1:3]', '[C:1](=[O:2])[O:3]C'), ('[C;z4;h1:1]', '[C:1]F')]
    stage_inputs = [['CC'], ['CCC'], ['OCCO'], ['OCC(O)CO'], ['ClCCCl'], ['ClC(Cl)Cl'], ['CO', 'CCO'], ['NCCN'], ['C=CC=C'], ['OC(=O)CC(=O)O'], ['c1ccccc1'], ['Cc1ccccc1'], ['CC', 'CC'],
                    ['NCCO', 'OCC'], ['C=CCO'], ['ClCC=C', 'CO'], ['OC(=O)c1ccccc1', 'CCl']]
    scases = [{'part': 'stages', 'key': f'stages|{p}>>{q}|{mols}|{lim}', 'pattern': p, 'product': q, 'mols': mols, 'limit': lim}
              for p, q in stage_templates for mols in stage_inputs for lim in ((1, 2) if ck.quick else (1, 2, 3, 4))]
    stage_cases = ck.select('multi-stage', scases)
    if stage_cases:
        res = vlib.pmap('checks.c16', 'observe', stage_cases)
        recs, keys, skipped = [], [], 0
        for c, r in zip(stage_cases, res):
            if '_observer_error' in r:
                raise vlib.Machinery(r['_observer_error'] + r['_tb'])
            for x in r['recs']:
                if 'skip' in x or not x['outs'] and not x['exc']:
                    skipped += 1
                    continue
                recs.append(x)
                keys.append(c)
        ck.ood('multi-stage: template does not match / enumeration too large', skipped)
        if recs:
            ck.validate('multi-stage', 'Trace_Reactor', keys, recs)
    for part, cs in (('applications', apply_cases), ('identity', ident_cases), ('documented', doc_cases), ('reactors', reactor_cases)):
        if not cs:
            continue
        res = vlib.pmap('checks.c16', 'observe', cs)
        recs, keys, skipped = [], [], 0
        for c, r in zip(cs, res):
            if '_observer_error' in r:
                raise vlib.Machinery(r['_observer_error'] + r['_tb'])
            for x in r['recs']:
                if 'skip' in x:
                    skipped += 1
                    continue
                recs.append(x)
                keys.append({'key': x['key'], **{k: v for k, v in c.items() if k not in ('key',)}})
        ck.ood(f'{part}: template does not match / input not readable', skipped)
        if recs:
            ck.validate(part, 'Trace_C16', keys, recs, files=files)
    return ck.finish(rule='one case = one (template, molecule, match) application / identity template / documented test / reactor run; distinct by key',
                     trusted=['TLC', 'spec/sys/Template.tla', 'spec/core/Valence.tla'])
