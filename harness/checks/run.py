"""dispatcher: python -m checks.run <ID> --tier quick|thorough [--replay path]"""
import importlib
import sys

if __name__ == '__main__':
    if len(sys.argv) < 2:
        print('usage: check <ID> [--tier quick|thorough] [--replay path]')
        sys.exit(2)
    pid = sys.argv[1]
    mod = importlib.import_module('checks.' + pid.lower())
    from vlib import main
    main(pid, mod.run)
