"""prints the prompt given to a mutation-seeding sub-agent: the property text and its scratch worktree, nothing from /verif"""
import json, sys
pid, wt = sys.argv[1], sys.argv[2]
n = sys.argv[3] if len(sys.argv) > 3 else '3'
p = {json.loads(l)['id']: json.loads(l) for l in open('/verif/properties.jsonl')}[pid]
print(f"""You are helping to evaluate a verification effort for the Python cheminformatics library "chython". Your job is to write
{n} DIFFERENT realistic faulty changes ("seeded defects") to the library, each of which breaks the semantic property below while the library
still imports and the existing test suite still passes.

Work ONLY inside your private git worktree of the repository: {wt}  (never touch /repo or /verif, do not read /verif).

How to run the library from the worktree (the sandbox has no network; an incompatibility between the pinned tree and the installed
CachedMethods package is bridged by a small shim that must come first on PYTHONPATH):
    cd {wt} && PYTHONPATH=/tmp/seed/shim:{wt} /venv/bin/python your_script.py
Existing test suite (must still pass after each change; 243 tests pass with the shim, 30 of them without it):
    cd {wt} && PYTHONPATH=/tmp/seed/shim /venv/bin/python -m pytest -q -p no:cacheprovider --timeout=900
    cd {wt} && /venv/bin/python -m pytest -q -p no:cacheprovider --timeout=900 --continue-on-collection-errors   (expect exactly "30 passed")
There is no Cython: the .pyx files are not compiled and the pure-python fallbacks are used; you may still change .pyx files if the
property concerns them, but prefer the python sources.

THE PROPERTY ({pid}: {p['title']})
{p['statement']}
Scope of the quantifier: {p['quantifier']['text']}
Files where the behaviour lives: {', '.join(p['anchors']['files'])}

WHAT TO PRODUCE
For each k = 1..{n} create the directory /tmp/seed/out_{pid}/m<k>/ containing
  patch.diff   a unified diff (git diff, relative to the worktree root, appliable with `git apply`) of ONE change to files under chython/
  demo.py      a small program that exits 0 on the unchanged tree and exits 1 (printing what went wrong) with the change applied; it must
               run with  PYTHONPATH=/tmp/seed/shim:<tree> /venv/bin/python demo.py
  meta.json    {{"property": "{pid}", "summary": "...what the change does...", "needs": "...what specific situation it needs in order to manifest..."}}
Requirements for every change:
  * it must look like a plausible programming mistake or a well-meant refactoring/optimisation (an off-by-one, a swapped argument, a dropped
    cache flush, a wrong table entry, a missing case, a condition that is slightly too strong or too weak ...), not sabotage;
  * it must need something SPECIFIC to manifest - an unusual input, a particular multi-step sequence of operations, a particular atom order,
    two cooperating code sites that each look fine alone - NOT something every ordinary use would expose at once;
  * the library must still import, and BOTH test commands above must give the same pass counts as on the unchanged tree (243 / 30);
  * the {n} changes must be in different functions / mechanisms from each other;
  * verify each one yourself: run demo.py on the clean worktree (exit 0), apply the patch, run demo.py (exit 1), run both test commands,
    then revert the worktree (`git checkout -- .`) before the next one. Leave the worktree clean at the end.
Report briefly what you produced and the verification results.""")
