"""tables exported from the working tree at run time (given to TLC as tables.json)"""
import json


def iso_table():
    from chython.periodictable import Element
    out = []
    for z in range(1, 119):
        e = Element.from_atomic_number(z)()
        out.append(sorted(e.isotopes_distribution))
    return out


def tables_json():
    return json.dumps({'iso': iso_table()})


def valence_tables():
    from chython.periodictable import Element
    els = {x.atomic_number.fget(None): x for x in Element.__subclasses__()}
    sym2z = {x.__name__: z for z, x in els.items()}
    out = []
    for z in range(1, 119):
        e = els[z]()
        out.append({'common': list(e._common_valences),
                    'exc': [[c, 1 if r else 0, h, [[b, sym2z[s]] for b, s in env]] for c, r, h, env in e._valences_exceptions]})
    return out


def all_tables_json():
    return json.dumps({'iso': iso_table(), 'val': valence_tables()})
