"""tables exported from the working tree at run time (given to TLC as tables.json)"""
import json


def iso_table():
    from chython.periodictable import Element
    out = []
    for z in range(1, 119):
        e = Element.from_atomic_number(z)()
        out.append(sorted(e.isotopes_distribution))
    return out


def tables_json():
    return json.dumps({'iso': iso_table()})
