"""writes /verif/MANIFEST.json from the table below (kept in one place so that the manifest is always valid)"""
import json
import os

VERIF = os.path.dirname(os.path.dirname(os.path.abspath(__file__)))
BASE_OFF = ('cd /repo && /venv/bin/python -m pytest -ra -q -p no:cacheprovider --timeout=900 --continue-on-collection-errors')

CHECKS = {
    'C03': dict(
        text='TLC steps a character-level reference reader (spec/lang/SmilesRead.tla, written from the language definition) over every '
             'recorded input of chython.smiles and evaluates accept/reject class, atoms, numbers, bonds, tetrahedral parity and '
             'cis/trans relation in every final state; exhaustive over all strings up to the stated length, plus corpus, '
             'single-edit corruptions and bracket-atom bodies.',
        note='trusted: TLC, the reference reader spec, the stored-field projection; isotope tabulation exported from the tree',
        technique='TLA+ reference reader + TLC trace validation of recorded smiles() calls (exhaustive short strings)',
        design='5/C03'),
}
CHECKS['C13'] = dict(
    text='Edit.tla models MoleculeContainer (edits, memoised views with footprints, hydrogen bookkeeping, transactions, copies) and is '
         'model checked exhaustively on bounded instances (invariants CacheCoherent, HydrogensFresh, StaysUsable, AdjacencySymmetric, '
         'NoPendingOutsideTx; action properties Atomic, Independent); TLC-generated behaviours are replayed into real objects and every '
         'recorded history (also random ones on corpus molecules) is validated step by step by Trace_Edit.tla against the spec state and '
         'against a molecule rebuilt from scratch.',
    note='trusted: TLC, Edit.tla, the rebuild() reference (add_atom/add_bond from the stored fields); seeds carry no stereo marks',
    technique='TLA+ state machine model checked with TLC; TLC behaviours replayed into the code; recorded histories trace-validated',
    design='5/C13')
CHECKS['C02'] = dict(
    text='Every molecule (corpus in Kekule and aromatic form, unusual-valence / charged / isotopic / radical / stereo species, ring '
         'double bonds) is written in every style and several random orders; TLC steps the reference reader over the written text and '
         'requires elements, isotopes, charges, hydrogens (bracket counts or the SMILES valence rule), radicals (CX block), maps, bond '
         'orders, tetrahedral parity and double-bond same-side relations to equal the projection of the original in written order, and '
         'the same for the molecule chython reads back.',
    note='trusted: TLC, SmilesRead.tla/SmilesValence.tla/Cx.tla, stored-field projection; aromatic texts compared after kekule+thiele of the read-back molecule; allene marks not compared yet',
    technique='TLA+ reference reader as judge of written texts + TLC trace validation of write/read round trips',
    design='5/C02')
CHECKS['C01'] = dict(
    text='For corpus and hand-picked molecules, structure-preserving actions (renumber, copy, respelling by the random-order writer, by RDKit, '
         'through Kekule / aromatic-bond forms) and structure-changing actions (bump charge / radical / isotope / bond order, invert one centre) '
         'are recorded with the explicit bijection; TLC verifies that the variant is the image of the base (constitution, tetrahedral parity, '
         'double-bond relations), evaluates the domain predicate with its own colour refinement, and requires equal string / == / hash (or '
         'different ones). Exhaustive part: every labelled graph on <= 4-5 atoms; TLC computes isomorphism-class keys and requires string '
         'classes and structure classes to be in bijection.',
    note='trusted: TLC, Graphs/Sym/Stereo.tla, projection; molecules with allene marks skipped; domain predicate conservative (refinement classes)',
    technique='TLC trace validation of recorded (base, variant, bijection) triples + exhaustive labelled-graph enumeration with TLC-computed isomorphism keys',
    design='5/C01')
CHECKS['C06'] = dict(
    text='The reported ring set, ring count, components and the in-ring / ring-size marks are recorded for every labelled connected graph up '
         'to the bound, corpus molecules and the repository ring file under renumbering and re-insertion, and generated fused / spiro / '
         'bridged / macrocyclic assemblies; TLC evaluates the declarative definition (simple cycles, cyclomatic number, GF(2) independence, '
         'minimum total size against its own Horton+greedy reference, size multiset under renumbering, marks, components).',
    note='trusted: TLC, Rings.tla; minimality / size-multiset clauses waived (counted) where TLC finds the recorded gap: two candidate cycles no larger than the largest basis ring sharing >= 3 bonds, or a dense cage',
    technique='TLC evaluation of a declarative cycle-basis specification over recorded ring perceptions (exhaustive small graphs)',
    design='5/C06')
CHECKS['C04'] = dict(
    text='Every atom environment of a bounded grid (organic-subset centres x charges x radical x bond multisets, plus every environment '
         'named by an exception of any of the 118 elements) is built through add_atom/add_bond; corpus and exotic molecules are taken in '
         'Kekule form. TLC evaluates (ii) a TLA+ interpreter of the exported rule tables written from their documented meaning (first match, '
         'at-least neighbour patterns; what check_implicit admits), (i) a literal core valence model on its unambiguous domain, and the '
         'molecular sums (check_valence set, formula, charge, radical flag, mass as a milli-dalton identity).',
    note='trusted: TLC, Valence.tla; the rule tables themselves are exported from the working tree (their data is pinned by the core model only on B C N O F / lowest valence of Si P S halogens)',
    technique='TLA+ valence model (literal core + interpreter of the exported rule tables) evaluated by TLC over an exhaustive environment grid',
    design='5/C04')
CHECKS['C12'] = dict(
    text='Complete sign tables of the three sign-translation functions (every neighbour order of every marked centre incl. implicit / explicit '
         'hydrogen; every admissible substituent pair and argument orientation of double bonds, cumulenes and allenes) are recorded and TLC '
         'checks the permutation algebra (same sign iff even permutation / iff both or neither end exchanged); RDKit reads the original text '
         'and chython\'s rewriting and must see one molecule (inside the symmetry domain TLC evaluates); all 2^k label combinations of '
         'asymmetric molecules get distinct strings; labels survive exactly on certainly stereogenic centres.',
    note='trusted: TLC, Stereo.tla / Sym.tla; RDKit only as second reader-writer; the meaning of @/@@ and / \\ against the language definition is C03/C02',
    technique='TLC evaluation of permutation-parity specifications over exhaustive recorded sign tables; toolkit cross-reading',
    design='5/C12')
CHECKS['C07'] = dict(
    text='Recorded get_mapping calls (molecule patterns cut from the target itself and from other molecules, two-component cuts, SMARTS queries, '
         'salts as targets, every combination of automorphism filter and searching scope, the operators) are validated against the declarative '
         'embedding set of Match.tla, enumerated completely by TLC: every returned map is an embedding, none is missed, none twice, one per '
         'image set with the filter. lazy_product (multi-component searches) is model checked for all generator lengths and bound to the '
         'code by recorded calls.',
    note='trusted: TLC, Match.tla; target attributes (neighbours, heteroatoms, hybridisation, ring sizes) are derived by TLC from recorded bonds and the reported ring basis; completeness bounded to targets <= 60 atoms',
    technique='TLC enumeration of the declarative embedding set vs recorded searches; TLA+ model of lazy_product model checked',
    design='5/C07')
CHECKS['C08'] = dict(
    text='Parsing side: every bracket body (elements x primitives x pairs of primitives) and bond token generated from the documented subset is '
         'parsed independently by Smarts.tla under TLC and must give the same query atom / bond as smarts(); unsupported SMARTS must raise '
         'IncorrectSmarts. Matching side: one- and two-atom queries against corpus and special targets; TLC derives neighbour / heteroatom / '
         'hybridisation / ring attributes itself and requires the mapping set to be exactly the matching atoms / bonds.',
    note='trusted: TLC, Smarts.tla, Match.tla; ring sizes come from the reported ring basis (C06); repeating one primitive is outside the documented subset',
    technique='TLA+ parser of the documented SMARTS subset + declarative atom/bond match predicates evaluated by TLC on recorded queries',
    design='5/C08')
CHECKS['C09'] = dict(
    text='MC_Mask model checks the documented bit layout: for every value of every attribute and pairs of fields the mask test of the compiled loop '
         'equals the declarative AtomMatches, without overflow or shared bits. Binding: the words emitted by the python encoders are unpacked and '
         'compared by TLC with the layout model of the projection; _isomorphism.pyx is executed (pyx-lite translation with C integer semantics) '
         'through the real get_mapping(_cython=True) and its mapping set must equal the reference matcher\'s and the declarative embeddings.',
    note='trusted: TLC, Mask.tla/Match.tla, harness/pyxlite.py (the C code itself is not executed: no Cython in the sandbox); word clauses inside the layout range',
    technique='TLA+ bit-layout model checked by TLC; recorded encoder words and translated-.pyx mapping sets validated against it',
    design='5/C09')
CHECKS['C10'] = dict(
    text='Pack.tla is a spec-level encoder of the published version-2 layout (header, 9-byte atom records, 12-bit connection table, 3-bit bond '
         'orders straddling bytes, cis/trans block, IEEE half floats by integer arithmetic, reaction frame). TLC requires pack() - the .pyx source '
         'run through pyx-lite - to equal Encode(projection) byte for byte, unpack(pack(m)) to project to m, the length helpers to report the '
         'true counts (all role shapes incl. empty ones), and the published packs of pach/SI.zip to re-encode to the shipped bytes and decode '
         'to the constitution of their CSV row; the whole element x isotope table, charges, hydrogens, boundary atom numbers and all phases of '
         'the bit packers are enumerated.',
    note='trusted: TLC, Pack.tla, harness/pyxlite.py (the compiled C is not executed); reference isotopes exported from the element classes (their agreement with the .pyx tables is what the byte comparison tests)',
    technique='TLA+ encoder of the published byte layout evaluated by TLC against recorded pack/unpack calls and shipped packs',
    design='5/C10')
CHECKS['C18'] = dict(
    text='Complete enumeration: one record per element (all 118) with symbol / number lookups, abundance and mass keys, the three copies of the '
         'reference isotope (element classes and both .pyx tables), mass computability, query / dynamic variants and compiled valence rules, '
         'validated by TLC against Tables.tla (standard symbol table literal in the spec, rule count against the TLA+ compilation); every '
         '(element, tabulated isotope) x charge x hydrogens x radical is packed / compared with the spec encoder / unpacked; MC_Mask shows every '
         'attribute value has its own matcher bit.',
    note='trusted: TLC, Tables.tla / Pack.tla / Mask.tla, pyx-lite for the pack codecs',
    technique='TLC evaluation of table-consistency invariants over the completely enumerated exported tables',
    design='5/C18')
CHECKS['C05'] = dict(
    text='For corpus hetero-arenes, the repository\'s aromaticity test inputs and a generated zoo of mono / fused 5-6-7-membered rings: the Kekule '
         'form, its aromatic form, re-kekulisation, repeated conversions, every enumerated Kekule form with its re-aromatisation, and the aromatic '
         'form of a renumbered re-inserted copy are recorded; TLC checks the frame conditions (atoms, per-atom hydrogens, non-aromatic bonds '
         'untouched), valence validity of each Kekule form with the TLA+ rule interpreter, that all forms aromatise to one form (outside the '
         'unsaturated four-ring gap TLC recognises), idempotence and numbering independence.',
    note='trusted: TLC, Aromatic.tla + Valence.tla; inputs that do not kekulise are skipped (existence clause not evaluated); stereo cleared',
    technique='TLC evaluation of Kekule/aromatic relations (frame conditions, valence interpreter) over recorded conversions',
    design='5/C05')
CHECKS['C11'] = dict(
    text='RecordReader.tla models the multi-record readers (position, buffer, tell, damaged records; next / read_structure / read_metadata / seek / '
         'getitem / tell) and is model checked (iteration returns exactly the undamaged records, random access the requested one); TLC-generated '
         'behaviours are replayed on real temporary SDF files (five damage kinds, real grep index) and validated by Trace_RecordReader. Round trips '
         'of molecules and reactions (all role shapes) through SDF / ESDF / RDF / ERDF / MRV with titles, random metadata, charges -4..+4, isotopes, '
         'radicals, aromatic and coordinate bonds and 2D layouts are validated by Trace_C11 (configuration compared where the written geometry '
         'shows it: integer cross products in TLC); RDKit mol blocks and the repository\'s test files must be read.',
    note='trusted: TLC, RecordReader.tla, Trace_C11.tla; RDKit for layouts and as the other program; files with no record are outside the replayed model; RDF reader state machine not modelled separately',
    technique='TLA+ record-reader state machine model checked + TLC behaviours replayed on real files; TLC validation of recorded format round trips',
    design='5/C11')
CHECKS['C19'] = dict(
    text='Fresh interpreter processes with different PYTHONHASHSEED values compute canonical strings, atom orders, ring sets, components, '
         'fingerprint hash sets and bit sets, substructure match lists (as ordered lists and filtered), canonicalize / standardize results and pack '
         'bytes for the same inputs, each on the first call, the cached call and on a copy; the event streams are merged by (input, view) and TLC '
         'requires one value per (input, view).',
    note='trusted: TLC, Determinism.tla; hash(molecule) is excluded (Python randomises string hashes per process by design); no ordering between processes is assumed',
    technique='TLC validation of merged multi-process observation traces against a one-value-per-(input, view) specification',
    design='5/C19')
CHECKS['C17'] = dict(
    text='For corpus and special molecules over a parameter grid (radii, multiplicity cap 0-5, lengths 2^6..2^12, 0-4 active bits) TLC enumerates '
         'the simple paths itself and requires _fragments() to be exactly that multiset with the right descriptors, selects the hashes admitted by '
         'the multiplicity cap, validates the Morgan identifiers radius by radius as a partition refinement, folds the 64-bit hashes bit by bit '
         'and compares the hash sets of a renumbered re-inserted copy.',
    note='trusted: TLC, Fingerprint.tla; Python hash values are opaque (logged as strings / bit lists; identifiers replaced by order-preserving ranks)',
    technique='TLC enumeration of simple paths / partition refinement / bit folding vs recorded fingerprint internals',
    design='5/C17')
CHECKS['C20'] = dict(
    text='Corpus and special molecules (Kekule and aromatic, renumbered, with random 2D coordinates, isotopes, charges, radicals, coordinate bonds) go '
         'through to_rdkit_molecule and from_rdkit_molecule; RDKit molecules of their own (random spellings, renumbered, with map numbers, Kekulised '
         'or aromatic, with 2D layouts) go through from_rdkit_molecule and back.  TLC compares the projections of both sides field by field, '
         'requires coordinate bonds to point at the metal, and compares canonical strings (RDKit canonical on its side, chython canonical on the '
         'other) for constitution always and for configuration inside the symmetry domain it evaluates itself.',
    note='trusted: TLC, Bridge.tla, Sym.tla; RDKit is part of the system under test. Allenes, non-carbon stereocentres: outside the claim',
    technique='TLC validation of recorded projections of both toolkits objects (field comparison, canonical strings, both round trips)',
    design='5/C20')
CHECKS['C15'] = dict(
    text='Reactions assembled from corpus molecules, salts and radicals (0-3 molecules per role, empty roles): for every role-internal order TLC '
         'rebuilds the signature text from the molecules own texts (code-point sorting, radical and fragment indices of the CXSMILES block) and '
         'requires text, == and hash not to move; smiles(format(r,"m")) and smiles(str(r)) must give back the same numbered molecules in the '
         'same roles; for reactions made by edits with known ground truth (bond order / make / break, charge, radical, leaving and joining '
         'atoms, reagents, vanished products) TLC computes the superposition of both sides and its centre, checks the ground truth against '
         'its own application of the edits, tallies the tokens of the condensed-graph string against the graph and compares string and centre '
         'of a consistently renumbered, reordered copy; sides that disagree on an element or isotope must be refused.',
    note='trusted: TLC, Reaction.tla, Cx.tla; molecules that do not survive their own text are outside the read-back clause (C02 decides those)',
    technique='TLC validation of recorded reaction signatures, read-backs and condensed graphs against Reaction.tla (text, superposition, centre)',
    design='5/C15')
CHECKS['C14'] = dict(
    text='Histories of normalisation calls (canonicalize, standardize, fix_resonance, standardize_charges, neutralize, explicify / implicify, kekule, '
         'thiele, enumerate_tautomers; pairs of equal calls, explicify-implicify round trips, random call sequences) are recorded on corpus '
         'molecules, charged / zwitterionic / resonance specials, every documented raw spelling of the rule tests alone and grafted on corpus '
         'molecules, and on a renumbered twin.  TLC evaluates on every step the conservation laws (heavy-atom multiset always; net charge and '
         'hydrogens for rearrangements, charge minus hydrogens for neutralisation and tautomers; no valence error, no failure on valid input), '
         'idempotence and the explicify/implicify inverse on consecutive calls, equivariance against the twin in the aromatic normal form, '
         'distinctness of tautomers, and that one standardize() call gives the documented spelling.',
    note='trusted: TLC, Normalize.tla; numbering independence with tautomer fixing is claimed on the fixed corpus only (as the property states)',
    technique='TLC validation of recorded normalisation histories against the action properties of Normalize.tla',
    design='5/C14')
CHECKS['C16'] = dict(
    text='For every match of synthetic templates (one per patcher branch: any-atom reuse, stated elements, new atoms with isotope / stated hydrogens, '
         'deleted atoms with hanging fragments and rings through them, masked atoms, charge and bond order changes, stereo override, delete_atoms '
         'off) and of the built-in deprotection collection on corpus molecules, TLC computes from structure, template and match the product the '
         'template denotes (numbers, attributes, bonds, deleted and detached atoms, unchanged frame incl. configuration) and compares it with the '
         'real one; products equal matches in number; identity templates return the input; the documented deprotection tests and decoys; built-in '
         'and synthetic Reactor templates on reordered, renumbered, colliding reactants give the same product sets with unique atom numbers and '
         'no valence error.',
    note='trusted: TLC, Template.tla, Valence.tla; match enumeration itself is decided by C07/C08; the valence clause is waived where the template leaves an open valence by construction',
    technique='TLC computation of the denoted product from (structure, template, match) compared with recorded Transformer / Reactor products',
    design='5/C16')
# parts added after the seeding rounds
CHECKS['C01']['text'] += (' Also: allene / cumulene configuration (one algebra with double bonds), axis mirror, odd groups of equivalent stereo elements, '
                          'common-isotope labels, and variants that end in a stereo re-perception (empty transaction, canonicalised copy, substructure of everything).')
CHECKS['C01']['note'] = CHECKS['C01']['note'].replace('molecules with allene marks skipped; ', '')
CHECKS['C02']['text'] += ' Allene / cumulene marks are compared between the written molecule and the one read back (r-axis).'
CHECKS['C02']['note'] = CHECKS['C02']['note'].replace('; allene marks not compared yet', '; allene marks compared relationally, not interpreted by the reference reader')
CHECKS['C03']['text'] += (' Also spec -> code: a generative grammar (SmilesGen.tla) is model checked against the reference reader (reader o writer = identity on '
                          'all finished texts within the bound) and its simulated texts are given to the library; closure numbers incl. 0 exhaustively; reaction lines (Trace_C03rx).')
CHECKS['C05']['text'] += (' Also: benzene-ring existence clause (a ring of six neutral carbons with alternating bonds must come out aromatic), fused lactams / azinones, '
                          'and a must-convert list (macrocyclic aromatic spellings, bridgehead-nitrogen heteroaromatics) on which a failing conversion is a violation.')
CHECKS['C08']['text'] += (' Also: queries built through the query API (the requested attributes are the pattern TLC gets) and stereo marks of queries '
                          '(Trace_StereoQuery: a marked query matches exactly the embeddings under which the target has the configuration the text denotes).')
CHECKS['C09']['text'] += ' Also: element lists mixing light and heavy elements, scoped searches on multi-component targets with multi-component queries.'
CHECKS['C11']['text'] += (' Also: the RecordReader behaviours on RDF files, the default reader (dependent stereocentres), atom numbers beyond the V2000 column, and '
                          'configuration across programs (RDKit records read by the library, the library\'s records read by RDKit; Trace_Wedge).')
CHECKS['C12']['text'] += ' Also: the other toolkit\'s random spellings (marks at closing ring digits, other first atoms) as input texts, spiro and ring cis/trans pairs.'
CHECKS['C14']['text'] += ' Also canonicalize(keep_kekule=True), azolium cations, stereo-bearing tautomer inputs, geminal doubled documented spellings.'
CHECKS['C16']['text'] += ' Also: the product must be the molecule its own canonical text denotes (labels on centres an edit made non-stereogenic must go).'
CHECKS['C19']['text'] += ' Views are also evaluated in reversed and shuffled order and after a shuffled evaluation; scoped (also multi-component) searches and split are among the views.'
CHECKS['C20']['text'] += ' RDKit-side reference: RDKit\'s own reading of the original text; explicit hydrogens / deuterium on stereocentres; round-trip configuration; cyclooctenes.'
CHECKS['C13']['text'] += (' Ring and component views are also read inside open transactions (Edit!CanRead), the binary form is a fourth view (coordinates '
                          'change without a flush); the design constants RestoreCacheOnAbort, FullFlushOnSpecialDelete and PackMemoised have instances TLC must refute; '
                          'deterministic histories around transactions, coordinate bonds (also at marked stereocentres and on cumulenes) and coordinate moves.')
CHECKS['C13']['note'] = 'trusted: TLC, Edit.tla, the rebuild() reference (add_atom/add_bond from the stored fields; for the binary form also the coordinates and the neighbour order); inside a transaction only ring / component views are read'
CHECKS['C02']['text'] += ' The styles that drop information on purpose (!s, !b, !z) must drop exactly that (LossyVerdict). Originals with stereo elements that depend on other stereo elements are built through the API; atoms with coordinate bonds only.'
CHECKS['C03']['text'] += ' Ring-closure bond symbols (one digit, both, contradicting, %nn) also inside reaction lines.'
CHECKS['C04']['text'] += ' Also after implicify_hydrogens() on a grid of over-saturated hydrides and on corpus molecules given extra explicit hydrogens.'
CHECKS['C06']['text'] += ' standardize() is one of the edits of the histories (ring bonds that become coordinate bonds: amine- and sulfide-boranes, bridging hydrides).'
CHECKS['C07']['text'] += ' The element set of a list atom is what the listed symbols mean by the specification\'s own symbol table, not the library\'s lookup.'
CHECKS['C09']['text'] += ' Every tabulated isotope is a query atom (thorough: all; quick: the ends of the isotope field and a sample); element lists whose letters spell other elements.'
CHECKS['C10']['text'] += ' bytes() must be the current pack also when the binary form was asked for before numbers and coordinates changed.'
CHECKS['C18']['text'] += ' A tabulated (element, isotope, charge) combination the constructor refuses is an observation (clause exception:construct-...).'
CHECKS['C16']['text'] += (' The multi-stage mode (one_shot = False) is the work-list machine ReactorQueue.tla, model checked for every single-stage relation over three '
                          'molecules, every start mixture and limit (no duplicates, breadth first, complete within polymerise_limit, first level = one-shot, termination; '
                          'three design constants with refuted instances); recorded runs are checked against the closure TLC computes from the recorded single-stage relation.')
CHECKS['C16']['text'] += (' Two-pattern templates: ReactorQueue2.tla shows with TLC that the work-list (mixtures keyed without the pair that led to them) reports everything reachable '
                          'when products are larger than their reactants and need not otherwise; recorded two-pattern runs (both reactant orders) are held against the declarative closure inside that domain.')
CHECKS['C13']['text'] += ' A three-object instance model checks the Union action (coverage statistics showed it was never enabled with two objects).'
CHECKS['C11']['text'] += ' Also hand-made single-centre drawings (explicit hydrogens at any position) judged against the other program\'s reading; reactions with atom-less components; more than eight labelled atoms; non-ASCII text in indexed files.'
CHECKS['C05']['text'] += (' The hydrogen total of the Kekule form is held against an independent reader of the text; aromatic spellings of the library\'s own model '
                          'must keep every bond the text calls aromatic; pi-complexes with substituted coordinated carbons.')
CHECKS['C06']['text'] += ' A refusal of ring perception inside the claimed domain is a clause; dense eight-atom polycycles around a three-bridge core under many numberings.'
CHECKS['C07']['text'] += ' A search that raises is a clause; multi-component patterns under every scope that excludes whole components; cycles closed by a coordinate bond; pairs that differ in configuration only.'
CHECKS['C16']['text'] += ' The configuration a replacement requests is read against the replacement\'s own neighbour order (RequestedParity); a dead mark on an acyclic centre is claimed by the product-text clause.'
CHECKS['C03']['text'] += ' Marked atoms that open several closures (nested / interleaved); a bond symbol at one closure digit with a direction mark at the other.'
CHECKS['C10']['text'] += ' The earlier layout (header byte 0) is specified as Pack!EncodeV0 and fed to the decoder and to chython.unpack.'
CHECKS['C18']['text'] += ' Every compiled valence rule\'s hydrogen count and charge is held against the pack format and the matcher layout; the charge range -4..4 through constructor and setter of element and query variants.'
CHECKS['C19']['text'] += ' Every view is also evaluated alone on a fresh copy and after one other view; normalised objects are compared with their copy and with themselves after a flush.'
CHECKS['C11']['text'] += (' V2000 columns (spec/sys/MdlFields.tla): the design model MC_MdlFields encodes every charge / isotope / radical assignment and TLC checks that the block is well formed and denotes it; '
                          'blocks the library writes are tokenised by column and validated by Trace_MdlFields, blocks rendered from generated fields (codes, property lines of 1..8 entries) are read by the library and validated the same way; '
                          'the V3000 keys CHG= / MASS= / RAD= through the same module; metadata whose value lines look like structure-block lines.')
CHECKS['C09']['text'] += ' Ring primitives against macrocycles of 63..66 atoms (the ends of the ring-size field; known finding C09-ring-larger-than-65).'
CHECKS['C19']['text'] += ' The cached ring views (skin_graph, rings_graph, atoms_rings, atoms_rings_sizes) before and after the views derived from them; atom numbers that do not ascend in storage order.'
CHECKS['C09']['text'] += ' The element bits of every packed atom (also 117 / 118, folded onto the bit of 116) against Mask.tla unconditionally.'
PENDING = {}


def main():
    props = [json.loads(l) for l in open(os.path.join(VERIF, 'properties.jsonl'))]
    checks = []
    na = []
    for p in props:
        pid = p['id']
        if pid in CHECKS:
            c = CHECKS[pid]
            checks.append({
                'property_id': pid,
                'quick_cmd': f'bin/check {pid} --tier quick',
                'thorough_cmd': f'bin/check {pid} --tier thorough',
                'evidence_file': f'/verif/evidence/{pid}.json',
                'replay_cmd_template': f'bin/check {pid} --replay {{path}}',
                'engine': 'tlc',
                'level_claimed': {'category': 'model_checking', 'text': c['text'], 'design_ref': 'DESIGN.md section ' + c['design']},
                'level_note': c['note'],
                'technique': c['technique'],
            })
        else:
            na.append({'property_id': pid, 'reason': PENDING.get(pid, 'check not built yet in this round (planned: DESIGN.md section 5); not claimed until its TLA+ trace spec and driver exist')})
    man = {
        'version': 1,
        'setup_cmd': 'bin/setup',
        'hooks': {'guard': 'CHYTHON_VERIF', 'enable': 'no instrumentation is needed: checks import /repo through PYTHONPATH with harness/shim first and inject the translated .pyx modules; CHYTHON_VERIF=1 is exported by bin/check and reserved',
                  'baseline_off_cmd': BASE_OFF, 'source_commits': [], 'add_only': True},
        'engines': [{'name': 'tlc', 'path': 'bin/check', 'serves_properties': [c['property_id'] for c in checks],
                     'kind_free_text': 'TLA+ specifications under spec/ checked by TLC; python drivers under harness/ record traces of the real code (code -> spec) and replay TLC behaviours into it (spec -> code)'}],
        'checks': checks,
        'not_applicable': na,
        'notes': 'See DESIGN.md. Exit codes of bin/check: 0 held, 1 violation (VIOLATION line), 2 machinery failure.',
    }
    with open(os.path.join(VERIF, 'MANIFEST.json'), 'w') as f:
        json.dump(man, f, indent=1)


if __name__ == '__main__':
    main()
