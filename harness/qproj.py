"""projections of patterns (molecules used as patterns, QueryContainers) and targets for spec/sys/Match.tla"""
import chy


_STD = None


def std_z(sym):
    """atomic number of a symbol by the standard table of spec/lang/SmilesRead.tla (not by the library's own lookup)"""
    global _STD
    if _STD is None:
        import os, re
        txt = open(os.path.join(os.path.dirname(__file__), '..', 'spec', 'lang', 'SmilesRead.tla')).read()
        body = txt[txt.index('Symbols == <<') + 13:]
        body = body[:body.index('>>')]
        _STD = {x: i + 1 for i, x in enumerate(re.findall(r'"(\w+)"', body))}
        assert len(_STD) == 118
    return _STD[sym]


def target_of(m, order=None):
    order = list(m._atoms) if order is None else order
    idx = {n: i + 1 for i, n in enumerate(order)}
    return {'atoms': [{'z': m._atoms[n].atomic_number, 'i': m._atoms[n]._isotope or 0, 'c': m._atoms[n]._charge,
                       'r': 1 if m._atoms[n]._is_radical else 0, 'h': chy.ival(m._atoms[n]._implicit_hydrogens)} for n in order],
            'bonds': [[idx[n], idx[k], int(b._order), 1 if b.in_ring else 0] for n, k, b in m.bonds()],
            'rings': [[idx[x] for x in r] for r in m.sssr]}, idx


def pattern_of_molecule(m, order=None):
    order = list(m._atoms) if order is None else order
    idx = {n: i + 1 for i, n in enumerate(order)}
    atoms = [{'kind': 'mol', 'zs': [m._atoms[n].atomic_number], 'i': m._atoms[n]._isotope or 0, 'c': m._atoms[n]._charge,
              'r': 1 if m._atoms[n]._is_radical else 0, 'nb': [], 'hyb': [], 'rs': [], 'hs': [], 'het': []} for n in order]
    bonds = [[idx[n], idx[k], [int(b._order)], -1] for n, k, b in m.bonds()]
    return {'atoms': atoms, 'bonds': bonds}, idx


def pattern_of_query(q, order=None):
    from chython.periodictable import AnyElement, AnyMetal, ListElement, QueryElement
    order = list(q._atoms) if order is None else order
    idx = {n: i + 1 for i, n in enumerate(order)}
    atoms = []
    for n in order:
        a = q._atoms[n]
        d = {'kind': '', 'zs': [], 'i': 0, 'c': 0, 'r': 0, 'nb': list(a.neighbors), 'hyb': list(a.hybridization), 'rs': [], 'hs': [], 'het': [],
             'masked': 1 if a.masked else 0, 'st': chy.stereo_val(getattr(a, 'stereo', None))}
        if isinstance(a, AnyMetal):
            d['kind'] = 'metal'
        else:
            d.update({'c': a.charge, 'r': 1 if a.is_radical else 0, 'rs': list(a.ring_sizes), 'hs': list(a.implicit_hydrogens), 'het': list(a.heteroatoms)})
            if isinstance(a, AnyElement):
                d['kind'] = 'any'
            elif isinstance(a, ListElement):
                d['kind'] = 'list'
                d['zs'] = sorted(std_z(x) for x in a._elements)    # the symbols the list names, numbered by the specification's table
            elif isinstance(a, QueryElement):
                d['kind'] = 'elem'
                d['zs'] = [a.atomic_number]
                d['i'] = a.isotope or 0
            else:
                raise ValueError(f'unknown query atom {type(a)}')
        atoms.append(d)
    bonds = [[idx[n], idx[k], list(b.order), -1 if b.in_ring is None else (1 if b.in_ring else 0)] for n, k, b in q.bonds()]
    return {'atoms': atoms, 'bonds': bonds}, idx
