import importlib.util, sys, os
_here = os.path.dirname(os.path.abspath(__file__))
_orig = None
for p in sys.path:
    cand = os.path.join(p, 'CachedMethods', '__init__.py')
    if os.path.isfile(cand) and os.path.dirname(os.path.abspath(cand)) != _here:
        spec = importlib.util.spec_from_file_location('_CachedMethods_orig', cand)
        _orig = importlib.util.module_from_spec(spec); spec.loader.exec_module(_orig)
        break
from types import SimpleNamespace
class _NoDict:
    def get(self, k, d=None): return d
    def __setitem__(self, k, v): raise AttributeError
_nd = _NoDict()
class class_cached_property(_orig.class_cached_property):
    def __get__(self, obj, cls):
        if obj is None: return self
        if hasattr(obj, '__dict__'):
            return super().__get__(obj, cls)
        cc = cls.__class_cache__.get(cls)
        if cc is not None and self.name in cc:
            return cc[self.name]
        with self.lock:
            cc = cls.__class_cache__.setdefault(cls, {})
            if self.name not in cc:
                cc[self.name] = _orig._freeze(self.func(obj))
            return cc[self.name]
cached_property=_orig.cached_property; cached_method=_orig.cached_method; cached_args_method=_orig.cached_args_method; FrozenDict=_orig.FrozenDict
