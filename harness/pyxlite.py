"""Feasibility prototype of "pyx-lite" (DESIGN.md 1.2): run chython's three .pyx sources without Cython.

Translates the narrow Cython subset they use into pure Python and emulates C integer semantics at stores into typed
variables / typed arrays.  Promoted from feasibility/pyxlite_proto.py; `install()` is what the checks call.
"""
import ast
import math
import re
import struct
import sys
import types

INT = {'bint': None, 'char': (8, True), 'unsigned char': (8, False), 'short': (16, True), 'unsigned short': (16, False),
       'int': (32, True), 'unsigned int': (32, False), 'long long': (64, True), 'unsigned long long': (64, False)}
FMT = {'char': 'b', 'unsigned char': 'B', 'short': 'h', 'unsigned short': 'H', 'int': 'i', 'unsigned int': 'I',
       'long long': 'q', 'unsigned long long': 'Q', 'bint': 'i'}
SCALAR = '|'.join(sorted(list(INT) + ['double'], key=len, reverse=True))
PYT = ('bytes', 'dict', 'tuple', 'list', 'object', 'str', 'set')
STRUCTS = {}


def _cast(t, v):
    if t == 'double':
        return float(v)
    if t == 'bint':
        return bool(v)
    bits, signed = INT[t]
    v = int(v) & ((1 << bits) - 1)          # float -> int truncates toward zero like a C cast
    if signed and v >> (bits - 1):
        v -= 1 << bits
    return v


def _sizeof(t):
    t = t.strip()
    if t in STRUCTS:
        return STRUCTS[t].size
    return struct.calcsize(FMT[t])


def _cdiv(a, b):
    if isinstance(a, int) and isinstance(b, int) and not isinstance(a, bool):
        q = abs(a) // abs(b)
        return q if (a >= 0) == (b >= 0) else -q
    return a / b


class CArray:
    def __init__(self, t, n, init=None):
        self.t = t
        self.d = [0] * n if init is None else [_cast(t, x) for x in init]

    def _chk(self, i):
        if not 0 <= i < len(self.d):
            raise IndexError(f'C array index {i} out of bounds 0..{len(self.d) - 1} (undefined behaviour in C)')

    def __getitem__(self, i):
        if isinstance(i, slice):
            return bytes(self.d[i]) if self.t == 'unsigned char' else self.d[i]
        self._chk(i)
        return self.d[i]

    def __setitem__(self, i, v):
        if isinstance(i, slice):
            self.d[i] = [_cast(self.t, x) for x in v]
            return
        self._chk(i)
        self.d[i] = _cast(self.t, v)

    def __bool__(self):
        return True


class StructType:
    def __init__(self, name, fields):
        self.name, self.fields = name, fields
        self.fmt = '<' + ''.join('Q' if p else FMT[t] for t, p, _ in fields)
        self.size = struct.calcsize(self.fmt)
        self.scalar = all(not p for _, p, _ in fields)


class Ptr:
    """typed pointer: (buffer, byte offset, element type)"""
    def __init__(self, buf, off, t):
        self.buf, self.off, self.t = buf, off, t

    def __add__(self, n):
        return Ptr(self.buf, self.off + n * _sizeof(self.t), self.t)

    def __getitem__(self, i):
        o = self.off + i * _sizeof(self.t)
        if isinstance(self.buf, CArray):      # pointer into a C array: element access
            return self.buf[o // _sizeof(self.buf.t)]
        if self.t in STRUCTS:
            st = STRUCTS[self.t]
            ns = types.SimpleNamespace()
            for (ft, _, fn), v in zip(st.fields, struct.unpack_from(st.fmt, self.buf, o)):
                setattr(ns, fn, v)
            return ns
        return struct.unpack_from('<' + FMT[self.t], self.buf, o)[0]

    def __setitem__(self, i, v):
        assert isinstance(self.buf, CArray)
        self.buf[(self.off + i * _sizeof(self.t)) // _sizeof(self.buf.t)] = v


def _addr(x, i):
    if isinstance(x, Ptr):
        return x + i
    if isinstance(x, CArray):
        return Ptr(x, i * _sizeof(x.t), x.t)
    return Ptr(x, i, 'unsigned char')          # bytes / memoryview


def _pcast(t, p):
    if isinstance(p, tuple) and p[0] == 'malloc':
        return CArray(t, p[1] // _sizeof(t))
    return Ptr(p.buf, p.off, t)


def _malloc(nbytes):
    return ('malloc', int(nbytes))


def _memset(a, v, nbytes):
    for i in range(nbytes // _sizeof(a.t)):
        a[i] = v


RUNTIME = dict(_cast=_cast, _sizeof=_sizeof, _cdiv=_cdiv, _CArray=CArray, _addr=_addr, _pcast=_pcast,
               PyMem_Malloc=_malloc, PyMem_Free=lambda x: None, memset=_memset, _frexp=math.frexp, ldexp=math.ldexp,
               _PyDict_NewPresized=lambda n: {}, _Struct=types.SimpleNamespace)


def _operand_end(s, i):
    while i < len(s) and s[i] == ' ':
        i += 1
    if s[i] == '(':
        d = 0
        while True:
            d += s[i] == '('
            d -= s[i] == ')'
            i += 1
            if not d:
                return i
    if s[i] == '&':
        i += 1
    m = re.compile(r'[\w.]+').match(s, i)
    i = m.end()
    while i < len(s) and s[i] in '[(':
        o, c = s[i], {'[': ']', '(': ')'}[s[i]]
        d = 0
        while True:
            d += s[i] == o
            d -= s[i] == c
            i += 1
            if not d:
                break
        m = re.compile(r'(\.[\w.]+)?').match(s, i)
        i = m.end()
    return i


def _rewrite_expr(s):
    # address-of:  &name[expr] / &name
    while True:
        m = re.search(r'(?:(?<=[(,=>])|(?<=[(,=>] ))&(?=[A-Za-z_])', s)
        if not m:
            break
        j = _operand_end(s, m.end())
        op = s[m.end():j]
        k = op.rfind('[') if op.endswith(']') else -1
        if k >= 0:
            rep = f'_addr({op[:k]}, {op[k + 1:-1]})'
        else:
            rep = f'__ADDR_{op}'
        s = s[:m.start()] + rep + s[j:]
    # casts
    while True:
        m = re.search(r'<\s*((?:%s|\w+_t))\s*(\*?)\s*>' % SCALAR, s)
        if not m:
            break
        j = _operand_end(s, m.end())
        op = s[m.end():j].strip()
        f = '_pcast' if m.group(2) else '_cast'
        s = s[:m.start()] + f'{f}({m.group(1)!r}, {op})' + s[j:]
    s = re.sub(r'sizeof\(([^)]+)\)', lambda m: f'_sizeof({m.group(1)!r})', s)
    return s


def translate(src):
    out, typed, func = [], {}, None
    lines = []
    for ln in src.split('\n'):          # join multi-line signatures
        if lines and lines[-1].lstrip().startswith(('def ', 'cdef ')) and lines[-1].count('(') > lines[-1].count(')'):
            lines[-1] += ' ' + ln.strip()
        else:
            lines.append(ln)
    i = 0
    while i < len(lines):
        line = lines[i]
        i += 1
        code = line.split('#')[0].rstrip() if "'" not in line else line.rstrip()
        st = code.strip()
        ind = code[:len(code) - len(code.lstrip())]
        if st.startswith(('cimport ', 'from cpython', 'from libc', '@cython')):
            continue
        if st.startswith('cdef extern'):
            while i < len(lines) and (lines[i].startswith(' ') or not lines[i].strip()):
                i += 1
            continue
        m = re.match(r'cdef packed struct (\w+):', st)
        if m:
            fields = []
            while i < len(lines) and lines[i].startswith('    '):
                fm = re.match(r'\s*(%s|\w+_t)\s+(\*?)(\w+)' % SCALAR, lines[i])
                fields.append((fm.group(1), bool(fm.group(2)), fm.group(3)))
                i += 1
            STRUCTS[m.group(1)] = StructType(m.group(1), fields)
            continue
        m = re.match(r'(?:cdef\s+\w[\w ]*?\s+|def\s+)(\w+)\((.*)\)\s*:\s*$', st)
        if m and (st.startswith('def ') or st.startswith('cdef ')):
            func = m.group(1)
            typed[func] = {}
            params = []
            for p in m.group(2).split(','):
                p = re.sub(r'\bnot None\b', '', p).strip()
                params.append(re.findall(r'\w+', p)[-1])
            out.append(f'{ind}def {func}({", ".join(params)}):')
            continue
        m = re.match(r'cdef\s+(%s|\w+_t|%s)\s*(\[\d+\])?\s*(.*)$' % (SCALAR, '|'.join(PYT)), st)
        if m:
            t, arr, rest = m.groups()
            stmts = []
            if arr:
                stmts.append(f'{rest.strip()} = _CArray({t!r}, {arr[1:-1]})')
            else:
                for d in _split(rest):
                    d = d.strip()
                    dm = re.match(r'(\*?)\s*(\w+)\s*(?:=\s*(.*))?$', d)
                    star, name, init = dm.groups()
                    if t in STRUCTS and not star:
                        stmts.append(f'{name} = _Struct()')
                    elif t in INT or t == 'double':
                        if not star and func:
                            typed[func][name] = t
                        if init is not None:
                            stmts.append(f'{name} = {_rewrite_expr(init)}')
                    elif init is not None:
                        stmts.append(f'{name} = {_rewrite_expr(init)}')
            out.append(ind + ('; '.join(stmts) if stmts else 'pass'))
            continue
        code = _rewrite_expr(code)
        code = re.sub(r'(\w+)\s*=\s*frexp\((\w+),\s*__ADDR_(\w+)\)', r'\1, \3 = _frexp(\2)', code)
        out.append(code)
    tree = ast.parse('\n'.join(out))
    tree = _Typer(typed).visit(tree)
    ast.fix_missing_locations(tree)
    return tree


def _split(s):
    parts, d, cur = [], 0, ''
    for ch in s:
        d += ch in '([{'
        d -= ch in ')]}'
        if ch == ',' and not d:
            parts.append(cur)
            cur = ''
        else:
            cur += ch
    if cur.strip():
        parts.append(cur)
    return parts


def _call(name, *args):
    return ast.Call(ast.Name(name, ast.Load()), list(args), [])


class _Typer(ast.NodeTransformer):
    def __init__(self, typed):
        self.typed, self.cur = typed, {}

    def visit_FunctionDef(self, node):
        prev, self.cur = self.cur, self.typed.get(node.name, {})
        self.generic_visit(node)
        self.cur = prev
        return node

    def visit_BinOp(self, node):
        self.generic_visit(node)
        if isinstance(node.op, ast.Div):
            return _call('_cdiv', node.left, node.right)
        return node

    def _t(self, target):
        return self.cur.get(target.id) if isinstance(target, ast.Name) else None

    def visit_Assign(self, node):
        self.generic_visit(node)
        post = []
        for tg in node.targets:
            if isinstance(tg, ast.Tuple):
                for e in tg.elts:
                    if self._t(e):
                        post.append(ast.Assign([ast.Name(e.id, ast.Store())],
                                               _call('_cast', ast.Constant(self._t(e)), ast.Name(e.id, ast.Load()))))
        ts = [self._t(tg) for tg in node.targets if self._t(tg)]
        if ts:
            node.value = _call('_cast', ast.Constant(ts[-1]), node.value)
        return [node] + post

    def visit_AugAssign(self, node):
        self.generic_visit(node)
        t = self._t(node.target)
        if not t and not isinstance(node.op, ast.Div):
            return node
        load = ast.Name(node.target.id, ast.Load()) if isinstance(node.target, ast.Name) else None
        if load is None:
            return node
        val = _call('_cdiv', load, node.value) if isinstance(node.op, ast.Div) else ast.BinOp(load, node.op, node.value)
        if t:
            val = _call('_cast', ast.Constant(t), val)
        return ast.Assign([ast.Name(node.target.id, ast.Store())], val)

    def visit_For(self, node):
        self.generic_visit(node)
        names = [node.target] if isinstance(node.target, ast.Name) else list(getattr(node.target, 'elts', []))
        pre = [ast.Assign([ast.Name(n.id, ast.Store())], _call('_cast', ast.Constant(self._t(n)), ast.Name(n.id, ast.Load())))
               for n in names if self._t(n)]
        node.body = pre + node.body
        return node


def load(path, modname, extra=None):
    tree = translate(open(path).read())
    mod = types.ModuleType(modname)
    mod.__dict__.update(RUNTIME)
    mod.__dict__.update(extra or {})
    mod.__file__ = path
    sys.modules[modname] = mod          # before exec: the module imports chython.containers itself
    exec(compile(tree, path, 'exec'), mod.__dict__)
    return mod


def install(repo='/repo'):
    """translate the three .pyx sources of the working tree and register them under their real module names"""
    import chython  # noqa
    base = f'{repo}/chython'
    mods = {}
    mods['unpack'] = load(f'{base}/containers/_unpack_v0v2.pyx', 'chython.containers._unpack_v0v2')
    mods['pack'] = load(f'{base}/containers/_pack_v2.pyx', 'chython.containers._pack_v2')
    mods['iso'] = load(f'{base}/algorithms/_isomorphism.pyx', 'chython.algorithms._isomorphism')
    return mods
