#!/bin/sh
# usage: harness/seedtest.sh <property> <mutant-dir> [tier] [extra env]   -- applies the seeded change to /repo, runs demo + check, reverts
pid=$1; d=$2; tier=${3:-quick}
cd /repo || exit 2
if [ -n "$(git status --porcelain)" ]; then echo "/repo not clean"; exit 2; fi
PYTHONPATH=/verif/harness/shim:/repo /venv/bin/python $d/demo.py >/dev/null 2>&1; echo "demo on clean tree: exit $?"
git apply $d/patch.diff || { echo "patch does not apply"; exit 2; }
PYTHONPATH=/verif/harness/shim:/repo /venv/bin/python $d/demo.py >/dev/null 2>&1; echo "demo with change: exit $?"
cd /verif; bin/check $pid --tier $tier > /tmp/seed/check_$pid.log 2>&1; rc=$?
echo "check $pid $tier: exit $rc; $(grep -c '^VIOLATION' /tmp/seed/check_$pid.log) VIOLATION lines"
grep -E "^  part" /tmp/seed/check_$pid.log | cut -c1-220 | head -3
git -C /repo checkout -- .
