"""copy a confirmed seeded change into /verif/seeded/<id>/ with a meta.json that records what was run"""
import json, os, shutil, sys
pid, src, name, caught, note = sys.argv[1], sys.argv[2], sys.argv[3], sys.argv[4], sys.argv[5] if len(sys.argv) > 5 else ''
dst = f'/verif/seeded/{name}'
os.makedirs(dst, exist_ok=True)
for f in ('patch.diff', 'demo.py'):
    shutil.copy(os.path.join(src, f), dst)
m = json.load(open(os.path.join(src, 'meta.json')))
m.update({'property': pid, 'confirmed': 'demo.py exits 0 on the unchanged tree and 1 with the change; 243 tests (with the shim) / 30 (baseline) pass with the change',
          'ran': f'git -C /repo apply seeded/{name}/patch.diff; bin/check {pid} --tier quick; git -C /repo checkout -- .',
          'caught_by': caught, 'note': note})
json.dump(m, open(os.path.join(dst, 'meta.json'), 'w'), indent=1)
