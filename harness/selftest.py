"""Binding demonstration (DESIGN section 8): every trace specification must reject recorded observations in which one field was
corrupted.  Usage:
    VERIF_KEEP_DATA=/tmp/keep bin/check <ID> --tier quick     (for the checks of interest; keeps a sample of what TLC was given)
    /venv/bin/python harness/selftest.py /tmp/keep [report.md]
For every kept data set a number of records is corrupted at one leaf each (an integer changed by one, a flag toggled, one character
of a text changed, one list element dropped); TLC is run on the corrupted set with the original configuration; a corrupted record
counts as rejected when TLC prints a verdict for it (or stops with an error at it).  Leaves whose corruption is never rejected are
listed: they are either not part of any clause (labels, keys, raw input texts that TLC does not read) or a hole in the specification.
"""
import copy
import json
import os
import random
import re
import sys

sys.path.insert(0, os.path.dirname(__file__))
import vlib

IGNORE = {'key', 'smi', 'text', 'fmt', 'act', 'input', 'view', 'want', 'got', 'cs', 'proc', 'smi0', 'name'}


def leaves(x, path=()):
    if isinstance(x, dict):
        for k, v in x.items():
            if k in IGNORE:
                continue
            yield from leaves(v, path + (k,))
    elif isinstance(x, list):
        if x and all(isinstance(v, str) and len(v) == 1 for v in x):
            yield path, 'chars'
        else:
            for i, v in enumerate(x):
                yield from leaves(v, path + (i,))
            if len(x) > 1:
                yield path, 'list'
    elif isinstance(x, bool):
        pass
    elif isinstance(x, int):
        yield path, 'int'
    elif isinstance(x, str) and x:
        yield path, 'str'


def get(x, path):
    for p in path:
        x = x[p]
    return x


def put(x, path, v):
    for p in path[:-1]:
        x = x[p]
    x[path[-1]] = v


def corrupt(rec, rnd):
    ls = list(leaves(rec))
    if not ls:
        return None
    path, kind = rnd.choice(ls)
    v = get(rec, path)
    if kind == 'int':
        put(rec, path, v + 1 if v != 1 else 0)
    elif kind == 'str':
        put(rec, path, v + '~')
    elif kind == 'chars':
        if not v:
            return None
        i = rnd.randrange(len(v))
        v[i] = 'N' if v[i] != 'N' else 'O'
    elif kind == 'list':
        v.pop(rnd.randrange(len(v)))
    return '.'.join(str(p) if not isinstance(p, int) else '#' for p in path) + ':' + kind


def main():
    keep = sys.argv[1]
    rnd = random.Random(7)
    rows = []
    rows_file = os.path.join(vlib.VERIF, 'selftest', 'rows.jsonl')
    os.makedirs(os.path.dirname(rows_file), exist_ok=True)
    done = {}
    if os.path.exists(rows_file) and os.environ.get('SELFTEST_RESUME'):
        for line in open(rows_file):
            r = json.loads(line)
            done[r[0]] = r
    else:
        open(rows_file, 'w').close()
    # (the pack data sets last: a corrupted coordinate can make the half-float evaluation run into the time limit)
    for d in sorted(os.listdir(keep), key=lambda x: (x.startswith('C10'), x)):
        if d in done:
            rows.append(tuple(done[d]))
            continue
        dd = os.path.join(keep, d)
        if not os.path.exists(os.path.join(dd, 'meta.json')):
            continue
        meta = json.load(open(os.path.join(dd, 'meta.json')))
        data = json.load(open(os.path.join(dd, 'data.json')))
        n = len(data)
        cfg = re.sub(r'CH = \d+', f'CH = {min(64, n)}', meta['cfg'])
        try:
            base = vlib.run_tlc(meta['module'], cfg, data, files=meta['files'], timeout=900, tag='selftest')
        except vlib.Machinery as e:
            print(f'{d}: skipped ({str(e)[:80]})', flush=True)
            continue
        clean = {i for i, _ in base['verdicts']}
        idx = [i for i in rnd.sample(range(n), min(n, 40)) if (i + 1) not in clean]
        corrupted = {}
        what = {}
        for i in idx:
            r = copy.deepcopy(data[i])
            w = corrupt(r, rnd)
            if w:
                corrupted[i] = r
                what[i + 1] = w
        rejected, stopped = set(), set()

        def evaluate(ids):
            """run TLC with the records `ids` corrupted; a TLC error is bisected down to the record that causes it"""
            bad = list(data)
            for i in ids:
                bad[i] = corrupted[i]
            try:
                res = vlib.run_tlc(meta['module'], cfg, bad, files=meta['files'], timeout=120, tag='selftest')
            except vlib.Machinery as e:      # a corrupted number can make an evaluation run away: counted like an evaluation error
                res = {'error': str(e), 'verdicts': []}
            if res['error']:
                if len(ids) == 1:
                    stopped.add(ids[0] + 1)     # TLC cannot even interpret the corrupted record: rejected
                else:
                    evaluate(ids[:len(ids) // 2])
                    evaluate(ids[len(ids) // 2:])
                return
            rejected.update(i for i, _ in res['verdicts'] if i - 1 in ids)
        evaluate(sorted(corrupted))
        err = bool(stopped)
        rejected |= stopped
        missed = sorted({what[i] for i in what if i not in rejected})
        rows.append((d, meta['module'], len(what), len(rejected), bool(err), missed))
        with open(rows_file, 'a') as f:
            f.write(json.dumps(rows[-1]) + '\n')
        print(f'{d}: {meta["module"]}: {len(rejected)}/{len(what)} corrupted records rejected ({len(stopped)} of them by a TLC evaluation error)', flush=True)
    out = sys.argv[2] if len(sys.argv) > 2 else os.path.join(vlib.VERIF, 'selftest', 'REPORT.md')
    os.makedirs(os.path.dirname(out), exist_ok=True)
    with open(out, 'w') as f:
        f.write('# Binding demonstration: corrupted observations against the trace specifications\n\n')
        f.write('Generated by `harness/selftest.py` from a sample of the records of a quick run (see its docstring).\n\n')
        f.write('| data set | module | corrupted | rejected | leaves whose corruption was not rejected |\n|---|---|---|---|---|\n')
        for d, m, a, b, e, miss in sorted(rows):
            f.write(f'| {d} | {m} | {a} | {b}{" (+ TLC error)" if e else ""} | {", ".join(miss[:12])} |\n')
    vacuous = [r for r in rows if r[2] and not r[3] and not r[4]]
    if vacuous:
        print('NO CORRUPTION REJECTED BY: ' + ', '.join(r[0] for r in vacuous))
        return 1
    return 0


if __name__ == '__main__':
    sys.exit(main())
