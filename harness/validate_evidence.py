import json, sys, jsonschema, glob
sch = json.load(open('/root/.vp/EVIDENCE.schema.json'))
jsonschema.validate(json.load(open('/verif/MANIFEST.json')), json.load(open('/root/.vp/MANIFEST.schema.json')))
for f in sorted(glob.glob('/verif/evidence/*.json')):
    jsonschema.validate(json.load(open(f)), sch)
    print('valid', f)
